// vtmerge folds the per-shard part files of one check run into
// /verif/evidence/<ID>.json (EVIDENCE.schema.json) and decides the exit status.
//
//	vtmerge <ID> <tier> <seed> <level> <wall_s> <evidence file> <part files...>
//
// exit 0: held; 1: violation; 2: inconclusive (missing part, starved generator, ...).
package main

import (
	"encoding/json"
	"fmt"
	"os"
	"sort"
	"strconv"

	"vt/internal/ev"
)

func main() {
	if len(os.Args) < 8 {
		fmt.Fprintln(os.Stderr, "usage: vtmerge ID tier seed level wall evidence parts...")
		os.Exit(2)
	}
	id, tier := os.Args[1], os.Args[2]
	seed, _ := strconv.Atoi(os.Args[3])
	level := os.Args[4]
	wall, _ := strconv.ParseFloat(os.Args[5], 64)
	out := os.Args[6]
	parts := os.Args[7:]

	nt := map[uint64]struct{}{}
	classes := map[string]int{}
	subs := map[string]int{}
	extra := map[string]any{}
	var samples []any
	var assumptions []string
	var replays, known []string
	rule := ""
	evals, viol, replayed, excluded, missing := 0, 0, 0, 0, 0
	exhaustive := true
	inconclusive := []string{}
	perShard := []map[string]any{}
	for _, pf := range parts {
		b, err := os.ReadFile(pf)
		if err != nil {
			missing++
			inconclusive = append(inconclusive, "shard produced no part file: "+pf)
			continue
		}
		var p ev.Part
		if err := json.Unmarshal(b, &p); err != nil {
			missing++
			inconclusive = append(inconclusive, "bad part file: "+pf)
			continue
		}
		if p.Level != "" {
			level = p.Level
		}
		rule = p.Rule
		assumptions = p.Assumptions
		evals += p.Evaluations
		viol += p.Violations
		replayed += p.Replayed
		excluded += p.Excluded
		for _, h := range p.NonTrivial {
			nt[h] = struct{}{}
		}
		for k, v := range p.Classes {
			classes[k] += v
		}
		for k, v := range p.Subs {
			subs[k] += v
		}
		for k, v := range p.Extra {
			switch x := v.(type) {
			case float64:
				cur, _ := extra[k].(float64)
				extra[k] = cur + x
			default:
				if _, ok := extra[k]; !ok {
					extra[k] = v
				}
			}
		}
		for _, s := range p.Samples {
			if len(samples) < 12 && (len(parts) == 1 || len(samples) < 12) {
				samples = append(samples, s)
			}
		}
		replays = append(replays, p.Replays...)
		known = append(known, p.KnownSeen...)
		if p.Inconclusive != "" {
			inconclusive = append(inconclusive, p.Inconclusive)
		}
		if !p.Exhaustive {
			exhaustive = false
		}
		perShard = append(perShard, map[string]any{"shard": p.Shard, "evaluations": p.Evaluations, "wall_s": p.WallS})
	}
	if len(samples) > 12 {
		samples = samples[:12]
	}
	sort.Strings(known)
	cov := map[string]any{
		"evaluations":          evals,
		"distinct_nontrivial":  len(nt),
		"rule":                 rule,
		"samples":              samples,
		"classes":              classes,
		"per_sub_evaluations":  subs,
		"replayed_regressions": replayed,
		"excluded_known":       excluded,
		"known_findings_seen":  known,
		"shards":               perShard,
		"replays":              replays,
	}
	if exhaustive && len(parts) > 0 && missing == 0 {
		cov["exhaustive"] = true
	}
	for k, v := range extra {
		cov[k] = v
	}
	if len(inconclusive) > 0 {
		cov["inconclusive"] = inconclusive
	}
	doc := map[string]any{
		"property_id": id,
		"tier":        tier,
		"seed":        seed,
		"level":       level,
		"coverage":    cov,
		"assumptions": assumptions,
		"wall_s":      wall,
		"violations":  viol,
	}
	b, _ := json.MarshalIndent(doc, "", " ")
	if err := os.WriteFile(out, append(b, '\n'), 0o644); err != nil {
		fmt.Fprintln(os.Stderr, "cannot write evidence:", err)
		os.Exit(2)
	}
	fmt.Printf("EVIDENCE property=%s tier=%s evaluations=%d distinct_nontrivial=%d violations=%d file=%s\n", id, tier, evals, len(nt), viol, out)
	switch {
	case viol > 0:
		os.Exit(1)
	case len(inconclusive) > 0:
		for _, s := range inconclusive {
			fmt.Printf("INCONCLUSIVE property=%s %s\n", id, s)
		}
		os.Exit(2)
	}
}
