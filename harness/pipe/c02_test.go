package pipe

import (
	"encoding/json"
	"fmt"
	"os"
	"path"
	"regexp"
	"sort"
	"strings"
	"testing"

	"pgregory.net/rapid"

	"vt/internal/ev"
	"vt/internal/modspec"
	"vt/internal/script"
)

// ---- C02: a failed generation never damages existing output or marks work as done ----

type c2Case struct {
	ModCase
	Gens []string `json:"gens"` // generator names (fixed mode), all AliasGenerators with Defer registrations
	// Rot rotates the assignment of fault kinds to positions, Death selects which positions also get process-death kinds
	Rot   int `json:"rot"`
	Death int `json:"death"`
	// Only (replay / shrinking aid): when >= 0 only this fault point index is executed
	Only int `json:"only"`
	// Force: the runs into which faults are injected use Force (nothing is trusted as cached; previous output must survive all the same)
	Force bool `json:"force,omitempty"`
	// Quiet: one more generator ("ab", registered first) is enabled everywhere and neither renders nor registers callbacks
	Quiet bool `json:"quiet,omitempty"`
}

var c2ErrorKinds = []string{
	"error", "wraperror", "defererror", "defererror-with-followup", "defererror-nested", "syntax-openbrace", "syntax-straytoken", "syntax-string", "syntax-comment", "syntax-nul", "syntax-package",
	"syntax-lateimport", "syntax-closebrace", "syntax-stmt", "skip", "ignore", "wrapskip", "wrapignore", "panic-free-nothing",
	// a real error while other types of the same package signal ErrIgnore; unparseable text behind a //line directive
	"error+ignore-elsewhere", "wraperror+wrapignore-elsewhere", "syntax-linedirective", "syntax-linecomment", "syntax-after-a-very-long-line",
	// the generator's whole output comes from Defer callbacks (GenerateType renders nothing anywhere) and one of them fails
	"defererror-deferonly",
	// unparseable text for one type while the other types of the package signal ErrIgnore; errors that wrap well-known sentinels
	"syntax-straytoken+ignore-elsewhere", "syntax-openbrace+wrapignore-elsewhere", "wrap:canceled", "wrap:deadline", "wrap:eof", "wrap:notexist", "join:canceled", "bare:deadline",
	"defererror:wrap:canceled", "defererror:bare:deadline",
}

var c2Syntax = map[string]string{
	"syntax-openbrace":  "\nfunc broken$G$T() {\n",
	"syntax-straytoken": "\nvar broken$G$T = = 1\n",
	"syntax-string":     "\nvar broken$G$T = \"never closed\n",
	"syntax-comment":    "\n/* never closed $T\n",
	"syntax-nul":        "\nvar broken$G$T = 1\x00\n",
	"syntax-package":    "\npackage other\n",
	"syntax-lateimport": "\nvar pre$G$T = 0\n\nimport \"fmt\"\n",
	"syntax-closebrace": "\n}\n",
	"syntax-stmt":       "\nx$G$T := 1\n",
	// positions behind a line directive are reported in another file
	"syntax-linedirective": "\n//line tmpl$G.y:1\nfunc broken$G$T() {\n",
	"syntax-linecomment":   "\n/*line other$G.y:2:1*/ var broken$G$T = = 1\n",
	// a line of more than 64 KiB ahead of the syntax error (buffer limits of line-oriented readers)
	"syntax-after-a-very-long-line": "\nvar long$G$T = \"" + strings.Repeat("x", 70000) + "\"\n\nfunc broken$G$T() {\n",
}

func genC02(t *rapid.T) c2Case {
	names := rapid.SampledFrom([][]string{{"g"}, {"g", "gen"}, {"deep", "deepcopy"}, {"x1", "a"}}).Draw(t, "gens")
	o := modOpts{gens: []string{"zzz"}, minPkgs: 2, maxPkgs: 4, locals: false, tagDensity: 9, pkgTagBias: 9, maxDecls: 3, imports: true}
	c := c2Case{ModCase: genMod(t, o), Gens: names, Only: -1}
	c.Force = rapid.IntRange(0, 2).Draw(t, "force") == 0
	c.Quiet = rapid.IntRange(0, 2).Draw(t, "quiet") == 0
	// the first package imports all others so that one entry covers the module
	first := &c.Mod.Pkgs[0]
	if first.Name == "main" || true {
		var imps []string
		for i := 1; i < len(c.Mod.Pkgs); i++ {
			if c.Mod.Pkgs[i].Name != "main" && !strings.HasPrefix(c.Mod.Pkgs[i].Dir, "internal") {
				imps = append(imps, c.Mod.PkgPath(&c.Mod.Pkgs[i]))
			}
		}
		first.Files[0].Imports = imps
	}
	c.Rot = rapid.IntRange(0, len(c2ErrorKinds)-1).Draw(t, "rot")
	c.Death = rapid.IntRange(0, 7).Draw(t, "death")
	return c
}

type c2Point struct {
	Gen   string `json:"gen"`
	Pkg   string `json:"pkg"` // package path
	Dir   string `json:"dir"`
	Type  string `json:"type"`
	Alias bool   `json:"alias,omitempty"`
	Kind  string `json:"kind"`
	// position facts for the non-triviality rule
	AfterSuccess bool `json:"after_success"`
	NotFirstPkg  bool `json:"not_first_pkg"`
	HadPrevious  bool `json:"had_previous"`
}

func (c *c2Case) processedDirs() []string {
	return c.closure([]string{c.Mod.Pkgs[0].Dir})
}

func (c *c2Case) baseScripts() []*script.Script {
	var out []*script.Script
	if c.Quiet {
		out = append(out, &script.Script{Name: "ab", Mode: "fixed", Alias: true})
	}
	for _, g := range c.Gens {
		out = append(out, &script.Script{Name: g, Mode: "fixed", Alias: true,
			Default: script.Action{
				Render: []script.Piece{{Kind: "block", Text: "\nvar _$G_$T = $N\n"}},
				Defers: []script.DeferAction{{Render: []script.Piece{{Kind: "block", Text: "\nvar _$G_$T_deferred = 0\n"}}}},
			},
			OnAlias: &script.Action{Render: []script.Piece{{Kind: "block", Text: "\nvar _$G_$T_alias = 0\n"}}},
		})
	}
	return out
}

// points enumerates every (generator, package, type) position of the layout, in processing order, and assigns fault kinds round-robin.
func (c *c2Case) points(prev modspec.Tree) []c2Point {
	var pts []c2Point
	dirs := c.processedDirs()
	type dp struct{ dir, path string }
	var pk []dp
	for _, d := range dirs {
		pk = append(pk, dp{d, c.Mod.PkgPath(c.Mod.PkgByDir(d))})
	}
	sort.Slice(pk, func(i, j int) bool { return pk[i].path < pk[j].path })
	k := c.Rot
	pos := 0
	for pi, p := range pk {
		pkgLevel, _ := c.Mod.PkgByDir(p.dir).Types()
		sort.Slice(pkgLevel, func(i, j int) bool { return pkgLevel[i].Name < pkgLevel[j].Name })
		for gi, g := range c.Gens {
			for ti, ty := range pkgLevel {
				_, had := prev[path.Join(p.dir, "zz_generated."+g+".go")]
				base := c2Point{Gen: g, Pkg: p.path, Dir: p.dir, Type: ty.Name, Alias: ty.Alias, AfterSuccess: ti > 0 || gi > 0 || pi > 0, NotFirstPkg: pi > 0, HadPrevious: had}
				kinds := []string{c2ErrorKinds[k%len(c2ErrorKinds)], c2ErrorKinds[(k+7)%len(c2ErrorKinds)]}
				k++
				if (pos+c.Death)%8 == 0 {
					kinds = append(kinds, "exit")
				}
				if (pos+c.Death)%8 == 4 {
					kinds = append(kinds, "kill")
				}
				if (pos+c.Death)%8 == 6 {
					kinds = append(kinds, "die-by-panic")
				}
				pos++
				for _, kind := range kinds {
					pt := base
					pt.Kind = kind
					pts = append(pts, pt)
				}
			}
		}
	}
	return pts
}

func (c *c2Case) faultScripts(pt c2Point) []*script.Script {
	ss := c.baseScripts()
	for _, s := range ss {
		if s.Name != pt.Gen {
			continue
		}
		act := s.Default
		if pt.Alias {
			act = *s.OnAlias
		}
		switch {
		case strings.HasPrefix(pt.Kind, "defererror:"):
			act.Defers = []script.DeferAction{{Err: strings.TrimPrefix(pt.Kind, "defererror:")}}
		case strings.HasPrefix(pt.Kind, "syntax-") && !strings.HasSuffix(pt.Kind, "-elsewhere"):
			act.Render = append(append([]script.Piece{}, act.Render...), script.Piece{Kind: "block", Text: c2Syntax[pt.Kind]})
		case pt.Kind == "defererror":
			act.Defers = []script.DeferAction{{Err: "error"}}
		case pt.Kind == "defererror-deferonly":
			act.Render = nil
			act.Defers = []script.DeferAction{{Render: []script.Piece{{Kind: "block", Text: "\nvar _$G_$T_deferred = 0\n"}}}, {Err: "error"}}
		case pt.Kind == "defererror-with-followup":
			// an earlier callback queues a follow-up (which succeeds) before a later callback fails
			ok := []script.Piece{{Kind: "block", Text: "\nvar _$G_$T_followup = 0\n"}}
			act.Defers = []script.DeferAction{{Then: []script.DeferAction{{Render: ok}}}, {Err: "error"}, {Render: ok}}
		case pt.Kind == "defererror-nested":
			// the failing callback is itself registered from inside another callback, and more callbacks follow it
			ok := []script.Piece{{Kind: "block", Text: "\nvar _$G_$T_after = 0\n"}}
			act.Defers = []script.DeferAction{{Then: []script.DeferAction{{Err: "error"}, {Render: ok}}}, {Render: ok}}
		case pt.Kind == "panic-free-nothing":
			act.Render = nil
			act.Defers = nil
		case pt.Kind == "die-by-panic":
			act.Err = "panic"
		case strings.HasSuffix(pt.Kind, "-elsewhere"):
			// this type fails for real, every other defined type of the package gets ErrIgnore from the same generator
			if head := strings.SplitN(pt.Kind, "+", 2)[0]; strings.HasPrefix(head, "syntax-") {
				act.Render = append(append([]script.Piece{}, act.Render...), script.Piece{Kind: "block", Text: c2Syntax[head]})
			} else {
				act.Err = head
			}
			ign := strings.TrimSuffix(strings.SplitN(pt.Kind, "+", 2)[1], "-elsewhere")
			for i := range c.Mod.Pkgs {
				p := &c.Mod.Pkgs[i]
				if c.Mod.PkgPath(p) != pt.Pkg {
					continue
				}
				pkgLevel, _ := p.Types()
				for _, ti := range pkgLevel {
					if ti.Alias || ti.Name == pt.Type {
						continue
					}
					if s.PerType == nil {
						s.PerType = map[string]script.Action{}
					}
					s.PerType[pt.Pkg+"."+ti.Name] = script.Action{Err: ign}
				}
			}
		default:
			act.Err = pt.Kind
		}
		if pt.Alias {
			// per-type action applies to alias types too, OnAlias must not override it
			s.OnAlias = nil
			for _, other := range c.aliasKeys() {
				if other != pt.Pkg+"."+pt.Type {
					if s.PerType == nil {
						s.PerType = map[string]script.Action{}
					}
					s.PerType[other] = script.Action{Render: []script.Piece{{Kind: "block", Text: "\nvar _$G_$T_alias = 0\n"}}}
				}
			}
		}
		if s.PerType == nil {
			s.PerType = map[string]script.Action{}
		}
		s.PerType[pt.Pkg+"."+pt.Type] = act
		if pt.Kind == "defererror-deferonly" {
			s.Default.Render = nil
			if s.OnAlias != nil {
				s.OnAlias = &script.Action{}
			}
			for k, a := range s.PerType {
				a.Render = nil
				s.PerType[k] = a
			}
		}
	}
	return ss
}

func (c *c2Case) aliasKeys() []string {
	var out []string
	for i := range c.Mod.Pkgs {
		p := &c.Mod.Pkgs[i]
		pkgLevel, _ := p.Types()
		for _, ti := range pkgLevel {
			if ti.Alias {
				out = append(out, c.Mod.PkgPath(p)+"."+ti.Name)
			}
		}
	}
	return out
}

var c2Rec *ev.Recorder

var posRe = regexp.MustCompile(`:\d+:\d+`)

func oracleC02(c c2Case) error {
	dir := tempModule(&c.Mod)
	defer os.RemoveAll(dir)
	globals := map[string][]string{}
	for _, g := range c.Gens {
		globals["gengo:"+g] = []string{""}
	}
	ent := []string{entry(c.Mod.Pkgs[0].Dir)}
	run := func(scripts []*script.Script) script.RunResult {
		return script.Run(script.RunSpec{Dir: dir, Entrypoints: ent, All: true, Force: c.Force, Globals: globals, Base: "zz_generated", Scripts: scripts})
	}
	// previous successful run: outputs to protect and a gengo.sum that says "done"
	r0 := run(c.baseScripts())
	if r0.LoadErr != "" {
		panic("harness: synthetic module does not load: " + r0.LoadErr)
	}
	if r0.Failed || r0.Panic != "" {
		return fmt.Errorf("clean run fails: %s %s", r0.Err, r0.Panic)
	}
	// sources change, so every package is due for regeneration; one package loses its previous output
	for i := range c.Mod.Pkgs {
		p := &c.Mod.Pkgs[i]
		fn := path.Join(dir, p.Dir, p.Files[0].Name)
		b, _ := os.ReadFile(fn)
		_ = os.WriteFile(fn, append(b, []byte("\n// edited after the first run\n")...), 0o644)
	}
	last := c.Mod.Pkgs[len(c.Mod.Pkgs)-1]
	_ = os.Remove(path.Join(dir, last.Dir, "zz_generated."+c.Gens[0]+".go"))
	start := mustSnapshot(dir)
	// what a clean run produces from here
	rc := run(c.baseScripts())
	if rc.Failed || rc.Panic != "" {
		return fmt.Errorf("clean second run fails: %s %s", rc.Err, rc.Panic)
	}
	clean := mustSnapshot(dir)

	pts := c.points(start)
	for i, pt := range pts {
		if c.Only >= 0 && i != c.Only {
			continue
		}
		if err := start.Restore(dir); err != nil {
			panic("harness: restore: " + err.Error())
		}
		enc, _ := json.Marshal(pt)
		if c2Rec != nil {
			c2Rec.Point("faultpoint", enc, pt.AfterSuccess || pt.NotFirstPkg || pt.HadPrevious, []string{"kind-" + pt.Kind})
		}
		where := fmt.Sprintf("fault point %d/%d {gen %s, package %s, type %s, kind %s}", i, len(pts), pt.Gen, pt.Pkg, pt.Type, pt.Kind)
		scripts := c.faultScripts(pt)
		prevFile := path.Join(pt.Dir, "zz_generated."+pt.Gen+".go")
		switch pt.Kind {
		case "exit", "kill", "die-by-panic":
			_, exit, stderr := script.RunChild(script.RunSpec{Dir: dir, Entrypoints: ent, All: true, Force: c.Force, Globals: globals, Base: "zz_generated", Scripts: scripts, NoRecover: true}, os.TempDir())
			if exit == 0 {
				return fmt.Errorf("%s: the process was supposed to die inside GenerateType but exited 0", where)
			}
			if exit == 97 {
				panic("harness: child role failed: " + stderr)
			}
			after := mustSnapshot(dir)
			if after["gengo.sum"] != start["gengo.sum"] {
				return fmt.Errorf("%s: the process died part-way through the run, yet gengo.sum was rewritten:\n before %q\n after  %q", where, start["gengo.sum"], after["gengo.sum"])
			}
			// the next run must regenerate instead of trusting half-written output
			rr := run(c.baseScripts())
			if rr.Failed || rr.Panic != "" {
				return fmt.Errorf("%s: clean run after the crash fails: %s %s", where, rr.Err, rr.Panic)
			}
			for _, ch := range modspec.Diff(clean, mustSnapshot(dir)) {
				if ch.Path == "gengo.sum" {
					continue // hashes are taken at load time, when half-regenerated output was on disk
				}
				return fmt.Errorf("%s: after the crash a clean run does not reach the state a never-crashed clean run produces: %s %s", where, ch.Path, ch.Kind)
			}
		case "skip", "ignore", "wrapskip", "wrapignore", "panic-free-nothing":
			res := run(scripts)
			if res.Panic != "" {
				return fmt.Errorf("%s: Execute panics: %s", where, res.Panic)
			}
			if res.Failed {
				return fmt.Errorf("%s: %s is not a failure, yet Execute returned %q", where, pt.Kind, res.Err)
			}
		default:
			res := run(scripts)
			if res.Panic != "" {
				return fmt.Errorf("%s: Execute panics instead of returning an error: %s", where, res.Panic)
			}
			if !res.Failed {
				return fmt.Errorf("%s: Execute returned nil", where)
			}
			if strings.HasPrefix(pt.Kind, "syntax-") {
				file := "zz_generated." + pt.Gen + ".go"
				named := strings.Contains(res.Err, "`"+pt.Gen+"`") && strings.Contains(res.Err, pt.Pkg)
				positioned := strings.Contains(res.Err, file) && posRe.MatchString(res.Err)
				if strings.HasPrefix(pt.Kind, "syntax-line") {
					positioned = regexp.MustCompile(`\.y:\d+`).MatchString(res.Err) // the position is reported in the file the line directive names (a //line without column gives file:line only)
				}
				if !named && !positioned {
					return fmt.Errorf("%s: error %q names neither generator+package nor a syntax position in %s", where, res.Err, file)
				}
			} else {
				// the generator's name as a word of its own, outside the package path and the harness's own error text
				rest := strings.ReplaceAll(strings.ReplaceAll(res.Err, pt.Pkg+"."+pt.Type, ""), pt.Pkg, "")
				if !regexp.MustCompile(`(^|[^A-Za-z0-9_])`+regexp.QuoteMeta(pt.Gen)+`([^A-Za-z0-9_]|$)`).MatchString(rest) || !strings.Contains(res.Err, pt.Pkg) {
					return fmt.Errorf("%s: error %q does not name the generator and the package", where, res.Err)
				}
			}
			after := mustSnapshot(dir)
			if old, had := start[prevFile]; had {
				if now, ok := after[prevFile]; !ok || now != old {
					return fmt.Errorf("%s: the previously generated file %s was not left byte-identical (exists=%v)", where, prevFile, ok)
				}
			} else if _, ok := after[prevFile]; ok {
				return fmt.Errorf("%s: %s did not exist before the failed run and exists now", where, prevFile)
			}
			if after["gengo.sum"] != start["gengo.sum"] {
				return fmt.Errorf("%s: gengo.sum was rewritten by a failed run", where)
			}
			if i%3 == 0 {
				// the caller repairs the cause and calls Execute again on the same Executor: the failed package is not done yet
				if err := start.Restore(dir); err != nil {
					panic("harness: restore: " + err.Error())
				}
				rr := script.Run(script.RunSpec{Dir: dir, Entrypoints: ent, All: true, Force: c.Force, Globals: globals, Base: "zz_generated", Scripts: scripts, Retry: c.baseScripts()})
				if !rr.Failed || !rr.Retried {
					return fmt.Errorf("%s: the first Execute of the retry scenario did not fail", where)
				}
				if rr.RetryFailed {
					return fmt.Errorf("%s: the second Execute on the same Executor (with generators that no longer fail) returns %q", where, rr.RetryErr)
				}
				for _, ch := range modspec.Diff(clean, mustSnapshot(dir)) {
					if ch.Path == "gengo.sum" {
						continue
					}
					return fmt.Errorf("%s: after a failed Execute and a second, successful Execute on the same Executor the tree differs from what a clean run produces: %s %s (the failed package was taken as done)", where, ch.Path, ch.Kind)
				}
			}
		}
	}
	return nil
}

func c2Features(c c2Case) []string {
	fs := []string{fmt.Sprintf("gens-%d", len(c.Gens)), fmt.Sprintf("pkgs-%d", len(c.Mod.Pkgs))}
	if c.Force {
		fs = append(fs, "force")
	}
	return fs
}

func TestC02(t *testing.T) {
	r := ev.Begin(t, ev.Meta{
		ID:    "C02",
		Level: "fault_enumeration",
		Rule: "layouts: modules of 2-4 packages with previous outputs and a gengo.sum left by a successful run, sources then edited; for each layout EVERY (generator, " +
			"package, type) position in processing order is enumerated and gets fault kinds round-robin from: plain error, wrapped error, error from a Defer " +
			"callback (flat, after an earlier callback queued a follow-up, and from a callback that was itself registered by a callback), a failing callback of a generator whose whole output comes from callbacks, optionally behind a first generator that renders and registers nothing, a real error while the other types of the package get ErrIgnore, error from GenerateAliasType (alias positions), 11 unparseable renderings (behind //line and /*line*/ directives, open brace, stray token, unterminated string/comment, NUL, second " +
			"package clause, late import, stray '}', statement at top level), ErrSkip/ErrIgnore plain and wrapped (must not fail), and process death by os.Exit(3) / " +
			"SIGKILL / an unrecovered panic inside GenerateType in a child process; evaluations = layouts + fault points; a fault point is non-trivial when it lands after a successful " +
			"GenerateType, or in a package that is not the first, or there is a previous output file to protect; distinct by (layout-independent) JSON of the point",
		Assumptions: []string{
			"faults are injected at generator-visible points only (no hooks inside gengo's write loop, no I/O errors)",
			"for unparseable renderings either generator+package or a file:line:col position in the message is accepted",
		},
	})
	defer r.Finish()
	c2Rec = r
	ev.Search(r, ev.Sub[c2Case]{
		Name: "layout", Gen: genC02, Oracle: oracleC02, Classes: c2Features,
		Budget: ev.Budget{Quick: 25, Thorough: 300}, MinNonTrivial: 0.0001,
	})
}
