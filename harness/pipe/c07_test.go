package pipe

import (
	"fmt"
	"go/ast"
	"go/parser"
	"go/token"
	"os"
	"path"
	"path/filepath"
	"sort"
	"strings"
	"testing"

	"pgregory.net/rapid"

	"vt/internal/ev"
	"vt/internal/modspec"
	"vt/internal/script"
)

// ---- C07: gengo only touches its own output files ----

type c7Gen struct {
	Name string `json:"name"`
	Mode string `json:"mode"`
	// Behaviour: render | nothing | skip | ignore | ignore+output | wrapignore | wrapskip | ignore-first[+skip] | ignore-last | defer-only
	Behaviour string `json:"behaviour"`
}

type c7Run struct {
	Gens    []c7Gen  `json:"gens"`
	Entries []string `json:"entries"`
	All     bool     `json:"all,omitempty"`
	Force   bool     `json:"force,omitempty"`
	// Cwd: the directory gengo is started in, relative to the module root ("" = the root); entrypoints are import paths then
	Cwd string `json:"cwd,omitempty"`
}

type c7Case struct {
	ModCase
	Base string  `json:"base"`
	Runs []c7Run `json:"runs"`
	// Unhashable: every package directory holds a dangling symlink (the directory hash cannot be computed)
	Unhashable bool `json:"unhashable,omitempty"`
	// Nested: a second module lives in the directory znested/ of the main module, its path lies below the main module's path,
	// and the first package imports its package: it is another module and must not be touched
	Nested bool `json:"nested,omitempty"`
	// Workspace: a go.work file in the module root makes the module zwork/ (path example.org/worklib) a second workspace module; the
	// first package imports its package. It is a main module for the go command, yet another module: it must not be touched
	Workspace bool `json:"workspace,omitempty"`
}

var c7GenNames = []string{"g", "gen", "deep", "deepcopy", "a", "ab", "x1", "doc"}

func genC07(t *rapid.T) c7Case {
	o := modOpts{gens: []string{"zzz"}, minPkgs: 2, maxPkgs: 4, locals: false, tagDensity: 6, pkgTagBias: 9, maxDecls: 3, imports: true}
	c := c7Case{ModCase: genMod(t, o)}
	c.Base = rapid.SampledFrom([]string{"zz_generated", "zz", "generated"}).Draw(t, "base")
	// pre-existing files
	for i := range c.Mod.Pkgs {
		p := &c.Mod.Pkgs[i]
		valid := func(marker string) string {
			return fmt.Sprintf("package %s\n\n// %s\nvar _pre_%s_%d = 0\n", p.Name, marker, strings.NewReplacer(".", "_", "-", "_").Replace(marker), i)
		}
		for _, cand := range []struct {
			name string
			data string
			w    int
		}{
			{"notes.txt", "user notes\n", 2},
			{"data/x.json", "{}\n", 3},
			{c.Base + "x.go", valid("lookalike_x"), 2},
			{c.Base + "_y.go", valid("lookalike_y"), 3},
			{"a" + c.Base + ".q.go", valid("lookalike_prefix"), 4},
			{c.Base, "no extension\n", 4},
			{c.Base + ".notes.txt", "notes with the base name\n", 4},
			{c.Base + ".old.go", valid("stale_old"), 1},
			{c.Base + ".legacy.go", valid("stale_legacy"), 3},
			{"testdata/" + c.Base + ".g.go", "package testdata\n", 4},
			{"sub_not_pkg/" + c.Base + ".g.txt", "x\n", 5},
			// directories whose NAME looks like an output file: user data and a nested package that is not selected
			{c.Base + ".assets/data.txt", "user data\n", 4},
			{c.Base + ".sub/x.go", "package sub\n\ntype X struct{ A int }\n", 5},
		} {
			if rapid.IntRange(0, cand.w).Draw(t, "pre") == 0 {
				p.Other = append(p.Other, modspec.File{Name: cand.name, Data: cand.data})
			}
		}
		// previous outputs of generators that may run
		for _, g := range c7GenNames[:4] {
			if rapid.IntRange(0, 3).Draw(t, "prevout") == 0 {
				data := valid("previous_" + g)
				if rapid.Bool().Draw(t, "longprev") {
					// much longer than anything rendered now: the new file must replace it entirely
					var sb strings.Builder
					for l := 0; l < 300; l++ {
						fmt.Fprintf(&sb, "// line %d of a previous, much longer output\n", l)
					}
					data = strings.Replace(data, "\n\n", "\n\n"+sb.String(), 1)
				}
				p.Other = append(p.Other, modspec.File{Name: fmt.Sprintf("%s.%s.go", c.Base, g), Data: data})
			}
		}
	}
	if rapid.Bool().Draw(t, "readme") {
		c.Mod.Extra = append(c.Mod.Extra, modspec.File{Name: "README.md", Data: "# readme\n"})
	}
	if rapid.IntRange(0, 2).Draw(t, "oldsum") == 0 {
		c.Mod.Extra = append(c.Mod.Extra, modspec.File{Name: "gengo.sum", Data: c.Mod.Path + " h1:stale=\n"})
	}
	if rapid.IntRange(0, 3).Draw(t, "rootlookalike") == 0 {
		c.Mod.Extra = append(c.Mod.Extra, modspec.File{Name: "docs/" + c.Base + ".g.go", Data: "package docs\n"})
	}
	c.Mod.Extra = append(c.Mod.Extra, modspec.File{Name: "zdocs/sub/notes.md", Data: "notes\n"})
	if rapid.IntRange(0, 3).Draw(t, "nested") == 0 {
		c.Nested = true
		np := c.Mod.Path + "/znested"
		gomod := "module " + c.Mod.Path + "\n"
		if c.Mod.Go != "" {
			gomod += "\ngo " + c.Mod.Go + "\n"
		}
		gomod += "\nrequire " + np + " v0.0.0\n\nreplace " + np + " => ./znested\n"
		ngomod := "module " + np + "\n"
		if c.Mod.Go != "" {
			ngomod += "\ngo " + c.Mod.Go + "\n"
		}
		c.Mod.Extra = append(c.Mod.Extra,
			modspec.File{Name: "go.mod", Data: gomod},
			modspec.File{Name: "znested/go.mod", Data: ngomod},
			modspec.File{Name: "znested/pkg/p.go", Data: "package pkg\n\ntype Nested struct{ A int }\n"},
			modspec.File{Name: "znested/pkg/" + c.Base + ".old.go", Data: "package pkg\n\nvar _stale_in_nested = 0\n"})
		first := &c.Mod.Pkgs[0]
		first.Other = append(first.Other, modspec.File{Name: "znesteddep.go", Data: "package " + first.Name + "\n\nimport _ \"" + np + "/pkg\"\n"})
	}
	if !c.Nested && rapid.IntRange(0, 3).Draw(t, "workspace") == 0 {
		c.Workspace = true
		wgomod := "module example.org/worklib\n"
		if c.Mod.Go != "" {
			wgomod += "\ngo " + c.Mod.Go + "\n"
		}
		c.Mod.Extra = append(c.Mod.Extra,
			modspec.File{Name: "go.work", Data: "go 1.24.2\n\nuse (\n\t.\n\t./zwork\n)\n"},
			modspec.File{Name: "zwork/go.mod", Data: wgomod},
			modspec.File{Name: "zwork/lib/l.go", Data: "package lib\n\ntype Work struct{ A int }\n"},
			modspec.File{Name: "zwork/lib/" + c.Base + ".old.go", Data: "package lib\n\nvar _stale_in_workspace_module = 0\n"},
			modspec.File{Name: "zwork/lib/" + c.Base + ".g.go", Data: "package lib\n\nvar _generated_by_the_other_module = 0\n"})
		first := &c.Mod.Pkgs[0]
		first.Other = append(first.Other, modspec.File{Name: "zworkdep.go", Data: "package " + first.Name + "\n\nimport _ \"example.org/worklib/lib\"\n"})
	}
	c.Unhashable = rapid.IntRange(0, 4).Draw(t, "unhashable") == 0
	nruns := rapid.IntRange(1, 3).Draw(t, "nruns")
	for ri := 0; ri < nruns; ri++ {
		var run c7Run
		ng := rapid.IntRange(1, 3).Draw(t, "ngens")
		seen := map[string]bool{}
		for gi := 0; gi < ng; gi++ {
			n := rapid.SampledFrom(c7GenNames).Draw(t, "gname")
			if seen[n] {
				continue
			}
			seen[n] = true
			g := c7Gen{Name: n, Mode: rapid.SampledFrom([]string{"fixed", "new"}).Draw(t, "gmode"),
				Behaviour: rapid.SampledFrom([]string{"render", "render", "nothing", "skip", "ignore", "ignore+output", "wrapignore", "wrapskip", "ignore-first", "ignore-first+skip", "ignore-last", "defer-only"}).Draw(t, "behaviour")}
			run.Gens = append(run.Gens, g)
		}
		ne := rapid.IntRange(1, len(c.Mod.Pkgs)).Draw(t, "nentries")
		perm := rapid.Permutation(c.Mod.Pkgs).Draw(t, "entryorder")
		for i := 0; i < ne; i++ {
			run.Entries = append(run.Entries, perm[i].Dir)
		}
		run.All = rapid.Bool().Draw(t, "all")
		run.Force = rapid.Bool().Draw(t, "force") // with or without All: Force only disables the cache, it selects nothing
		switch rapid.IntRange(0, 5).Draw(t, "cwd") {
		case 0:
			run.Cwd = "zdocs/sub" // a directory of the module that is no package
		case 1:
			run.Cwd = perm[0].Dir // inside a package directory
		}
		c.Runs = append(c.Runs, run)
	}
	return c
}

func (g c7Gen) script(mc *ModCase) *script.Script {
	s := &script.Script{Name: g.Name, Mode: g.Mode}
	// behaviours that differ per type: ErrIgnore for one type of each package, nothing (or ErrSkip) for the others
	if strings.HasPrefix(g.Behaviour, "ignore-first") || g.Behaviour == "ignore-last" {
		s.PerType = map[string]script.Action{}
		if strings.HasSuffix(g.Behaviour, "+skip") {
			s.Default = script.Action{Err: "skip"}
		}
		for i := range mc.Mod.Pkgs {
			p := &mc.Mod.Pkgs[i]
			pkgLevel, _ := p.Types()
			var names []string
			for _, ti := range pkgLevel {
				if !ti.Alias {
					names = append(names, ti.Name)
				}
			}
			sort.Strings(names)
			if len(names) == 0 {
				continue
			}
			pick := names[0]
			if g.Behaviour == "ignore-last" {
				pick = names[len(names)-1]
			}
			s.PerType[mc.Mod.PkgPath(p)+"."+pick] = script.Action{Err: "ignore"}
		}
		return s
	}
	render := []script.Piece{{Kind: "block", Text: "\nvar _$G_$T = $N\n"}}
	switch g.Behaviour {
	case "render":
		s.Default = script.Action{Render: render}
	case "nothing":
		s.Default = script.Action{}
	case "skip":
		s.Default = script.Action{Err: "skip"}
	case "wrapskip":
		s.Default = script.Action{Err: "wrapskip"}
	case "ignore":
		s.Default = script.Action{Err: "ignore"}
	case "wrapignore":
		s.Default = script.Action{Err: "wrapignore"}
	case "ignore+output":
		s.Default = script.Action{Render: render, Err: "ignore"}
	case "defer-only":
		// nothing from GenerateType itself: everything is rendered by a callback registered with Context.Defer
		s.Default = script.Action{Defers: []script.DeferAction{{Render: []script.Piece{{Kind: "block", Text: "\nvar _$G_$T_deferred = 0\n"}}}}}
	}
	return s
}

func oracleC07(c c7Case) error {
	dir := tempModule(&c.Mod)
	defer os.RemoveAll(dir)
	if c.Workspace {
		// workspace mode: the go command finds go.work from the working directory (the harness switches workspaces off otherwise)
		os.Setenv("GOWORK", "")
		defer os.Setenv("GOWORK", "off")
	}
	if c.Unhashable {
		for i := range c.Mod.Pkgs {
			if err := os.Symlink("does-not-exist", filepath.Join(dir, filepath.FromSlash(c.Mod.Pkgs[i].Dir), "dangling")); err != nil {
				panic("harness: symlink: " + err.Error())
			}
		}
	}
	for ri, run := range c.Runs {
		before := mustSnapshot(dir)
		globals := map[string][]string{}
		var scripts []*script.Script
		for _, g := range run.Gens {
			globals["gengo:"+g.Name] = []string{""}
			scripts = append(scripts, g.script(&c.ModCase))
		}
		var entries []string
		for _, e := range run.Entries {
			if run.Cwd != "" {
				entries = append(entries, c.Mod.PkgPath(c.Mod.PkgByDir(e)))
			} else {
				entries = append(entries, entry(e))
			}
		}
		res := script.Run(script.RunSpec{Dir: dir, Cwd: run.Cwd, Entrypoints: entries, All: run.All, Force: run.Force, Globals: globals, Base: c.Base, Scripts: scripts})
		if res.LoadErr != "" {
			panic("harness: synthetic module does not load: " + res.LoadErr)
		}
		if res.Panic != "" {
			return fmt.Errorf("run %d: Execute panics: %s", ri, res.Panic)
		}
		if res.Failed {
			return fmt.Errorf("run %d: Execute failed: %s", ri, res.Err)
		}
		after := mustSnapshot(dir)

		// which packages were selected, and which of them were actually processed (not skipped by the cache)
		var selected []string
		if run.All {
			selected = c.closure(run.Entries)
		} else {
			selected = append(selected, run.Entries...)
		}
		calledPkgs := map[string]bool{}
		for _, call := range res.Calls {
			calledPkgs[call.Pkg] = true
		}
		processed := map[string]bool{} // by dir
		unknown := map[string]bool{}
		for _, d := range selected {
			p := c.Mod.PkgByDir(d)
			pkgLevel, _ := p.Types()
			hasDefined := false
			for _, ti := range pkgLevel {
				if !ti.Alias {
					hasDefined = true
				}
			}
			if run.All && !run.Force && !calledPkgs[c.Mod.PkgPath(p)] {
				if !hasDefined {
					unknown[d] = true // no generator call can reveal whether the cache skipped it
				}
				continue // skipped as cached (decided by C08's model, here only observed)
			}
			processed[d] = true
		}

		// 1. only own files change
		for _, ch := range modspec.Diff(before, after) {
			d, name := modspec.Dir(ch.Path), path.Base(ch.Path)
			if ch.Path == "gengo.sum" {
				if !run.All {
					return fmt.Errorf("run %d (All off): gengo.sum was %s", ri, ch.Kind)
				}
				continue
			}
			if (processed[d] || unknown[d]) && c.Mod.PkgByDir(d) != nil && strings.HasPrefix(name, c.Base+".") {
				continue
			}
			return fmt.Errorf("run %d (entries %v, all=%v): %s was %s, which is not an output file of a processed package (processed dirs %v)", ri, run.Entries, run.All, ch.Path, ch.Kind, keys(processed))
		}
		if run.All {
			if _, ok := after["gengo.sum"]; !ok {
				return fmt.Errorf("run %d (All on): gengo.sum does not exist after a successful run", ri)
			}
		}

		// 2. per processed package and generator: file exists iff it rendered; ErrIgnore with nothing rendered keeps the previous file
		inRun := map[string]bool{}
		for _, g := range run.Gens {
			inRun[g.Name] = true
		}
		for d := range processed {
			p := c.Mod.PkgByDir(d)
			pp := c.Mod.PkgPath(p)
			for _, g := range run.Gens {
				fn := path.Join(d, fmt.Sprintf("%s.%s.go", c.Base, g.Name))
				rendered, ignored := "", false
				for _, call := range res.Calls {
					if call.Gen == g.Name && call.Pkg == pp && call.Kind != "new" {
						rendered += call.Rendered
						if call.Err == "ignore" || call.Err == "wrapignore" {
							ignored = true
						}
					}
				}
				got, exists := after[fn]
				switch {
				case rendered != "":
					if !exists {
						return fmt.Errorf("run %d: generator %s rendered %q for %s but %s does not exist", ri, g.Name, rendered, pp, fn)
					}
					if err := checkGenerated(fn, got, g.Name, p.Name, res.Calls, pp); err != nil {
						return fmt.Errorf("run %d: %w", ri, err)
					}
				case ignored:
					old, had := before[fn]
					if had != exists || old != got {
						return fmt.Errorf("run %d: generator %s signalled ErrIgnore and rendered nothing for %s, but its previous file %s was not kept (existed before=%v, after=%v, same bytes=%v)", ri, g.Name, pp, fn, had, exists, old == got)
					}
				default:
					if exists {
						return fmt.Errorf("run %d: generator %s (%s) rendered nothing for %s but %s exists afterwards", ri, g.Name, g.Behaviour, pp, fn)
					}
				}
			}
			// stale Go outputs of generators that are not part of this run are removed
			for f := range after {
				if modspec.Dir(f) != d {
					continue
				}
				name := path.Base(f)
				if !strings.HasPrefix(name, c.Base+".") || !strings.HasSuffix(name, ".go") {
					continue
				}
				gname := strings.TrimSuffix(strings.TrimPrefix(name, c.Base+"."), ".go")
				if !inRun[gname] {
					return fmt.Errorf("run %d: stale output %s of a generator that is not part of the run still exists in processed package %s", ri, f, pp)
				}
			}
		}
	}
	return nil
}

// checkGenerated verifies that a written file is Go for the right package, names its generator and holds every rendered declaration.
func checkGenerated(fn, src, gen, pkgName string, calls []script.Call, pkgPath string) error {
	fset := token.NewFileSet()
	f, err := parser.ParseFile(fset, fn, src, parser.ParseComments)
	if err != nil {
		return fmt.Errorf("%s does not parse: %v", fn, err)
	}
	if f.Name.Name != pkgName {
		return fmt.Errorf("%s declares package %s, want %s", fn, f.Name.Name, pkgName)
	}
	if !strings.Contains(src, "gengo:"+gen) {
		return fmt.Errorf("%s does not name its generator %q", fn, gen)
	}
	// nothing but the rendered declarations (no leftovers of a previous output)
	renderedAll := ""
	for _, call := range calls {
		if call.Gen == gen && call.Pkg == pkgPath {
			renderedAll += call.Rendered
		}
	}
	for _, d := range f.Decls {
		if gd, ok := d.(*ast.GenDecl); ok && gd.Tok == token.VAR {
			for _, sp := range gd.Specs {
				for _, n := range sp.(*ast.ValueSpec).Names {
					if !strings.Contains(renderedAll, "var "+n.Name+" ") {
						return fmt.Errorf("%s declares %s, which the generator did not render in this run (leftover of a previous output?)", fn, n.Name)
					}
				}
			}
		}
	}
	if strings.Contains(src, "previous, much longer output") {
		return fmt.Errorf("%s still holds text of the previous output", fn)
	}
	for _, call := range calls {
		if call.Gen != gen || call.Pkg != pkgPath || call.Rendered == "" {
			continue
		}
		for _, line := range strings.Split(call.Rendered, "\n") {
			line = strings.TrimSpace(line)
			if strings.HasPrefix(line, "var ") {
				name := strings.Fields(line)[1]
				if f.Scope == nil || f.Scope.Lookup(name) == nil {
					if !strings.Contains(src, "var "+name+" ") {
						return fmt.Errorf("%s lacks the rendered declaration %q", fn, line)
					}
				}
			}
		}
	}
	return nil
}

func keys(m map[string]bool) []string {
	out := make([]string, 0, len(m))
	for k := range m {
		out = append(out, k)
	}
	sort.Strings(out)
	return out
}

func c7Features(c c7Case) []string {
	fs := map[string]bool{}
	for _, p := range c.Mod.Pkgs {
		for _, o := range p.Other {
			switch {
			case strings.HasPrefix(o.Name, c.Base+".") && strings.HasSuffix(o.Name, ".go"):
				fs["previous-or-stale-output"] = true
			case strings.Contains(o.Name, c.Base):
				fs["look-alike"] = true
			default:
				fs["user-file"] = true
			}
		}
	}
	for _, run := range c.Runs {
		for _, g := range run.Gens {
			if g.Behaviour != "render" && g.Behaviour != "ignore+output" && g.Behaviour != "defer-only" {
				fs["generator-renders-nothing"] = true
			}
			if g.Behaviour == "defer-only" {
				fs["renders-only-from-defer"] = true
			}
			if c.Nested {
				fs["nested-module-below-the-module-path"] = true
			}
			if c.Workspace {
				fs["second-module-of-a-go.work-workspace"] = true
			}
			if c.Unhashable {
				fs["unhashable-package-directories"] = true
			}
			if run.Cwd != "" {
				fs["started-outside-the-module-root"] = true
			}
			if strings.Contains(g.Behaviour, "ignore") {
				fs["errignore"] = true
			}
		}
		if run.All {
			fs["all"] = true
		} else {
			fs["not-all"] = true
		}
		if len(run.Entries) < len(c.Mod.Pkgs) {
			fs["unselected-packages"] = true
		}
	}
	if len(c.Runs) > 1 {
		fs["multi-run-history"] = true
	}
	return keys(fs)
}

func c7NonTrivial(c c7Case) bool {
	fs := map[string]bool{}
	for _, f := range c7Features(c) {
		fs[f] = true
	}
	return (fs["previous-or-stale-output"] || fs["look-alike"]) && fs["generator-renders-nothing"]
}

func TestC07(t *testing.T) {
	r := ev.Begin(t, ev.Meta{
		ID:    "C07",
		Level: "exploration",
		Rule: "synthetic modules of 2-4 packages with pre-existing user files, nested non-package directories, look-alike names (<base>x.go, <base>_y.go, " +
			"a<base>.q.go, <base>, <base>.notes.txt), stale outputs of generators that are not run, previous outputs of generators that are, README and an " +
			"old gengo.sum; histories of 1-3 runs, each with 1-3 generators behaving as render / nothing / ErrSkip / ErrIgnore / ErrIgnore+output (also wrapped), " +
			"a subset of entrypoints, All and Force on/off; oracle: byte snapshot of the whole tree before/after each run; non-trivial = a stale or look-alike " +
			"file is present AND some generator renders nothing; outputfault sub: a child run whose output cannot be put in place (RLIMIT_FSIZE of 1-4096 bytes, or a directory under the output name) may fail but leaves nothing except <base>.* files and gengo.sum; distinct by JSON encoding",
		Assumptions: []string{
			"with All and without Force a selected package for which no generator was invoked is taken to be skipped by the cache (the cache decision itself is C08)",
			"only stale <base>.*.go files are required to be removed; other <base>.* files may be kept or removed",
		},
	})
	defer r.Finish()
	ev.Search(r, ev.Sub[c7Case]{
		Name: "tree", Gen: genC07, Oracle: oracleC07, NonTrivial: c7NonTrivial, Classes: c7Features,
		Budget: ev.Budget{Quick: 150, Thorough: 2500}, MinNonTrivial: 0.2,
	})
	// whatever happens while the output is put in place (write fails part way, the name is taken by a directory), nothing but
	// <base>.* files and gengo.sum is created
	ev.Search(r, ev.Sub[c7Fault]{
		Name: "outputfault", Gen: genC07Fault, Oracle: oracleC07Fault,
		NonTrivial: func(c c7Fault) bool { return c.DirInTheWay || c.Limit < 4096 },
		Classes: func(c c7Fault) []string {
			if c.DirInTheWay {
				return []string{"output-name-is-a-directory"}
			}
			return []string{fmt.Sprintf("limit-%d", c.Limit)}
		},
		Budget: ev.Budget{Quick: 6, Thorough: 60},
	})
}

type c7Fault struct {
	c1Fault
	DirInTheWay bool `json:"dirintheway,omitempty"` // <base>.g.go is a (non-empty) directory
}

func genC07Fault(t *rapid.T) c7Fault {
	c := c7Fault{c1Fault: genC01Fault(t)}
	if rapid.IntRange(0, 2).Draw(t, "dirintheway") == 0 {
		c.DirInTheWay, c.Prev, c.Limit = true, false, 0
	}
	return c
}

func oracleC07Fault(c c7Fault) error {
	m := modspec.Mod{Path: "example.com/wf", Go: "1.21"}
	p := modspec.Pkg{Dir: "a", Name: "a"}
	f := modspec.GoFile{Name: "types.go"}
	for j := 0; j < c.NTypes; j++ {
		f.Decls = append(f.Decls, modspec.Decl{Kind: "struct", Name: fmt.Sprintf("T%d", j), Fields: []modspec.Field{{Names: []string{"A"}, Type: "int"}}})
	}
	p.Files = append(p.Files, f)
	if c.Prev {
		p.Other = append(p.Other, modspec.File{Name: "zz_generated.g.go", Data: "package a\n\nvar _previous_g = 0\n"})
	}
	m.Pkgs = append(m.Pkgs, p)
	dir := tempModule(&m)
	defer os.RemoveAll(dir)
	if c.DirInTheWay {
		if err := os.MkdirAll(filepath.Join(dir, "a", "zz_generated.g.go"), 0o755); err != nil {
			panic("harness: " + err.Error())
		}
		if err := os.WriteFile(filepath.Join(dir, "a", "zz_generated.g.go", "keep.txt"), []byte("x"), 0o644); err != nil {
			panic("harness: " + err.Error())
		}
	}
	before := mustSnapshot(dir)
	text := ""
	for d := 0; d < c.NDecls; d++ {
		text += fmt.Sprintf("\nvar _$G_$T_%d = \"declaration number %d of this type\"\n", d, d)
	}
	sc := &script.Script{Name: "g", Mode: "fixed", Default: script.Action{Render: []script.Piece{{Kind: "block", Text: text}}}}
	res, exit, stderr := script.RunChild(script.RunSpec{Dir: dir, Entrypoints: []string{"./a"}, Globals: map[string][]string{"gengo:g": {""}}, Base: "zz_generated",
		Scripts: []*script.Script{sc}, FileSizeLimit: c.Limit}, os.TempDir())
	if exit != 0 {
		panic(fmt.Sprintf("harness: child run exited %d: %s", exit, clip(stderr, 800)))
	}
	if res.LoadErr != "" {
		panic("harness: synthetic module does not load: " + res.LoadErr)
	}
	if res.Panic != "" {
		return fmt.Errorf("Execute panics when its output cannot be put in place: %s", res.Panic)
	}
	for _, ch := range modspec.Diff(before, mustSnapshot(dir)) {
		base := path.Base(ch.Path)
		if strings.HasPrefix(base, "zz_generated.") || ch.Path == "gengo.sum" || strings.HasPrefix(ch.Path, "a/zz_generated.g.go/") {
			continue
		}
		return fmt.Errorf("a run whose output could not be put in place (failed=%v, %s) left %s %s behind: not a zz_generated.* file nor gengo.sum", res.Failed, res.Err, ch.Kind, ch.Path)
	}
	return nil
}
