package pipe

import (
	"bytes"
	"fmt"
	"go/format"
	"go/parser"
	"go/scanner"
	"go/token"
	"os"
	"os/exec"
	"path/filepath"
	"regexp"
	"sort"
	"strings"
	"testing"

	gofumpt "mvdan.cc/gofumpt/format"
	"pgregory.net/rapid"

	"vt/internal/ev"
	"vt/internal/modspec"
	"vt/internal/script"
)

// ---- C01: every file gengo writes is valid, canonically formatted Go for its package ----

type c1Gen struct {
	Name string `json:"name"`
	Mode string `json:"mode"`
	// Pieces per "<pkgpath>.<Type>": what the generator renders for that type
	Pieces map[string][]script.Piece `json:"pieces"`
	// DeferPiece is rendered from a Defer callback registered by the first type (may be empty)
	DeferPiece string `json:"deferpiece,omitempty"`
	// IgnoreType: key of a type for which GenerateType returns an error wrapping ErrIgnore AFTER rendering its pieces; what
	// the generator rendered (for this and for the other types) is in the file all the same
	IgnoreType string `json:"ignoretype,omitempty"`
	// SkipType: key of another type for which GenerateType returns ErrSkip (SkipErr: skip | wrapskip) AFTER rendering its pieces:
	// complete declarations that were rendered are in the file
	// (see c1Case.FailFirst for runs that fail first)
	SkipType string `json:"skiptype,omitempty"`
	SkipErr  string `json:"skiperr,omitempty"`
}

type c1Case struct {
	// FailFirst: a first Execute fails (the first generator returns an error for its last type, after everything was rendered);
	// the files are judged after a second Execute on the SAME executor with the generators as specified
	FailFirst bool        `json:"failfirst,omitempty"`
	Mod       modspec.Mod `json:"mod"`
	// Sib: a second module (required through a replace directive) whose package is generated in the same run; it has its own go
	// directive and module path
	Sib      *modspec.Mod `json:"sib,omitempty"`
	Gens     []c1Gen      `json:"gens"`
	Features []string     `json:"features"`
}

var c1RefPool = []string{
	"fmt.Stringer", "encoding/json.Decoder", "text/template.Template", "html/template.Template", "github.com/foo/bar.T", "github.com/foo/bar/v2.T",
	"example.com/x/apis/foo/v1.Spec", "gopkg.in/yaml.v3.Node", "k8s.io/api/core/v1.Pod", "k8s.io/api/apps/v1.Deployment", "os.File", "io/fs.FS", "example.com/go.Type",
	"example.com/2fa.Code", "sort.Interface", "net/http.Handler", "math/rand.Rand", "crypto/rand.Reader",
}

var c1KnownMLBlock = false

func genC01(t *rapid.T) c1Case {
	c := c1Case{}
	c.Mod.Path = rapid.SampledFrom(modPaths).Draw(t, "modpath")
	c.Mod.Go = rapid.SampledFrom(append([]string{"", "1.13", "1.16"}, goDirectives...)).Draw(t, "go")
	np := rapid.IntRange(1, 2).Draw(t, "npkgs")
	dirs := []struct{ dir, name string }{{"a", "alpha"}, {"b/c", "main"}, {"", "root"}, {"x-y", "xy"}}
	feats := map[string]bool{}
	type tkey struct{ pkg, typ string }
	var types []tkey
	start := rapid.IntRange(0, len(dirs)-1).Draw(t, "dirstart")
	for i := 0; i < np; i++ {
		d := dirs[(start+i)%len(dirs)]
		p := modspec.Pkg{Dir: d.dir, Name: d.name}
		f := modspec.GoFile{Name: "types.go"}
		nt := rapid.IntRange(1, 3).Draw(t, "ntypes")
		for j := 0; j < nt; j++ {
			n := fmt.Sprintf("T%d", j)
			f.Decls = append(f.Decls, modspec.Decl{Kind: "struct", Name: n, Fields: []modspec.Field{{Names: []string{"A"}, Type: "int"}}})
			types = append(types, tkey{c.Mod.PkgPath(&p), n})
		}
		if rapid.IntRange(0, 3).Draw(t, "buildconstraint") == 0 {
			// every hand-written file of the package carries the same build constraint (satisfied here)
			f.Build = rapid.SampledFrom([]string{"!vtnever", "linux || !vtnever", "go1.18"}).Draw(t, "buildexpr")
			feats["package-under-a-build-constraint"] = true
		}
		p.Files = append(p.Files, f)
		c.Mod.Pkgs = append(c.Mod.Pkgs, p)
	}
	if rapid.IntRange(0, 3).Draw(t, "sibling") == 0 {
		// the main module must not declare an older go version than the module it requires (the go command would want to edit go.mod)
		c.Mod.Go = rapid.SampledFrom([]string{"1.21", "1.22", "1.24", "1.24.2"}).Draw(t, "maingo")
		sib := modspec.Mod{Path: rapid.SampledFrom([]string{"corp/two", "acme.dev/one", "sib", "example.org/x/sib"}).Draw(t, "sibpath"),
			Go: rapid.SampledFrom([]string{"1.12", "1.16", "1.21"}).Draw(t, "sibgo")}
		p := modspec.Pkg{Dir: "pkg", Name: "sibpkg"}
		f := modspec.GoFile{Name: "types.go"}
		for j := 0; j < rapid.IntRange(1, 2).Draw(t, "nsibtypes"); j++ {
			n := fmt.Sprintf("S%d", j)
			f.Decls = append(f.Decls, modspec.Decl{Kind: "struct", Name: n, Fields: []modspec.Field{{Names: []string{"A"}, Type: "int"}}})
			types = append(types, tkey{sib.Path + "/pkg", n})
		}
		p.Files = append(p.Files, f)
		sib.Pkgs = append(sib.Pkgs, p)
		c.Sib = &sib
		feats["second-module-in-the-same-run"] = true
	}
	names := rapid.SampledFrom([][]string{{"g"}, {"deep", "deepcopy"}, {"gen", "g"}, {"a", "ab", "x1"}, {"doc"}}).Draw(t, "gennames")
	// previous outputs of the same generators, much longer than anything rendered now (the new file must replace them entirely)
	for pi := range c.Mod.Pkgs {
		for _, n := range names {
			if rapid.IntRange(0, 3).Draw(t, "staleout") == 0 {
				var sb strings.Builder
				fmt.Fprintf(&sb, "package %s\n\n", c.Mod.Pkgs[pi].Name)
				for l := 0; l < 400; l++ {
					fmt.Fprintf(&sb, "// line %d of a previous, much longer output\n", l)
				}
				fmt.Fprintf(&sb, "var _previous_%s = 0\n", n)
				c.Mod.Pkgs[pi].Other = append(c.Mod.Pkgs[pi].Other, modspec.File{Name: "zz_generated." + n + ".go", Data: sb.String()})
				feats["previous-longer-output"] = true
			}
		}
	}
	for gi, n := range names {
		g := c1Gen{Name: n, Mode: rapid.SampledFrom([]string{"fixed", "new"}).Draw(t, "mode"), Pieces: map[string][]script.Piece{}}
		plain := rapid.IntRange(0, 2).Draw(t, "nocomments") == 0 // this generator renders no comment at all
		if plain {
			feats["comment-free-file"] = true
		}
		for ti, tk := range types {
			gr := &gg{t: t, uniq: fmt.Sprintf("%s%d%d", strings.ToUpper(n[:1])+n[1:], gi, ti), mlBlock: !c1KnownMLBlock, plain: plain, features: feats}
			var pieces []script.Piece
			k := rapid.IntRange(0, 4).Draw(t, "ndecls")
			if rapid.IntRange(0, 11).Draw(t, "big") == 0 {
				k = rapid.IntRange(15, 40).Draw(t, "nbig")
				feats["large-body"] = true
			}
			for di := 0; di < k; di++ {
				text := gr.decls(tk.typ, 1)
				if rapid.IntRange(0, 3).Draw(t, "withref") == 0 {
					// a declaration that references foreign packages through the naming system
					nrefs := rapid.IntRange(1, 3).Draw(t, "nrefs")
					var refs []string
					body := " \n\n" // snippet.T drops leading newlines of a format; keep a blank line so that gofumpt does not join this var with a preceding lone var
					for ri := 0; ri < nrefs; ri++ {
						ref := rapid.SampledFrom(c1RefPool).Draw(t, "ref")
						if rapid.IntRange(0, 3).Draw(t, "modlocal") == 0 {
							// a package of the module itself: gofumpt groups it apart from std only when it knows the module path
							ref = c.Mod.Path + "/" + rapid.SampledFrom([]string{"internal/util.Helper", "pkg/api.Spec", "types.T"}).Draw(t, "modref")
							feats["module-local-import"] = true
						}
						refs = append(refs, ref)
						body += fmt.Sprintf("var %s @R%d\n\n", gr.name("ref"), ri)
					}
					feats["import"] = true
					pieces = append(pieces, script.Piece{Kind: "t", Text: body, Refs: refs})
				}
				// a generator may render one declaration with several Render calls: cut the text at arbitrary places (inside
				// literals, comments, between operands); the file must be the same as for the text rendered at once
				ncuts := rapid.SampledFrom([]int{0, 0, 1, 2, 3}).Draw(t, "ncuts")
				rs := []rune(text)
				var cuts []int
				for ci := 0; ci < ncuts && len(rs) > 2; ci++ {
					cuts = append(cuts, rapid.IntRange(1, len(rs)-1).Draw(t, "cut"))
				}
				sort.Ints(cuts)
				prev := 0
				var parts []string
				for _, cu := range cuts {
					if cu > prev {
						parts = append(parts, string(rs[prev:cu]))
						prev = cu
					}
				}
				parts = append(parts, string(rs[prev:]))
				if rapid.IntRange(0, 5).Draw(t, "huge") == 0 {
					// a single very large fragment (buffer sizes of the writer) after the smaller ones
					var hb strings.Builder
					fmt.Fprintf(&hb, "\nvar _huge%s = []string{\n", gr.name("h"))
					n := rapid.SampledFrom([]int{60, 64, 65, 80, 200, 400}).Draw(t, "hugelines")
					for l := 0; l < n; l++ {
						fmt.Fprintf(&hb, "\t\"line %04d of a large table: 0123456789 0123456789 0123456789 01234\",\n", l)
					}
					hb.WriteString("}\n")
					parts = append(parts, hb.String())
					feats["fragment-over-4096-bytes"] = true
				}
				if len(parts) > 1 && rapid.Bool().Draw(t, "onerender") {
					// one Render call whose snippet yields the parts as separate fragments
					pieces = append(pieces, script.Piece{Kind: "multi", Parts: parts})
					feats["one-render-several-fragments"] = true
				} else {
					for _, pt := range parts {
						pieces = append(pieces, script.Piece{Kind: "block", Text: pt})
					}
					if len(parts) > 1 {
						feats["declaration-in-several-renders"] = true
					}
				}
			}
			// an import declaration of the generator's own (blank import for side effects) in front of everything it renders for
			// the package
			if (tk.typ == "T0" || tk.typ == "S0") && rapid.IntRange(0, 7).Draw(t, "ownimport") == 0 {
				pieces = append([]script.Piece{{Kind: "block", Text: "\nimport _ \"" + rapid.SampledFrom([]string{"embed", "unsafe", "net/http/pprof", "example.com/sidefx/register"}).Draw(t, "ownimportpath") + "\"\n"}}, pieces...)
				feats["import-declaration-rendered-by-the-generator"] = true
			}
			g.Pieces[tk.pkg+"."+tk.typ] = pieces
		}
		if len(types) >= 2 && rapid.IntRange(0, 4).Draw(t, "ignoretype") == 0 {
			tk := types[rapid.IntRange(0, len(types)-1).Draw(t, "ignoredtype")]
			g.IgnoreType = tk.pkg + "." + tk.typ
			feats["errignore-after-rendering"] = true
		}
		if len(types) >= 2 && rapid.IntRange(0, 4).Draw(t, "skiptype") == 0 {
			tk := types[rapid.IntRange(0, len(types)-1).Draw(t, "skippedtype")]
			if tk.pkg+"."+tk.typ != g.IgnoreType {
				g.SkipType = tk.pkg + "." + tk.typ
				g.SkipErr = rapid.SampledFrom([]string{"skip", "wrapskip"}).Draw(t, "skiperr")
				feats["errskip-after-rendering"] = true
			}
		}
		if rapid.IntRange(0, 5).Draw(t, "blankpkg") == 0 {
			// for one package the generator renders nothing but white space, and a previous output of it exists there: the file
			// must hold what was rendered in this run (no declarations), not what an earlier run left
			pi := rapid.IntRange(0, len(c.Mod.Pkgs)-1).Draw(t, "blankpkgidx")
			pp := c.Mod.PkgPath(&c.Mod.Pkgs[pi])
			var keys []string
			for k := range g.Pieces {
				if strings.HasPrefix(k, pp+".") && !strings.ContainsAny(k[len(pp)+1:], "/.") {
					keys = append(keys, k)
				}
			}
			sort.Strings(keys)
			touched := false
			for _, k := range keys {
				touched = touched || k == g.IgnoreType || k == g.SkipType
			}
			if len(keys) > 0 && !touched {
				for i, k := range keys {
					if i == 0 {
						g.Pieces[k] = []script.Piece{{Kind: "block", Text: "\n\n \t\n"}}
					} else {
						g.Pieces[k] = nil
					}
				}
				has := false
				for _, o := range c.Mod.Pkgs[pi].Other {
					has = has || o.Name == "zz_generated."+g.Name+".go"
				}
				if !has {
					c.Mod.Pkgs[pi].Other = append(c.Mod.Pkgs[pi].Other, modspec.File{Name: "zz_generated." + g.Name + ".go",
						Data: fmt.Sprintf("package %s\n\nvar _previous_%s = 0\n", c.Mod.Pkgs[pi].Name, g.Name)})
				}
				feats["white-space-only-rendering-over-a-previous-output"] = true
			}
		}
		if rapid.IntRange(0, 3).Draw(t, "defer") == 0 {
			gr := &gg{t: t, uniq: fmt.Sprintf("D%d", gi), mlBlock: !c1KnownMLBlock, plain: plain, features: feats}
			g.DeferPiece = gr.decls("T0", 1)
			feats["defer-rendered"] = true
		}
		c.Gens = append(c.Gens, g)
	}
	if rapid.IntRange(0, 5).Draw(t, "failfirst") == 0 {
		c.FailFirst = true
		feats["failed-execute-then-a-second-one-on-the-same-executor"] = true
	}
	for f := range feats {
		c.Features = append(c.Features, f)
	}
	sort.Strings(c.Features)
	return c
}

func (c *c1Case) scripts() []*script.Script {
	var out []*script.Script
	for _, g := range c.Gens {
		s := &script.Script{Name: g.Name, Mode: g.Mode, PerType: map[string]script.Action{}}
		first := true
		keys := make([]string, 0, len(g.Pieces))
		for k := range g.Pieces {
			keys = append(keys, k)
		}
		sort.Strings(keys)
		for _, k := range keys {
			a := script.Action{Render: g.Pieces[k]}
			if g.DeferPiece != "" && first {
				a.Defers = []script.DeferAction{{Render: []script.Piece{{Kind: "block", Text: g.DeferPiece}}}}
			}
			first = false
			if k == g.IgnoreType {
				a.Err = "wrapignore"
			}
			if k == g.SkipType {
				a.Err = g.SkipErr
			}
			s.PerType[k] = a
		}
		out = append(out, s)
	}
	return out
}

type tok struct {
	t   token.Token
	lit string
}

// scanTokens returns the code tokens (without semicolons) and the concatenated non-blank comment characters of src from offset on.
func scanTokens(src []byte) (toks []tok, comments string, err error) {
	fset := token.NewFileSet()
	f := fset.AddFile("", fset.Base(), len(src))
	var s scanner.Scanner
	var errs []string
	s.Init(f, src, func(pos token.Position, msg string) { errs = append(errs, fmt.Sprintf("%v: %s", pos, msg)) }, scanner.ScanComments)
	var cb strings.Builder
	for {
		_, t, lit := s.Scan()
		if t == token.EOF {
			break
		}
		switch t {
		case token.SEMICOLON:
			continue
		case token.COMMENT:
			for _, l := range strings.Split(lit, "\n") {
				if n := normComment(l); n != "" {
					cb.WriteString(n + "\n")
				}
			}
			continue
		}
		if !t.IsLiteral() && t != token.IDENT {
			lit = ""
		}
		if t == token.INT && legacyOctal.MatchString(lit) {
			lit = "0o" + lit[1:] // gofumpt spells legacy octal literals with the 0o prefix (go >= 1.13): same value
		}
		toks = append(toks, tok{t, lit})
	}
	if len(errs) > 0 {
		return nil, "", fmt.Errorf("%s", strings.Join(errs, "; "))
	}
	return toks, cb.String(), nil
}

var directiveLine = regexp.MustCompile(`^(go:|nolint|line |export |[a-z0-9]+:[a-z0-9])`)

// sameCommentsUpToDirectiveOrder: gofmt treats an unindented comment group that abuts the next token as a doc comment and
// moves its directive lines (//go:..., //nolint:...) behind the text lines. That is formatting, so when directive-like lines
// are present the comment lines are compared as a multiset instead of as a sequence.
func sameCommentsUpToDirectiveOrder(got, want string) bool {
	gl, wl := strings.Split(got, "\n"), strings.Split(want, "\n")
	hasDirective := false
	for _, l := range wl {
		if directiveLine.MatchString(l) {
			hasDirective = true
		}
	}
	if !hasDirective || len(gl) != len(wl) {
		return false
	}
	sort.Strings(gl)
	sort.Strings(wl)
	for i := range gl {
		if gl[i] != wl[i] {
			return false
		}
	}
	return true
}

func normComment(c string) string {
	c = strings.NewReplacer("//", "", "/*", "", "*/", "").Replace(c)
	return strings.Map(func(r rune) rune {
		// only the blanks go/printer moves; U+3000, U+00A0 and the like are content
		if r == ' ' || r == '\t' || r == '\n' || r == '\r' {
			return -1
		}
		return r
	}, c)
}

// bodyOffset returns the offset of the first byte after the package clause and the import declaration of a parsed file.
// The last renderedImportDecls import declarations were rendered by the generator itself and belong to the body.
func bodyOffset(src []byte, renderedImportDecls int) (int, string, []string, error) {
	fset := token.NewFileSet()
	f, err := parser.ParseFile(fset, "gen.go", src, parser.ParseComments|parser.AllErrors|parser.ImportsOnly)
	if err != nil {
		return 0, "", nil, err
	}
	end := f.Name.End()
	var imports []string
	for i, d := range f.Decls {
		if i >= len(f.Decls)-renderedImportDecls {
			break
		}
		if d.End() > end {
			end = d.End()
		}
	}
	for _, im := range f.Imports {
		imports = append(imports, im.Path.Value)
	}
	return fset.Position(end).Offset, f.Name.Name, imports, nil
}

type c1Loc struct {
	pkg     *modspec.Pkg
	path    string // import path
	dir     string // directory on disk
	goVer   string
	modPath string
}

func oracleC01(c c1Case) error {
	var dir string
	var locs []c1Loc
	var entries []string
	if c.Sib == nil {
		dir = tempModule(&c.Mod)
		defer os.RemoveAll(dir)
	} else {
		root, err := os.MkdirTemp("", "vtmods")
		if err != nil {
			panic("harness: " + err.Error())
		}
		if real, err := filepath.EvalSymlinks(root); err == nil {
			root = real
		}
		defer os.RemoveAll(root)
		dir = filepath.Join(root, "main")
		sibDir := filepath.Join(root, "sib")
		main := c.Mod
		gomod := "module " + main.Path + "\n"
		if main.Go != "" {
			gomod += "\ngo " + main.Go + "\n"
		}
		gomod += "\nrequire " + c.Sib.Path + " v0.0.0\n\nreplace " + c.Sib.Path + " => ../sib\n"
		main.Extra = append(append([]modspec.File{}, main.Extra...), modspec.File{Name: "go.mod", Data: gomod})
		for _, d := range []string{dir, sibDir} {
			if err := os.MkdirAll(d, 0o755); err != nil {
				panic("harness: " + err.Error())
			}
		}
		if err := main.Write(dir); err != nil {
			panic("harness: " + err.Error())
		}
		if err := c.Sib.Write(sibDir); err != nil {
			panic("harness: " + err.Error())
		}
		for i := range c.Sib.Pkgs {
			p := &c.Sib.Pkgs[i]
			locs = append(locs, c1Loc{p, c.Sib.PkgPath(p), filepath.Join(sibDir, filepath.FromSlash(p.Dir)), c.Sib.Go, c.Sib.Path})
			entries = append(entries, c.Sib.PkgPath(p))
		}
	}
	globals := map[string][]string{}
	for _, g := range c.Gens {
		globals["gengo:"+g.Name] = []string{""}
	}
	for i := range c.Mod.Pkgs {
		p := &c.Mod.Pkgs[i]
		entries = append(entries, entry(p.Dir))
		locs = append(locs, c1Loc{p, c.Mod.PkgPath(p), filepath.Join(dir, filepath.FromSlash(p.Dir)), c.Mod.Go, c.Mod.Path})
	}
	spec := script.RunSpec{Dir: dir, Entrypoints: entries, Globals: globals, Base: "zz_generated", Scripts: c.scripts()}
	if c.FailFirst {
		failing := c.scripts()
		var keys []string
		for k := range failing[0].PerType {
			keys = append(keys, k)
		}
		sort.Strings(keys)
		if len(keys) > 0 {
			a := failing[0].PerType[keys[len(keys)-1]]
			a.Err = "error"
			failing[0].PerType[keys[len(keys)-1]] = a
			spec.Scripts, spec.Retry = failing, c.scripts()
		}
	}
	res := script.Run(spec)
	if res.LoadErr != "" {
		panic("harness: synthetic module does not load: " + res.LoadErr)
	}
	if res.Panic != "" {
		return fmt.Errorf("Execute panics: %s", res.Panic)
	}
	if len(spec.Retry) > 0 {
		if !res.Failed || !res.Retried {
			return fmt.Errorf("the first Execute was to fail (generator %s returns an error for its last type) but returned nil", c.Gens[0].Name)
		}
		// from here on the second Execute on the same executor is the run that is judged
		res.Calls = res.Calls[res.RetryFrom:]
		res.Failed, res.Err = res.RetryFailed, res.RetryErr
	}
	// harness self-check: what was rendered must be parseable Go (otherwise the grammar is wrong, not gengo)
	rendered := map[[2]string]string{} // (gen, pkgpath) -> bytes in rendering order
	for _, call := range res.Calls {
		if call.Kind == "new" {
			continue
		}
		rendered[[2]string{call.Gen, call.Pkg}] += call.Rendered
	}
	for k, text := range rendered {
		if strings.TrimSpace(text) == "" {
			continue
		}
		if _, err := parser.ParseFile(token.NewFileSet(), "rendered.go", "package p\n"+text, parser.AllErrors); err != nil {
			panic(fmt.Sprintf("harness: grammar produced text that does not parse for %v: %v\n%s", k, err, text))
		}
	}
	if res.Failed {
		// the statement only covers runs that return nil; a failure on parseable rendering is reported, it is not what C01 states
		return fmt.Errorf("Execute failed although every generator rendered parseable declarations: %s", res.Err)
	}
	for _, loc := range locs {
		p, pp := loc.pkg, loc.path
		for _, g := range c.Gens {
			text := rendered[[2]string{g.Name, pp}]
			fn := filepath.Join(loc.dir, "zz_generated."+g.Name+".go")
			src, err := os.ReadFile(fn)
			if text == "" {
				if err == nil && !strings.HasPrefix(g.IgnoreType, pp+".") {
					// (a generator that signalled ErrIgnore for a type of this package and rendered nothing keeps its previous file: C07)
					return fmt.Errorf("%s exists although generator %s rendered nothing", fn, g.Name)
				}
				continue
			}
			if err != nil {
				return fmt.Errorf("generator %s rendered %d bytes for %s but its file is missing: %v", g.Name, len(text), pp, err)
			}
			if err := checkCanonical(src, g.Name, p.Name, text, loc.goVer, loc.modPath); err != nil {
				return fmt.Errorf("%s/zz_generated.%s.go: %w\n--- file ---\n%s", p.Dir, g.Name, err, clip(string(src), 2500))
			}
		}
	}
	return nil
}

func clip(s string, n int) string {
	if len(s) > n {
		return s[:n] + "\n...(clipped)"
	}
	return s
}

var wordRe = regexp.MustCompile(`[A-Za-z0-9_]`)
var legacyOctal = regexp.MustCompile(`^0[0-7_]+$`)

func checkCanonical(src []byte, gen, pkgName, rendered, goVersion, modPath string) error {
	// (1) parses
	fset := token.NewFileSet()
	f, err := parser.ParseFile(fset, "gen.go", src, parser.ParseComments|parser.AllErrors)
	if err != nil {
		return fmt.Errorf("does not parse: %v", err)
	}
	// (2) opens with a comment naming the generator
	if len(f.Comments) == 0 || f.Comments[0].Pos() != 1 {
		return fmt.Errorf("does not open with a comment")
	}
	head := f.Comments[0].Text()
	needle := "gengo:" + gen
	named := false
	for i := 0; ; {
		j := strings.Index(head[i:], needle)
		if j < 0 {
			break
		}
		e := i + j + len(needle)
		if e >= len(head) || !wordRe.MatchString(head[e:e+1]) {
			named = true
			break
		}
		i = e
	}
	if !named {
		return fmt.Errorf("opening comment %q does not name generator %q", head, gen)
	}
	// (3) package name
	if f.Name.Name != pkgName {
		return fmt.Errorf("declares package %q, want %q", f.Name.Name, pkgName)
	}
	// (4) same tokens, same order, same comments (skipped when the rendered bytes are not known: real generators)
	if rendered == "" {
		return checkFixedPoints(src, goVersion, modPath)
	}
	ownImports := 0
	if rf, err := parser.ParseFile(token.NewFileSet(), "rendered.go", "package p\n"+rendered, parser.ImportsOnly); err == nil {
		ownImports = len(rf.Decls)
	}
	off, _, _, err := bodyOffset(src, ownImports)
	if err != nil {
		return fmt.Errorf("cannot locate the body: %v", err)
	}
	gotToks, gotCmt, err := scanTokens(src[off:])
	if err != nil {
		return fmt.Errorf("cannot scan the body: %v", err)
	}
	wantToks, wantCmt, err := scanTokens([]byte(rendered))
	if err != nil {
		panic("harness: cannot scan rendered text: " + err.Error())
	}
	if len(gotToks) != len(wantToks) {
		return fmt.Errorf("body has %d tokens, the generator rendered %d (first difference: %s)", len(gotToks), len(wantToks), firstDiff(gotToks, wantToks))
	}
	for i := range gotToks {
		if gotToks[i] != wantToks[i] {
			return fmt.Errorf("token %d differs: file has %v %q, rendered %v %q", i, gotToks[i].t, gotToks[i].lit, wantToks[i].t, wantToks[i].lit)
		}
	}
	if gotCmt != wantCmt && !sameCommentsUpToDirectiveOrder(gotCmt, wantCmt) {
		return fmt.Errorf("comments differ (blanks ignored): file %q, rendered %q", clip(gotCmt, 300), clip(wantCmt, 300))
	}
	return checkFixedPoints(src, goVersion, modPath)
}

func checkFixedPoints(src []byte, goVersion, modPath string) error {
	// (5) gofmt fixed point
	fm, err := format.Source(src)
	if err != nil {
		return fmt.Errorf("gofmt rejects the file: %v", err)
	}
	if !bytes.Equal(fm, src) {
		return fmt.Errorf("not a fixed point of gofmt: %s", lineDiff(src, fm))
	}
	// (6) gofumpt fixed point for the module's language version (the go command assumes 1.16 when go.mod has no go directive)
	if goVersion == "" {
		goVersion = "1.16"
	}
	fu, err := gofumpt.Source(src, gofumpt.Options{LangVersion: "go" + goVersion, ModulePath: modPath})
	if err != nil {
		return fmt.Errorf("gofumpt rejects the file: %v", err)
	}
	if !bytes.Equal(fu, src) {
		return fmt.Errorf("not a fixed point of gofumpt (go%s, module %s): %s", goVersion, modPath, lineDiff(src, fu))
	}
	return nil
}

func firstDiff(a, b []tok) string {
	n := len(a)
	if len(b) < n {
		n = len(b)
	}
	for i := 0; i < n; i++ {
		if a[i] != b[i] {
			return fmt.Sprintf("token %d: file %v %q vs rendered %v %q", i, a[i].t, a[i].lit, b[i].t, b[i].lit)
		}
	}
	return fmt.Sprintf("one is a prefix of the other at token %d", n)
}

func lineDiff(a, b []byte) string {
	al, bl := strings.Split(string(a), "\n"), strings.Split(string(b), "\n")
	for i := 0; i < len(al) || i < len(bl); i++ {
		var x, y string
		if i < len(al) {
			x = al[i]
		}
		if i < len(bl) {
			y = bl[i]
		}
		if x != y {
			return fmt.Sprintf("line %d: written %q, reformatted %q", i+1, x, y)
		}
	}
	return "same lines"
}

func c1NonTrivial(c c1Case) bool {
	decls := 0
	for _, g := range c.Gens {
		for _, ps := range g.Pieces {
			decls += len(ps)
		}
	}
	if decls < 2 {
		return false
	}
	for _, f := range c.Features {
		switch f {
		case "odd-spacing", "odd-lines", "line-comment", "block-comment", "import", "doc-comment", "semicolon-separated":
			return true
		}
	}
	return false
}

// ---- the real generators' output is canonical as well (no token comparison: what they render is not recorded) ----

type c1RealCase struct {
	ModCase
	Real []string `json:"real"`
}

func genC01Real(t *rapid.T) c1RealCase {
	o := modOpts{gens: []string{"zzz"}, minPkgs: 1, maxPkgs: 3, locals: true, tagDensity: 9, pkgTagBias: 9, maxDecls: 6, imports: true}
	c := c1RealCase{ModCase: genMod(t, o)}
	c.Real = rapid.SampledFrom([][]string{{"runtimedoc"}, {"deepcopy"}, {"defaulter"}, {"runtimedoc", "deepcopy", "defaulter"}}).Draw(t, "real")
	return c
}

func oracleC01Real(c c1RealCase) error {
	dir := tempModule(&c.Mod)
	defer os.RemoveAll(dir)
	globals := map[string][]string{}
	for _, r := range c.Real {
		globals["gengo:"+r] = []string{""}
	}
	var entries []string
	for _, p := range c.Mod.Pkgs {
		entries = append(entries, entry(p.Dir))
	}
	res := script.Run(script.RunSpec{Dir: dir, Entrypoints: entries, Globals: globals, Base: "zz_generated", Real: c.Real})
	if res.LoadErr != "" {
		panic("harness: synthetic module does not load: " + res.LoadErr)
	}
	if res.Panic != "" {
		return fmt.Errorf("Execute with %v panics: %s", c.Real, res.Panic)
	}
	if res.Failed {
		return nil // the statement covers runs that return nil
	}
	for i := range c.Mod.Pkgs {
		p := &c.Mod.Pkgs[i]
		for _, g := range c.Real {
			fn := filepath.Join(dir, filepath.FromSlash(p.Dir), "zz_generated."+g+".go")
			src, err := os.ReadFile(fn)
			if err != nil {
				continue
			}
			if err := checkCanonical(src, g, p.Name, "", c.Mod.Go, c.Mod.Path); err != nil {
				return fmt.Errorf("%s/zz_generated.%s.go (real generator): %w\n--- file ---\n%s", p.Dir, g, err, clip(string(src), 2500))
			}
		}
	}
	return nil
}

func TestC01(t *testing.T) {
	r := ev.Begin(t, ev.Meta{
		ID:    "C01",
		Level: "exploration",
		Rule: "1-2 packages (directory name differs from package name, package main, module paths with dots/dashes/vN, go directives 1.18-1.24.2) x 1-3 generators " +
			"(prefix-related names) rendering per type 0-4 declarations from a grammar of funcs with nested statements, methods, var/const/type (grouped and " +
			"ungrouped), struct and interface types, composite literals, raw strings, line/block/doc comments, //go: directives, odd whitespace (blank-line runs, " +
			"tabs/spaces, trailing blanks, ';'-separated statements) and references to 0-3 foreign packages through snippet.ID; oracle: parse, opening comment " +
			"names the generator, package name from the spec, token-sequence and comment equality with the recorded rendered bytes, go/format and gofumpt " +
			"fixed points; non-trivial = >=2 declarations and (odd whitespace | comment | import); distinct by JSON encoding",
		Assumptions: []string{
			"the grammar avoids the token-level rewrites of gofmt -s / gofumpt (elidable literal types, legacy octal, `var x = v` in functions, adjacent lone var/const, single-spec grouped var, nested parentheses)",
			"comments are compared with all white space and comment markers removed (go/printer re-flows doc comments)",
		},
	})
	defer r.Finish()
	c1KnownMLBlock = r.Known("multiline-block-comment-in-block")
	ev.Search(r, ev.Sub[c1Case]{
		Name: "files", Gen: genC01, Oracle: oracleC01, NonTrivial: c1NonTrivial,
		Classes: func(c c1Case) []string { return c.Features },
		Budget:  ev.Budget{Quick: 150, Thorough: 2500}, MinNonTrivial: 0.5,
	})
	ev.Search(r, ev.Sub[c1RealCase]{
		Name: "real", Gen: genC01Real, Oracle: oracleC01Real,
		NonTrivial: func(c c1RealCase) bool { return len(c.Mod.Pkgs) >= 1 },
		Classes:    func(c c1RealCase) []string { return c.Real },
		Budget:     ev.Budget{Quick: 40, Thorough: 600},
	})
	ev.Search(r, ev.Sub[c1Fault]{
		Name: "writefault", Gen: genC01Fault, Oracle: oracleC01Fault,
		NonTrivial: func(c c1Fault) bool { return c.Limit < 4096 },
		Classes:    func(c c1Fault) []string { return []string{fmt.Sprintf("limit-%d", c.Limit)} },
		Budget:     ev.Budget{Quick: 6, Thorough: 60},
	})
	// a target package with a cgo file: go/packages hands out the rewritten copy from the build cache for it, the output still
	// belongs into the package directory
	if r.Shard == r.NSh-1 {
		if _, err := exec.LookPath("gcc"); err == nil && os.Getenv("CGO_ENABLED") != "0" {
			ev.Enumerate(r, "cgo-target", func(yield func(c1Cgo) bool) {
				for _, c := range []c1Cgo{{CgoFileFirst: true, NDecls: 1}, {CgoFileFirst: false, NDecls: 3}} {
					if !yield(c) {
						return
					}
				}
			}, oracleC01Cgo, func(c1Cgo) bool { return true }, func(c c1Cgo) []string { return []string{"cgo-target-package"} })
		}
	}
}

type c1Cgo struct {
	CgoFileFirst bool `json:"cgofilefirst"` // the file importing "C" sorts before / behind the plain file
	NDecls       int  `json:"ndecls"`
}

func oracleC01Cgo(c c1Cgo) error {
	cgoName, plainName := "a_cg.go", "plain.go"
	if !c.CgoFileFirst {
		cgoName = "z_cg.go"
	}
	m := modspec.Mod{Path: "example.com/cgomod", Go: "1.21", Pkgs: []modspec.Pkg{{Dir: "cg", Name: "cg", Other: []modspec.File{
		{Name: cgoName, Data: "// Package cg uses cgo.\npackage cg\n\n/*\nstatic int add(int a, int b) { return a + b; }\n*/\nimport \"C\"\n\n// InCgoFile is declared in the file that imports C.\ntype InCgoFile struct{ A int }\n\n// Sum adds through C.\nfunc Sum(a, b int) int { return int(C.add(C.int(a), C.int(b))) }\n"},
		{Name: plainName, Data: "package cg\n\n// Plain is declared in an ordinary file.\ntype Plain struct{ B int }\n"},
	}}}}
	dir := tempModule(&m)
	defer os.RemoveAll(dir)
	text := ""
	for d := 0; d < c.NDecls; d++ {
		text += fmt.Sprintf("\nvar _$G_$T_%d = %d\n", d, d)
	}
	sc := &script.Script{Name: "g", Mode: "fixed", Default: script.Action{Render: []script.Piece{{Kind: "block", Text: text}}}}
	res := script.Run(script.RunSpec{Dir: dir, Entrypoints: []string{"./cg"}, Globals: map[string][]string{"gengo:g": {""}}, Base: "zz_generated", Scripts: []*script.Script{sc}})
	if res.LoadErr != "" {
		panic("harness: cgo module does not load: " + res.LoadErr)
	}
	if res.Panic != "" {
		return fmt.Errorf("Execute panics on a package with a cgo file: %s", res.Panic)
	}
	if res.Failed {
		return fmt.Errorf("Execute fails on a package with a cgo file: %s", res.Err)
	}
	fn := filepath.Join(dir, "cg", "zz_generated.g.go")
	src, err := os.ReadFile(fn)
	if err != nil {
		return fmt.Errorf("generator g rendered for the types of package cg (which has a cgo file), but <package directory>/zz_generated.g.go does not exist: %v", err)
	}
	pf, err := parser.ParseFile(token.NewFileSet(), fn, src, parser.ParseComments)
	if err != nil {
		return fmt.Errorf("%s does not parse: %v", fn, err)
	}
	if pf.Name.Name != "cg" {
		return fmt.Errorf("%s declares package %s, want cg", fn, pf.Name.Name)
	}
	for _, ty := range []string{"InCgoFile", "Plain"} {
		for d := 0; d < c.NDecls; d++ {
			if name := fmt.Sprintf("_g_%s_%d", ty, d); !strings.Contains(string(src), name) {
				return fmt.Errorf("%s lacks the rendered declaration %s:\n%s", fn, name, clip(string(src), 600))
			}
		}
	}
	return nil
}

// ---- write faults: Execute may fail, but it must not return nil over a file that is not what the generator rendered ----

type c1Fault struct {
	NTypes int  `json:"ntypes"`
	NDecls int  `json:"ndecls"`
	Limit  int  `json:"limit"` // RLIMIT_FSIZE in bytes while Execute runs
	Prev   bool `json:"prev"`  // a previous output of the generator exists
}

func genC01Fault(t *rapid.T) c1Fault {
	return c1Fault{NTypes: rapid.IntRange(1, 3).Draw(t, "ntypes"), NDecls: rapid.IntRange(1, 30).Draw(t, "ndecls"),
		Limit: rapid.SampledFrom([]int{1, 16, 64, 200, 512, 4096}).Draw(t, "limit"), Prev: rapid.Bool().Draw(t, "prev")}
}

func oracleC01Fault(c c1Fault) error {
	m := modspec.Mod{Path: "example.com/wf", Go: "1.21"}
	p := modspec.Pkg{Dir: "a", Name: "a"}
	f := modspec.GoFile{Name: "types.go"}
	for j := 0; j < c.NTypes; j++ {
		f.Decls = append(f.Decls, modspec.Decl{Kind: "struct", Name: fmt.Sprintf("T%d", j), Fields: []modspec.Field{{Names: []string{"A"}, Type: "int"}}})
	}
	p.Files = append(p.Files, f)
	if c.Prev {
		p.Other = append(p.Other, modspec.File{Name: "zz_generated.g.go", Data: "package a\n\nvar _previous_g = 0\n"})
	}
	m.Pkgs = append(m.Pkgs, p)
	dir := tempModule(&m)
	defer os.RemoveAll(dir)
	text := ""
	for d := 0; d < c.NDecls; d++ {
		text += fmt.Sprintf("\nvar _$G_$T_%d = \"declaration number %d of this type\"\n", d, d)
	}
	s := &script.Script{Name: "g", Mode: "fixed", Default: script.Action{Render: []script.Piece{{Kind: "block", Text: text}}}}
	res, exit, stderr := script.RunChild(script.RunSpec{Dir: dir, Entrypoints: []string{"./a"}, Globals: map[string][]string{"gengo:g": {""}}, Base: "zz_generated",
		Scripts: []*script.Script{s}, FileSizeLimit: c.Limit}, os.TempDir())
	if exit != 0 {
		panic(fmt.Sprintf("harness: child run exited %d: %s", exit, clip(stderr, 800)))
	}
	if res.LoadErr != "" {
		panic("harness: synthetic module does not load: " + res.LoadErr)
	}
	if res.Panic != "" {
		return fmt.Errorf("Execute panics when writing beyond a file size limit of %d bytes: %s", c.Limit, res.Panic)
	}
	if res.Failed {
		return nil // the write failed and Execute says so: the premise of the statement does not hold
	}
	fn := filepath.Join(dir, "a", "zz_generated.g.go")
	src, err := os.ReadFile(fn)
	if err != nil {
		return fmt.Errorf("Execute returned nil under a file size limit of %d bytes, but %s cannot be read: %v", c.Limit, fn, err)
	}
	fset := token.NewFileSet()
	pf, err := parser.ParseFile(fset, fn, src, parser.ParseComments)
	if err != nil {
		return fmt.Errorf("Execute returned nil under a file size limit of %d bytes, but the file on disk (%d bytes) does not parse: %v", c.Limit, len(src), err)
	}
	if pf.Name.Name != "a" || !strings.Contains(string(src), "gengo:g") {
		return fmt.Errorf("Execute returned nil under a file size limit of %d bytes, but the file on disk lacks the banner or the package clause:\n%s", c.Limit, clip(string(src), 400))
	}
	for j := 0; j < c.NTypes; j++ {
		for d := 0; d < c.NDecls; d++ {
			if name := fmt.Sprintf("_g_T%d_%d", j, d); !strings.Contains(string(src), name) {
				return fmt.Errorf("Execute returned nil under a file size limit of %d bytes, but the file on disk (%d bytes) lacks the rendered declaration %s", c.Limit, len(src), name)
			}
		}
	}
	return nil
}
