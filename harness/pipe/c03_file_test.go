package pipe

import "vt/internal/ev"

func c03File(r *ev.Recorder) {}
