package pipe

import (
	"fmt"
	"go/ast"
	"go/parser"
	"go/token"
	"os"
	"os/exec"
	"path/filepath"
	"sort"
	"strconv"
	"strings"

	"pgregory.net/rapid"

	"vt/internal/ev"
	"vt/internal/modspec"
	"vt/internal/script"
)

// ---- C03, file level: the import block of a generated file, confirmed by the compiler ----

type c3fCase struct {
	ModPath string   `json:"modpath"`
	Dirs    []string `json:"dirs"` // package directories inside the module (colliding names)
	Std     []string `json:"std"`  // std references "path.Type"
	Twice   []int    `json:"twice,omitempty"`
	OwnRef  bool     `json:"ownref,omitempty"`
	// SkipRef: a reference that only the second type (Own) renders, after which its GenerateType returns SkipErr (skip | ignore | wrapskip):
	// whatever gengo does with text rendered before such a return, the import block must match what is in the file
	SkipRef string `json:"skipref,omitempty"`
	SkipErr string `json:"skiperr,omitempty"`
	// UnusedArg: a reference bound to a template argument that the template text never mentions (a shared argument set):
	// its package is not referenced from the body and must not be imported
	UnusedArg string `json:"unusedarg,omitempty"`
	// DotImport: a hand-written file of the target package dot-imports the first referenced package (and renames the second
	// one); the generated file chooses its own import names all the same
	DotImport bool `json:"dotimport,omitempty"`
	// ChainOnly: packages (indices into Dirs, >= 2) that the body mentions only at the head of a longer selector chain
	// (pkg.Default<i>.A, pkg.T<i>{}.M()); StdChain adds unicode.Latin.R16 as the only mention of package unicode
	ChainOnly []int `json:"chainonly,omitempty"`
	StdChain  bool  `json:"stdchain,omitempty"`
}

var c3fDirPool = []string{
	"x/go", "y/type", "z/func", "w/range", "auth/2fa", "a/b-c", "a/bc", "abc", "a/b_c", "a/b.c", "k8s/api/core/v1", "k8s/api/apps/v1", "apis/foo/v1", "q/apis/foo/v1",
	"domain/user", "svc/domain/user", "util", "x/util", "y/util", "json", "enc/json", "template", "t/template", "rand", "v2", "lib/v2", "other/lib/v2", "fmt", "my/fmt",
	"errors", "p/errors", "a/x", "x", "Bar", "bar", "foo/Bar", "yaml.v3", "in/yaml.v3",
}

var c3fStdPool = []string{
	"fmt.Stringer", "text/template.Template", "html/template.Template", "encoding/json.Decoder", "math/rand.Rand", "errors.Unwrap", "sort.Interface", "io/fs.FS", "path/filepath.WalkFunc", "go/token.Pos", "go/ast.Node",
}

func genC03File(t *rapid.T) c3fCase {
	c := c3fCase{ModPath: rapid.SampledFrom([]string{"m", "example.com/m", "github.com/org/repo"}).Draw(t, "modpath")}
	n := rapid.IntRange(2, 8).Draw(t, "ndirs")
	seen := map[string]bool{}
	for i := 0; i < n; i++ {
		d := rapid.SampledFrom(c3fDirPool).Draw(t, "dir")
		// case-insensitive file systems aside, "Bar" and "bar" are distinct directories on Linux; keep one per lower-case form to stay portable
		if seen[strings.ToLower(d)] {
			continue
		}
		seen[strings.ToLower(d)] = true
		c.Dirs = append(c.Dirs, d)
	}
	ns := rapid.IntRange(0, 3).Draw(t, "nstd")
	for i := 0; i < ns; i++ {
		s := rapid.SampledFrom(c3fStdPool).Draw(t, "std")
		dup := false
		for _, e := range c.Std {
			if e == s {
				dup = true
			}
		}
		if !dup {
			c.Std = append(c.Std, s)
		}
	}
	for i := range c.Dirs {
		if rapid.IntRange(0, 3).Draw(t, "twice") == 0 {
			c.Twice = append(c.Twice, i)
		}
	}
	c.OwnRef = rapid.Bool().Draw(t, "ownref")
	for i := 2; i < len(c.Dirs); i++ {
		twice := false
		for _, j := range c.Twice {
			twice = twice || j == i
		}
		if !twice && rapid.IntRange(0, 2).Draw(t, "chainonly") == 0 {
			c.ChainOnly = append(c.ChainOnly, i)
		}
	}
	c.StdChain = rapid.IntRange(0, 2).Draw(t, "stdchain") == 0
	if rapid.IntRange(0, 2).Draw(t, "skipref") == 0 {
		c.SkipRef = rapid.SampledFrom([]string{"time.Duration", "os.File", "net/url.URL", "crypto/rand.Reader"}).Draw(t, "skiprefv")
		c.SkipErr = rapid.SampledFrom([]string{"skip", "ignore", "wrapskip"}).Draw(t, "skiperr")
	}
	c.DotImport = rapid.IntRange(0, 3).Draw(t, "dotimport") == 0
	if rapid.IntRange(0, 2).Draw(t, "unusedarg") == 0 {
		c.UnusedArg = rapid.SampledFrom([]string{"net/http.Client", "bufio.Reader", "container/list.List", "hash/crc32.Table"}).Draw(t, "unusedargv")
	}
	return c
}

func (c c3fCase) module() (modspec.Mod, []string) {
	m := modspec.Mod{Path: c.ModPath, Go: "1.21"}
	var refs []string
	for i, d := range c.Dirs {
		m.Pkgs = append(m.Pkgs, modspec.Pkg{Dir: d, Name: fmt.Sprintf("pkg%d", i), Files: []modspec.GoFile{{Name: "t.go", Decls: []modspec.Decl{
			{Kind: "struct", Name: fmt.Sprintf("T%d", i), Fields: []modspec.Field{{Names: []string{"A"}, Type: "int"}}},
			{Kind: "raw", Text: fmt.Sprintf("type G%d[A, B any] struct {\n\tX A\n\tY B\n}", i)},
			{Kind: "raw", Text: fmt.Sprintf("var Default%d = T%d{}\n\nfunc (T%d) M() int { return 0 }", i, i, i)},
		}}}})
		refs = append(refs, fmt.Sprintf("%s/%s.T%d", c.ModPath, d, i))
	}
	target := modspec.Pkg{Dir: "target", Name: "target", Files: []modspec.GoFile{{Name: "t.go", Decls: []modspec.Decl{
		{Kind: "struct", Name: "Target", Fields: []modspec.Field{{Names: []string{"A"}, Type: "int"}}},
		{Kind: "struct", Name: "Own", Fields: []modspec.Field{{Names: []string{"A"}, Type: "int"}}},
	}}}}
	if c.DotImport && len(c.Dirs) > 0 {
		src := "package target\n\nimport . \"" + c.ModPath + "/" + c.Dirs[0] + "\"\n"
		if len(c.Dirs) > 1 {
			src += "\nimport renamed_by_hand \"" + c.ModPath + "/" + c.Dirs[1] + "\"\n\nvar _ renamed_by_hand.T1\n"
		}
		src += "\nvar _ = T0{}\n"
		target.Other = append(target.Other, modspec.File{Name: "dot.go", Data: src})
	}
	m.Pkgs = append(m.Pkgs, target)
	return m, refs
}

func unusedOf(c c3fCase) []string {
	if c.UnusedArg == "" {
		return nil
	}
	return []string{c.UnusedArg}
}

func oracleC03File(c c3fCase) error {
	m, refs := c.module()
	dir := tempModule(&m)
	defer os.RemoveAll(dir)
	all := append(append([]string{}, refs...), c.Std...)
	for _, i := range c.Twice {
		all = append(all, refs[i])
	}
	if c.OwnRef {
		all = append(all, c.ModPath+"/target.Own")
	}
	// one generic instantiation over the first two packages
	text := "\n"
	chainOnly := map[string]int{}
	for _, i := range c.ChainOnly {
		chainOnly[refs[i]] = i
	}
	if c.StdChain {
		all = append(all, "unicode.Latin")
	}
	for i := range all {
		if ci, ok := chainOnly[all[i]]; ok {
			// the package is mentioned only at the head of a selector chain
			if ci%2 == 0 {
				all[i] = strings.TrimSuffix(all[i], fmt.Sprintf(".T%d", ci)) + fmt.Sprintf(".Default%d", ci)
				text += fmt.Sprintf("var _c%d = @R%d.A\n\n", i, i)
			} else {
				text += fmt.Sprintf("var _c%d = @R%d{}.M()\n\n", i, i)
			}
			continue
		}
		if all[i] == "unicode.Latin" {
			text += fmt.Sprintf("var _c%d = @R%d.R16\n\n", i, i)
			continue
		}
		if strings.HasSuffix(all[i], ".Unwrap") {
			text += fmt.Sprintf("var _v%d = @R%d\n\n", i, i) // a function, not a type
		} else {
			text += fmt.Sprintf("var _v%d @R%d\n\n", i, i)
		}
	}
	if len(c.Dirs) >= 2 {
		all = append(all, fmt.Sprintf("%s/%s.G0[%s/%s.T1,%s/%s.T0]", c.ModPath, c.Dirs[0], c.ModPath, c.Dirs[1], c.ModPath, c.Dirs[0]))
		text += fmt.Sprintf("var _g @R%d\n", len(all)-1)
	}
	s := &script.Script{Name: "g", Mode: "fixed", PerType: map[string]script.Action{
		c.ModPath + "/target.Target": {Render: []script.Piece{{Kind: "t", Text: text, Refs: all, Unused: unusedOf(c)}}},
	}}
	if c.SkipRef != "" {
		decl := "\nvar _skipped @R0\n"
		if strings.HasSuffix(c.SkipRef, ".Reader") {
			decl = "\nvar _skipped = @R0\n"
		}
		s.PerType[c.ModPath+"/target.Own"] = script.Action{Render: []script.Piece{{Kind: "t", Text: decl, Refs: []string{c.SkipRef}}}, Err: c.SkipErr}
	}
	res := script.Run(script.RunSpec{Dir: dir, Entrypoints: []string{"./target"}, Globals: map[string][]string{"gengo:g": {""}}, Base: "zz_generated", Scripts: []*script.Script{s}})
	if res.LoadErr != "" {
		panic("harness: synthetic module does not load: " + res.LoadErr)
	}
	if res.Panic != "" {
		return fmt.Errorf("Execute panics: %s", res.Panic)
	}
	if res.Failed {
		return fmt.Errorf("Execute failed: %s", res.Err)
	}
	fn := filepath.Join(dir, "target", "zz_generated.g.go")
	src, err := os.ReadFile(fn)
	if err != nil {
		return fmt.Errorf("generated file missing: %v", err)
	}
	fset := token.NewFileSet()
	f, err := parser.ParseFile(fset, fn, src, 0)
	if err != nil {
		return fmt.Errorf("generated file does not parse: %v", err)
	}
	// import table of the file
	byName := map[string]string{}
	byPath := map[string]string{}
	for _, im := range f.Imports {
		p, _ := strconv.Unquote(im.Path.Value)
		if im.Name == nil {
			return fmt.Errorf("import %q has no explicit name; the file is:\n%s", p, src)
		}
		if err := validImportName(im.Name.Name); err != nil {
			return fmt.Errorf("import %q: %w", p, err)
		}
		if other, dup := byName[im.Name.Name]; dup {
			return fmt.Errorf("import name %q is bound to %q and %q", im.Name.Name, other, p)
		}
		if _, dup := byPath[p]; dup {
			return fmt.Errorf("package %q is imported twice", p)
		}
		byName[im.Name.Name] = p
		byPath[p] = im.Name.Name
	}
	// expected set of foreign packages
	want := map[string]bool{}
	for i, d := range c.Dirs {
		_ = i
		want[c.ModPath+"/"+d] = true
	}
	for _, s := range c.Std {
		want[s[:strings.LastIndex(s, ".")]] = true
	}
	if c.StdChain {
		want["unicode"] = true
	}
	if c.SkipRef != "" && strings.Contains(string(src), "_skipped") {
		// what was rendered before the ErrSkip/ErrIgnore return is in the file, so its package is referenced
		want[c.SkipRef[:strings.LastIndex(c.SkipRef, ".")]] = true
	}
	for p := range want {
		if _, ok := byPath[p]; !ok {
			return fmt.Errorf("referenced package %q is missing from the import block; the file is:\n%s", p, src)
		}
	}
	for p := range byPath {
		if !want[p] {
			return fmt.Errorf("package %q is imported but not referenced; the file is:\n%s", p, src)
		}
	}
	// qualifiers used in the body
	used := map[string]bool{}
	var bad error
	ast.Inspect(f, func(n ast.Node) bool {
		sel, ok := n.(*ast.SelectorExpr)
		if !ok {
			return true
		}
		id, ok := sel.X.(*ast.Ident)
		if !ok {
			return true
		}
		used[id.Name] = true
		p, ok := byName[id.Name]
		if !ok {
			bad = fmt.Errorf("qualifier %q of %s.%s is not bound by the import block", id.Name, id.Name, sel.Sel.Name)
			return false
		}
		// type names are unique per package directory: T<i> / G<i> belong to Dirs[i]
		name := sel.Sel.Name
		if len(name) >= 2 && (name[0] == 'T' || name[0] == 'G') {
			if i, err := strconv.Atoi(name[1:]); err == nil && i < len(c.Dirs) {
				if p != c.ModPath+"/"+c.Dirs[i] {
					bad = fmt.Errorf("%s.%s is qualified with the name of %q, the type belongs to %q", id.Name, name, p, c.ModPath+"/"+c.Dirs[i])
					return false
				}
			}
		}
		return true
	})
	if bad != nil {
		return fmt.Errorf("%w; the file is:\n%s", bad, src)
	}
	for n := range byName {
		if !used[n] {
			return fmt.Errorf("import name %q is never used in the body", n)
		}
	}
	if c.OwnRef && strings.Contains(string(src), "target.Own") {
		return fmt.Errorf("reference to the file's own package is qualified; the file is:\n%s", src)
	}
	// the compiler confirms: none missing, none unused, all names valid
	cmd := exec.Command("go", "build", "./target")
	cmd.Dir = dir
	if out, err := cmd.CombinedOutput(); err != nil {
		o := string(out)
		if strings.Contains(o, "toolchain") || strings.Contains(o, "cannot find GOROOT") || strings.Contains(o, "go: ") && !strings.Contains(o, ".go:") {
			panic("harness: go build could not run: " + o)
		}
		return fmt.Errorf("the generated file does not compile: %v\n%s\n--- file ---\n%s", err, clip(o, 1500), src)
	}
	return nil
}

func c3fClasses(c c3fCase) []string {
	fs := map[string]bool{}
	last := map[string]int{}
	for _, d := range c.Dirs {
		seg := d[strings.LastIndex(d, "/")+1:]
		last[strings.ToLower(strings.NewReplacer("-", "", "_", "", ".", "").Replace(seg))]++
		if token.Lookup(seg).IsKeyword() {
			fs["keyword-segment"] = true
		}
		if seg[0] >= '0' && seg[0] <= '9' {
			fs["digit-leading-segment"] = true
		}
		if strings.ContainsAny(seg, "-_.") {
			fs["punctuated-segment"] = true
		}
		for _, s := range c3fStdPool {
			sp := s[:strings.LastIndex(s, ".")]
			if seg == sp[strings.LastIndex(sp, "/")+1:] {
				fs["std-reserved-name"] = true
			}
		}
	}
	for _, n := range last {
		if n >= 2 {
			fs["clashing-last-segment"] = true
		}
	}
	if len(c.Std) > 0 {
		fs["std-import"] = true
	}
	if len(c.ChainOnly) > 0 || c.StdChain {
		fs["package-mentioned-only-at-the-head-of-a-selector-chain"] = true
	}
	out := make([]string, 0, len(fs))
	for k := range fs {
		out = append(out, k)
	}
	sort.Strings(out)
	return out
}

func c03File(r *ev.Recorder) {
	ev.Search(r, ev.Sub[c3fCase]{
		Name: "file", Gen: genC03File, Oracle: oracleC03File,
		NonTrivial: func(c c3fCase) bool {
			for _, s := range c3fClasses(c) {
				if s != "std-import" {
					return true
				}
			}
			return false
		},
		Classes: c3fClasses,
		Budget:  ev.Budget{Quick: 60, Thorough: 400}, MinNonTrivial: 0.3,
	})
}
