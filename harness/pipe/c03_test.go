package pipe

import (
	"bytes"
	"fmt"
	"go/token"
	"go/types"
	htmltemplate "html/template"
	"net/url"
	"reflect"
	"regexp"
	"sort"
	"strings"
	"testing"
	texttemplate "text/template"
	"time"

	"github.com/octohelm/gengo/pkg/gengo"
	"github.com/octohelm/gengo/pkg/gengo/snippet"
	"github.com/octohelm/gengo/pkg/namer"
	gengotypes "github.com/octohelm/gengo/pkg/types"
	"pgregory.net/rapid"

	"vt/internal/ev"
	"vt/internal/fx/alpha"
	betav1 "vt/internal/fx/beta/v1"
	kit1 "vt/internal/fx/one/go-kit"
	kit2 "vt/internal/fx/two/go-kit"
	yamlv3 "vt/internal/fx/yaml.v3"
)

// ---- C03: import block = referenced packages under unique valid names ----
//
// tracker level: references of every kind are rendered through a SnippetWriter
// bound to a fresh import tracker; type names are unique per path (T<i>, G<i>),
// so the package a rendered selector is meant for is known from the text alone.

type c3Ref struct {
	// Kind: expose | idstr | typename | generic | typelit | rtype-like (types.Type literal)
	Kind string `json:"kind"`
	// P: index into Paths of the referenced package (root of the reference)
	P int `json:"p"`
	// Args: indexes into Paths for generic arguments / literal components
	Args []int `json:"args,omitempty"`
	// Nested: the last argument of a generic reference is itself an instantiation G<a>[T<a>] (depth 2)
	Nested bool `json:"nested,omitempty"`
}

type c3Case struct {
	Target string   `json:"target"`
	Paths  []string `json:"paths"`
	Refs   []c3Ref  `json:"refs"`
}

var c3Segments = []string{
	"a", "b", "x", "y", "bar", "foo", "util", "v1", "v2", "v10", "apis", "domain", "core", "apps", "meta",
	"go", "type", "func", "range", "map", "chan", "select", "package", "import", "var", "interface",
	"2fa", "9", "3d", "b-c", "b_c", "b.c", "bc", "_y", "-z", "__", "--", "_", "json", "template", "rand", "http", "errors", "fmt", "os",
	"B", "Foo", "fooBar", "ID", "é", "中文", "x.v1", "yaml.v3",
	// elements that merely contain "vendor" (a vendored path has a whole element "vendor")
	"multivendor", "vendors", "vendor-x", "myvendor", "c++", "a+b", "x~y",
}

var c3Hosts = []string{"example.com", "github.com", "k8s.io", "gopkg.in", "a.b.c", "golang.org/x"}

var c3Std = []string{
	"fmt", "os", "errors", "text/template", "html/template", "encoding/json", "math/rand", "crypto/rand", "net/http",
	"go/types", "go/ast", "go/token", "path", "path/filepath", "io", "io/fs", "sync", "context", "time", "strings", "bytes", "embed",
}

func genC3Path(t *rapid.T) string {
	switch rapid.IntRange(0, 9).Draw(t, "pathkind") {
	case 0, 1:
		return rapid.SampledFrom(c3Std).Draw(t, "std")
	case 2:
		// single segment
		return rapid.SampledFrom(c3Segments).Draw(t, "single")
	default:
		n := rapid.IntRange(1, 4).Draw(t, "nseg")
		parts := []string{rapid.SampledFrom(c3Hosts).Draw(t, "host")}
		for i := 0; i < n; i++ {
			parts = append(parts, rapid.SampledFrom(c3Segments).Draw(t, "seg"))
		}
		return strings.Join(parts, "/")
	}
}

const c3Target = "example.com/mod/target"

func genC03Tracker(t *rapid.T) c3Case {
	c := c3Case{Target: c3Target}
	np := rapid.IntRange(1, 12).Draw(t, "npaths")
	seen := map[string]bool{}
	// bias towards collisions: reuse the same last segments under different prefixes
	for i := 0; i < np; i++ {
		var p string
		if i > 0 && rapid.IntRange(0, 3).Draw(t, "collide") == 0 {
			prev := c.Paths[rapid.IntRange(0, len(c.Paths)-1).Draw(t, "prev")]
			segs := strings.Split(prev, "/")
			switch rapid.IntRange(0, 5).Draw(t, "how") {
			case 4: // the name the last-resort numbering would hand out for prev (all segments joined + a number), as a package of its own
				p = strings.ToLower(strings.NewReplacer("-", "", "_", "", ".", "", "/", "").Replace(prev)) + rapid.SampledFrom([]string{"2", "3", "2", "4"}).Draw(t, "number")
				if rapid.Bool().Draw(t, "numhost") {
					p = rapid.SampledFrom(c3Hosts).Draw(t, "host3") + "/" + p
				}
			case 5: // same letters, punctuation added inside the last segment (exhausts the name candidates of prev's family)
				last := segs[len(segs)-1]
				if rs := []rune(last); len(rs) >= 2 {
					k := rapid.IntRange(1, len(rs)-1).Draw(t, "punctat")
					last = string(rs[:k]) + rapid.SampledFrom([]string{"-", "_", "."}).Draw(t, "punct") + string(rs[k:])
				}
				p = strings.Join(append(append([]string{}, segs[:len(segs)-1]...), last), "/")
			case 0: // same last segment, other prefix
				p = rapid.SampledFrom(c3Hosts).Draw(t, "host2") + "/" + rapid.SampledFrom(c3Segments).Draw(t, "mid") + "/" + segs[len(segs)-1]
			case 1: // the joined name of prev as a single segment (takes its fallback candidates)
				p = strings.ToLower(strings.Join(segs[max(0, len(segs)-2):], ""))
			case 2: // only the last segment
				p = segs[len(segs)-1]
			default: // punctuation variant
				p = strings.NewReplacer("-", "", "_", "", ".", "").Replace(prev)
			}
		} else if rapid.IntRange(0, 9).Draw(t, "own") == 0 {
			p = c3Target
		} else {
			p = genC3Path(t)
		}
		if p == "" || seen[p] || strings.Contains(p, "/vendor/") || strings.ContainsAny(p, "[]") {
			continue
		}
		seen[p] = true
		c.Paths = append(c.Paths, p)
	}
	if len(c.Paths) == 0 {
		c.Paths = []string{"fmt"}
	}
	nr := rapid.IntRange(1, 2*len(c.Paths)).Draw(t, "nrefs")
	for i := 0; i < nr; i++ {
		r := c3Ref{
			Kind: rapid.SampledFrom([]string{"expose", "idstr", "typename", "generic", "typelit", "generic-typename"}).Draw(t, "kind"),
			P:    rapid.IntRange(0, len(c.Paths)-1).Draw(t, "p"),
		}
		if strings.HasPrefix(r.Kind, "generic") || r.Kind == "typelit" {
			k := rapid.IntRange(1, 3).Draw(t, "nargs")
			for j := 0; j < k; j++ {
				r.Args = append(r.Args, rapid.IntRange(0, len(c.Paths)-1).Draw(t, "arg"))
			}
			r.Nested = strings.HasPrefix(r.Kind, "generic") && rapid.Bool().Draw(t, "nested")
		}
		c.Refs = append(c.Refs, r)
	}
	return c
}

func c3Named(path string, name string) *types.Named {
	pkg := types.NewPackage(path, "pkgname")
	tn := types.NewTypeName(token.NoPos, pkg, name, nil)
	return types.NewNamed(tn, types.Typ[types.Int], nil)
}

// build returns the snippet for a reference and the list of path indexes it mentions, in any order.
func (c c3Case) build(r c3Ref) (snippet.Snippet, []int) {
	tname := func(i int) string { return fmt.Sprintf("T%d", i) }
	switch r.Kind {
	case "expose":
		return snippet.PkgExpose(c.Paths[r.P], tname(r.P)), []int{r.P}
	case "idstr":
		return snippet.ID(c.Paths[r.P] + "." + tname(r.P)), []int{r.P}
	case "typename":
		return snippet.ID(c3Named(c.Paths[r.P], tname(r.P)).Obj()), []int{r.P}
	case "generic", "generic-typename":
		var b strings.Builder
		used := []int{r.P}
		fmt.Fprintf(&b, "G%d[", r.P)
		for j, a := range r.Args {
			if j > 0 {
				b.WriteByte(',')
			}
			if r.Nested && j == len(r.Args)-1 {
				fmt.Fprintf(&b, "%s.G%d[%s.%s]", c.Paths[a], a, c.Paths[r.P], tname(r.P))
				used = append(used, a, r.P)
				continue
			}
			b.WriteString(c.Paths[a] + "." + tname(a))
			used = append(used, a)
		}
		b.WriteByte(']')
		if r.Kind == "generic" {
			return snippet.ID(c.Paths[r.P] + "." + b.String()), used
		}
		// an instantiated generic *types.Named has the bracketed list in its object name when it comes
		// through typesx; here the reference carries it in the TypeName, as gengotypes.Ref allows
		return snippet.PkgExpose(c.Paths[r.P], b.String()), used
	case "typelit":
		// map[P.T]...[]*A.T as a go/types type
		var tt types.Type = c3Named(c.Paths[r.Args[0]], tname(r.Args[0]))
		used := []int{r.Args[0], r.P}
		for k, a := range r.Args[1:] {
			used = append(used, a)
			if k > 0 && k == len(r.Args)-2 {
				// the last component is only mentioned by a blank field (padding / marker fields such as _ structs.HostLayout)
				tt = types.NewStruct([]*types.Var{
					types.NewField(token.NoPos, nil, "F", types.NewSlice(types.NewPointer(tt)), false),
					types.NewField(token.NoPos, nil, "_", types.NewArray(c3Named(c.Paths[a], tname(a)), 0), false),
				}, nil)
				continue
			}
			tt = types.NewStruct([]*types.Var{
				types.NewField(token.NoPos, nil, "F", types.NewSlice(types.NewPointer(tt)), false),
				types.NewField(token.NoPos, nil, "G", types.NewChan(types.SendRecv, c3Named(c.Paths[a], tname(a))), false),
			}, nil)
		}
		return snippet.ID(types.NewMap(c3Named(c.Paths[r.P], tname(r.P)), tt)), used
	}
	panic("harness: unknown ref kind " + r.Kind)
}

type qualUse struct {
	qual string
	has  bool
	idx  int
}

// selectorsIn extracts every T<i>/G<i> token of the text with its qualifier (if any).
func selectorsIn(text string) []qualUse {
	var out []qualUse
	fields := strings.FieldsFunc(text, func(r rune) bool {
		return strings.ContainsRune("[],*{}() \n\t;", r)
	})
	for _, f := range fields {
		name := f
		q := qualUse{}
		if k := strings.LastIndex(f, "."); k >= 0 {
			q.qual, q.has, name = f[:k], true, f[k+1:]
		}
		if len(name) < 2 || (name[0] != 'T' && name[0] != 'G') {
			continue
		}
		n := 0
		ok := true
		for _, ch := range name[1:] {
			if ch < '0' || ch > '9' {
				ok = false
				break
			}
			n = n*10 + int(ch-'0')
		}
		if !ok {
			continue
		}
		q.idx = n
		out = append(out, q)
	}
	return out
}

func validImportName(name string) error {
	if !token.IsIdentifier(name) { // false for "" and for keywords
		return fmt.Errorf("import name %q is not a valid non-keyword identifier", name)
	}
	if name == "_" {
		return fmt.Errorf("import name is the blank identifier")
	}
	return nil
}

func checkImportTable(imports map[string]string, wantPaths map[string]bool) error {
	seen := map[string]string{}
	for p, name := range imports {
		if !wantPaths[p] {
			return fmt.Errorf("package %q is imported (as %q) but never referenced", p, name)
		}
		if err := validImportName(name); err != nil {
			return fmt.Errorf("package %q: %w", p, err)
		}
		if other, dup := seen[name]; dup {
			return fmt.Errorf("import name %q is bound to both %q and %q", name, other, p)
		}
		seen[name] = p
	}
	for p := range wantPaths {
		if _, ok := imports[p]; !ok {
			return fmt.Errorf("package %q is referenced but not imported", p)
		}
	}
	return nil
}

func oracleC03Tracker(c c3Case) error {
	// the snippet values are built once and rendered into two different files (writers with their own tracker and target
	// package), the way a generator with a shared package-level snippet would use them
	built := make([]snippet.Snippet, len(c.Refs))
	usedBy := make([][]int, len(c.Refs))
	for i, r := range c.Refs {
		built[i], usedBy[i] = c.build(r)
	}
	if err := c3RenderFile(c, c.Target, built, usedBy); err != nil {
		return err
	}
	second := "example.com/mod/second"
	if len(c.Paths) > 1 {
		second = c.Paths[len(c.Paths)-1] // a package that is itself referenced: its own types must come out unqualified there
	}
	if err := c3RenderFile(c, second, built, usedBy); err != nil {
		return fmt.Errorf("second file (target %s, same snippet values): %w", second, err)
	}
	if err := c3ValueImports(c.Target); err != nil {
		return err
	}
	return c3ReflectImports(c.Target)
}

// c3ReflectImports: references given as reflect types of generic instantiations (reflect spells the package paths of type
// arguments in its own escaped form): exactly the mentioned packages are imported, under valid distinct names, and every
// qualifier of the text is bound
var c3ReflectDone = map[string]bool{}

func c3ReflectImports(target string) error {
	// the list is fixed: once per target package and process is enough (replays always run it)
	if c3ReflectDone[target] {
		return nil
	}
	if err := c3ReflectImportsOnce(target); err != nil {
		return err
	}
	c3ReflectDone[target] = true
	return nil
}

func c3ReflectImportsOnce(target string) error {
	const fx = "vt/internal/fx/"
	for _, tc := range []struct {
		rt    reflect.Type
		paths []string
	}{
		{reflect.TypeOf(alpha.Box[yamlv3.Kind]{}), []string{fx + "alpha", fx + "yaml.v3"}},
		{reflect.TypeOf(alpha.Pair[yamlv3.Kind, texttemplate.Template]{}), []string{fx + "alpha", fx + "yaml.v3", "text/template"}},
		{reflect.TypeOf(map[yamlv3.Kind]alpha.Triple[yamlv3.Node, alpha.Box[yamlv3.Kind], htmltemplate.Template]{}), []string{fx + "alpha", fx + "yaml.v3", "html/template"}},
		{reflect.TypeOf([]betav1.List[alpha.Pair[yamlv3.Kind, kit1.Opt]]{}), []string{fx + "beta/v1", fx + "alpha", fx + "yaml.v3", fx + "one/go-kit"}},
		{reflect.TypeOf(alpha.Pair[kit1.Level, kit2.Opt]{}), []string{fx + "alpha", fx + "one/go-kit", fx + "two/go-kit"}},
	} {
		for _, pre := range [][]string{nil, {"example.com/x/yaml", "example.com/yamlv3", "example.com/tpl/template", "example.com/gokit"}} {
			tracker := namer.NewDefaultImportTracker()
			for _, p := range pre {
				tracker.AddType(gengotypes.Ref(p, "Pre"))
			}
			buf := &bytes.Buffer{}
			w := gengo.NewSnippetWriter(buf, namer.NameSystems{"raw": namer.NewRawNamer(target, tracker)})
			if p := ev.Panics(func() { w.Render(snippet.ID(tc.rt)) }); p != nil {
				return fmt.Errorf("rendering the reflect type %s panics: %v", tc.rt, p)
			}
			text := buf.String()
			want := map[string]bool{}
			for _, p := range append(append([]string{}, tc.paths...), pre...) {
				if p != target {
					want[p] = true
				}
			}
			imports := tracker.Imports()
			if err := checkImportTable(imports, want); err != nil {
				return fmt.Errorf("the reflect type %s renders as %q: %w", tc.rt, text, err)
			}
			for _, m := range regexp.MustCompile(`([\pL_][\pL\pN_]*)\.[\pL_]`).FindAllStringSubmatch(text, -1) {
				if _, ok := tracker.PathOf(m[1]); !ok {
					return fmt.Errorf("the reflect type %s renders as %q, but the qualifier %q is not bound by the import table %v", tc.rt, text, m[1], imports)
				}
			}
		}
	}
	return nil
}

// c3ValueImports: value literals of nil/empty collections and pointers over foreign named types - whatever text is chosen for
// them, a package is imported iff the text mentions it
func c3ValueImports(target string) error {
	for _, v := range []any{
		[]time.Duration(nil), []time.Duration{}, map[string]*url.URL(nil), map[time.Month]bool{}, (*url.URL)(nil), [0]time.Month{},
		struct{ A []time.Duration }{}, []*url.Userinfo(nil),
	} {
		tracker := namer.NewDefaultImportTracker()
		buf := &bytes.Buffer{}
		w := gengo.NewSnippetWriter(buf, namer.NameSystems{"raw": namer.NewRawNamer(target, tracker)})
		if p := ev.Panics(func() { w.Render(snippet.Value(v)) }); p != nil {
			return fmt.Errorf("rendering the value %#v panics: %v", v, p)
		}
		text := buf.String()
		for path, name := range tracker.Imports() {
			if !strings.Contains(text, name+".") {
				return fmt.Errorf("the value %#v renders as %q, which does not mention %q, yet that package is imported (as %s)", v, text, path, name)
			}
		}
		for _, q := range []string{"time", "url"} {
			if strings.Contains(text, q+".") {
				if _, ok := tracker.PathOf(q); !ok {
					return fmt.Errorf("the value %#v renders as %q, but the qualifier %q is not bound by the import table %v", v, text, q, tracker.Imports())
				}
			}
		}
	}
	return nil
}

func c3RenderFile(c c3Case, target string, built []snippet.Snippet, usedBy [][]int) error {
	c.Target = target
	tracker := namer.NewDefaultImportTracker()
	buf := &bytes.Buffer{}
	w := gengo.NewSnippetWriter(buf, namer.NameSystems{"raw": namer.NewRawNamer(c.Target, tracker)})
	want := map[string]bool{}
	texts := make([]string, len(c.Refs))
	for i, r := range c.Refs {
		sn, used := built[i], usedBy[i]
		buf.Reset()
		if p := ev.Panics(func() { w.Render(sn) }); p != nil {
			return fmt.Errorf("rendering ref %d (%+v, path %q) panics: %v", i, r, c.Paths[r.P], p)
		}
		text := buf.String()
		texts[i] = text
		uses := selectorsIn(text)
		// every mentioned package appears, with the right qualifier
		need := map[int]int{}
		for _, u := range used {
			need[u]++
			if c.Paths[u] != c.Target {
				want[c.Paths[u]] = true
			}
		}
		got := map[int]int{}
		for _, u := range uses {
			if u.idx >= len(c.Paths) {
				return fmt.Errorf("ref %d rendered as %q: unknown type index %d", i, text, u.idx)
			}
			got[u.idx]++
			path := c.Paths[u.idx]
			if path == c.Target {
				if u.has {
					return fmt.Errorf("ref %d rendered as %q: own-package type T%d is qualified with %q", i, text, u.idx, u.qual)
				}
				continue
			}
			if !u.has {
				return fmt.Errorf("ref %d rendered as %q: foreign type of %q is unqualified", i, text, path)
			}
			if err := validImportName(u.qual); err != nil {
				return fmt.Errorf("ref %d rendered as %q (package %q): %w", i, text, path, err)
			}
			if p, ok := tracker.PathOf(u.qual); !ok || p != path {
				return fmt.Errorf("ref %d rendered as %q: qualifier %q is bound to %q,%v but the type belongs to %q", i, text, u.qual, p, ok, path)
			}
			if ln := tracker.LocalNameOf(path); ln != u.qual {
				return fmt.Errorf("ref %d rendered as %q: qualifier %q differs from LocalNameOf(%q)=%q", i, text, u.qual, path, ln)
			}
		}
		for idx, n := range need {
			if got[idx] != n {
				return fmt.Errorf("ref %d (%+v) rendered as %q: type of path %q appears %d times, want %d", i, r, text, c.Paths[idx], got[idx], n)
			}
		}
		if err := checkImportTable(tracker.Imports(), want); err != nil {
			return fmt.Errorf("after ref %d (%q): %w; imports=%v", i, text, err, tracker.Imports())
		}
	}
	// asking again gives the same names and the same text
	snapshot := map[string]string{}
	for k, v := range tracker.Imports() {
		snapshot[k] = v
	}
	for i := range c.Refs {
		sn := built[i]
		buf.Reset()
		if p := ev.Panics(func() { w.Render(sn) }); p != nil {
			return fmt.Errorf("second rendering of ref %d panics: %v", i, p)
		}
		if buf.String() != texts[i] {
			return fmt.Errorf("ref %d rendered as %q first and %q the second time", i, texts[i], buf.String())
		}
	}
	now := tracker.Imports()
	if len(now) != len(snapshot) {
		return fmt.Errorf("import table changed on re-rendering: %v -> %v", snapshot, now)
	}
	for k, v := range snapshot {
		if now[k] != v {
			return fmt.Errorf("import %q renamed from %q to %q on re-rendering", k, v, now[k])
		}
		if tracker.LocalNameOf(k) != v {
			return fmt.Errorf("LocalNameOf(%q)=%q but Imports() says %q", k, tracker.LocalNameOf(k), v)
		}
	}
	return nil
}

func lastSeg(p string) string {
	s := strings.Split(p, "/")
	return s[len(s)-1]
}

func c3Classes(c c3Case) []string {
	var cl []string
	last := map[string]int{}
	for _, p := range c.Paths {
		l := strings.ToLower(strings.NewReplacer("-", "", "_", "", ".", "").Replace(lastSeg(p)))
		last[l]++
		seg := lastSeg(p)
		if token.Lookup(seg).IsKeyword() {
			cl = append(cl, "keyword-segment")
		}
		if seg != "" && seg[0] >= '0' && seg[0] <= '9' {
			cl = append(cl, "digit-leading-segment")
		}
		if strings.ContainsAny(seg, "-_.") {
			cl = append(cl, "punctuated-segment")
		}
		if p == c.Target {
			cl = append(cl, "own-package")
		}
		if !strings.Contains(p, "/") {
			cl = append(cl, "single-segment")
		}
	}
	for _, n := range last {
		if n >= 2 {
			cl = append(cl, "clashing-last-segment")
			break
		}
	}
	for _, p := range c.Paths {
		for _, s := range c3Std {
			if p != s && lastSeg(p) == lastSeg(s) {
				cl = append(cl, "std-reserved-name")
			}
		}
	}
	sort.Strings(cl)
	out := cl[:0]
	for i, s := range cl {
		if i == 0 || cl[i-1] != s {
			out = append(out, s)
		}
	}
	return out
}

func c3NonTrivial(c c3Case) bool {
	for _, s := range c3Classes(c) {
		switch s {
		case "clashing-last-segment", "keyword-segment", "digit-leading-segment", "std-reserved-name", "punctuated-segment":
			return true
		}
	}
	return false
}

func TestC03(t *testing.T) {
	r := ev.Begin(t, ev.Meta{
		ID:    "C03",
		Level: "exploration",
		Rule: "tracker sub: ordered lists of 1-12 import paths built from a segment pool chosen to collide (std paths, dotted hosts, equal last " +
			"segments, vN, apis/domain, keyword and digit-leading segments, punctuation variants, single segments, the target package), each " +
			"referenced through PkgExpose / ID(string) / ID(*types.TypeName) / generic instantiation / go/types literal; file sub: the same kind " +
			"of packages laid out in a temp module and referenced from a generated file that is then compiled; non-trivial = two paths whose " +
			"natural name collides, or a keyword / digit-leading / punctuated segment, or a std-reserved name; distinct by JSON encoding",
		Assumptions: []string{"type names are unique per path (T<i>/G<i>) so the intended package of a selector is read off the text"},
	})
	defer r.Finish()
	ev.Search(r, ev.Sub[c3Case]{
		Name: "tracker", Gen: genC03Tracker, Oracle: oracleC03Tracker, NonTrivial: c3NonTrivial, Classes: c3Classes,
		Budget: ev.Budget{Quick: 20000, Thorough: 150000}, MinNonTrivial: 0.3,
	})
	c03File(r)
}

// FuzzC03 lets the coverage-guided fuzzer drive the tracker-level generator.
func FuzzC03(f *testing.F) {
	f.Fuzz(rapid.MakeFuzz(ev.FuzzProp("C03", ev.Sub[c3Case]{Name: "tracker", Gen: genC03Tracker, Oracle: oracleC03Tracker})))
}
