package pipe

import (
	"fmt"
	"os"
	"path"
	"path/filepath"
	"sort"
	"strings"
	"testing"

	"pgregory.net/rapid"

	"vt/internal/ev"
	"vt/internal/modspec"
	"vt/internal/script"
)

// ---- C05: output for a package does not depend on what else is generated in the same run ----

type c5Sel struct {
	Entries []string `json:"entries"`
	All     bool     `json:"all,omitempty"`
	// Sib: where the package of the second module stands among the entrypoints: "" (not selected) | first | last
	Sib string `json:"sib,omitempty"`
}

type c5Gen struct {
	Name string `json:"name"`
	Mode string `json:"mode"`
	// State: counter | helper | refs | docecho | plain
	State []string `json:"state"`
	Refs  []string `json:"refs,omitempty"`
	// RotRefs: two packages that compete for one local import name; packages with an even path length reference both, the others only the second
	RotRefs []string `json:"rotrefs,omitempty"`
	// FmtLocal: a reference into the main module (import grouping depends on the module path the formatter is told)
	FmtLocal string `json:"fmtlocal,omitempty"`
	// Quiet: package dirs for whose types this generator renders nothing; Ignore: package dirs where it returns ErrIgnore for
	// the first type and renders nothing (so a previous file of the generator is kept there, and removed in Quiet packages)
	Quiet  []string `json:"quiet,omitempty"`
	Ignore []string `json:"ignore,omitempty"`
	// Alias: the generator also implements AliasGenerator; alias types get the same state-dependent rendering
	Alias bool `json:"alias,omitempty"`
}

type c5Case struct {
	ModCase
	Gens []c5Gen  `json:"gens"`
	Real []string `json:"real,omitempty"`
	Sels []c5Sel  `json:"sels"`
	// Sib: a second module (replace directive) with its own go version; its package can be generated in the same run, and what
	// is generated for a package must not depend on which module's package came first
	Sib *modspec.Mod `json:"sib,omitempty"`
	// DupGen: the first generator is handed to Execute twice (two generators with the same Name())
	DupGen bool `json:"dupgen,omitempty"`
}

var c5ClashRefs = []string{
	"example.com/x/codec.T", "example.com/y/codec.T",
	"text/template.Template", "html/template.Template", "github.com/foo/bar.T", "github.com/other/bar.T", "k8s.io/api/core/v1.Pod", "k8s.io/api/apps/v1.Deployment",
	"example.com/a/util.X", "example.com/b/util.X", "fmt.Stringer", "math/rand.Rand", "crypto/rand.Reader",
}

func genC05(t *rapid.T) c5Case {
	o := modOpts{gens: []string{"zzz"}, minPkgs: 2, maxPkgs: 5, locals: false, tagDensity: 9, pkgTagBias: 9, maxDecls: 3, imports: true, std: true}
	c := c5Case{ModCase: genMod(t, o)}
	names := rapid.SampledFrom([][]string{{"g"}, {"g", "gen"}, {"deep", "a"}, {"x1"}, {"doc", "ab"}}).Draw(t, "gens")
	for _, n := range names {
		g := c5Gen{Name: n, Mode: rapid.SampledFrom([]string{"fixed", "new"}).Draw(t, "mode")}
		for _, st := range []string{"counter", "helper", "refs", "docecho", "memo", "rotrefs", "docforeign", "sharedexpose", "modref", "locate"} {
			if rapid.Bool().Draw(t, "state-"+st) {
				g.State = append(g.State, st)
			}
		}
		if len(g.State) == 0 {
			g.State = []string{"counter"}
		}
		for i := 0; i < rapid.IntRange(1, 3).Draw(t, "nrefs"); i++ {
			g.Refs = append(g.Refs, rapid.SampledFrom(c5ClashRefs).Draw(t, "ref"))
		}
		g.RotRefs = rapid.SampledFrom([][]string{
			{"example.com/x/codec.T", "example.com/y/codec.T"}, {"github.com/foo/bar.T", "github.com/other/bar.T"}, {"example.com/a/util.X", "example.com/b/util.X"},
			{"example.com/y/codec.T", "example.com/x/codec.T"},
			// import paths whose first element has no dot (a module named without a host), competing for one name
			{"corp/x/codec.T", "team/y/codec.T"}, {"team/y/codec.T", "corp/x/codec.T"}, {"kit/log.T", "corp/platform/log.T"},
		}).Draw(t, "rotpair")
		g.Alias = rapid.Bool().Draw(t, "alias")
		for pi := range c.Mod.Pkgs {
			switch rapid.IntRange(0, 7).Draw(t, "pkgbehaviour") {
			case 0:
				g.Quiet = append(g.Quiet, c.Mod.Pkgs[pi].Dir)
			case 1:
				g.Ignore = append(g.Ignore, c.Mod.Pkgs[pi].Dir)
			}
			// the package switches this generator off for itself with a package-level tag (every other package keeps it)
			if rapid.IntRange(0, 7).Draw(t, "switchedoff") == 0 && len(c.Mod.Pkgs[pi].Files) > 0 {
				f := &c.Mod.Pkgs[pi].Files[0]
				f.PkgDoc = append(f.PkgDoc, "+gengo:"+n+"=false")
			}
			// left-overs of earlier runs: a file of this generator, a file of a generator that no longer runs
			if rapid.IntRange(0, 2).Draw(t, "stale") == 0 {
				c.Mod.Pkgs[pi].Other = append(c.Mod.Pkgs[pi].Other, modspec.File{Name: "zz_generated." + n + ".go",
					Data: fmt.Sprintf("package %s\n\nvar _stale_%s_%d = 0\n", c.Mod.Pkgs[pi].Name, n, pi)})
			}
		}
		c.Gens = append(c.Gens, g)
	}
	for pi := range c.Mod.Pkgs {
		if rapid.IntRange(0, 2).Draw(t, "staleold") == 0 {
			c.Mod.Pkgs[pi].Other = append(c.Mod.Pkgs[pi].Other, modspec.File{Name: "zz_generated.old.go", Data: fmt.Sprintf("package %s\n\nvar _stale_old_%d = 0\n", c.Mod.Pkgs[pi].Name, pi)})
		}
	}
	c.DupGen = rapid.IntRange(0, 5).Draw(t, "dupgen") == 0
	switch rapid.IntRange(0, 4).Draw(t, "real") {
	case 0:
		c.Real = []string{"runtimedoc"}
	case 1:
		c.Real = []string{"defaulter", "runtimedoc"}
	case 2:
		c.Real = []string{"deepcopy"}
	}
	if rapid.IntRange(0, 3).Draw(t, "sibling") == 0 {
		c.Mod.Go = rapid.SampledFrom([]string{"1.21", "1.22", "1.24"}).Draw(t, "maingo")
		sib := modspec.Mod{Path: rapid.SampledFrom([]string{"corp/two", "acme.dev/one", "sib"}).Draw(t, "sibpath"), Go: rapid.SampledFrom([]string{"1.12", "1.16", "1.21"}).Draw(t, "sibgo")}
		sib.Pkgs = []modspec.Pkg{{Dir: "pkg", Name: "sibpkg", Files: []modspec.GoFile{{Name: "types.go", Decls: []modspec.Decl{
			{Kind: "struct", Name: "S0", Fields: []modspec.Field{{Names: []string{"A"}, Type: "int"}}}}}}}}
		c.Sib = &sib
		for i := range c.Gens {
			c.Gens[i].State = append(c.Gens[i].State, "fmtsensitive")
			c.Gens[i].FmtLocal = c.Mod.Path + "/internal/util.Helper"
		}
	}
	// selections: singletons, pairs, all orders, and All through some entry
	nsel := rapid.IntRange(2, 5).Draw(t, "nsel")
	for i := 0; i < nsel; i++ {
		perm := rapid.Permutation(c.Mod.Pkgs).Draw(t, "perm")
		k := rapid.IntRange(1, len(perm)).Draw(t, "k")
		if i == 0 {
			k = 1
		}
		var sel c5Sel
		for _, p := range perm[:k] {
			sel.Entries = append(sel.Entries, p.Dir)
		}
		sel.All = rapid.IntRange(0, 3).Draw(t, "all") == 0
		if c.Sib != nil {
			sel.Sib = rapid.SampledFrom([]string{"", "first", "last"}).Draw(t, "sibpos")
		}
		c.Sels = append(c.Sels, sel)
	}
	return c
}

func (g c5Gen) script(c *c5Case) *script.Script {
	s := &script.Script{Name: g.Name, Mode: g.Mode, PerType: map[string]script.Action{}}
	for i := range c.Mod.Pkgs {
		p := &c.Mod.Pkgs[i]
		quiet, ignore := false, false
		for _, d := range g.Quiet {
			quiet = quiet || d == p.Dir
		}
		for _, d := range g.Ignore {
			ignore = ignore || d == p.Dir
		}
		if !quiet && !ignore {
			continue
		}
		pkgLevel, _ := p.Types()
		var names []string
		for _, ti := range pkgLevel {
			names = append(names, ti.Name)
		}
		sort.Strings(names)
		for k, n := range names {
			a := script.Action{}
			if ignore && k == 0 {
				a.Err = "ignore"
			}
			s.PerType[c.Mod.PkgPath(p)+"."+n] = a
		}
	}
	var pieces []script.Piece
	for _, st := range g.State {
		switch st {
		case "counter":
			pieces = append(pieces, script.Piece{Kind: "block", Text: "\nvar _$G_$T_n = $N // call number on this generator instance\n"})
		case "helper":
			pieces = append(pieces, script.Piece{Kind: "block", Text: "\nvar _$G_$T_helper = \"$H\" // helper emitted once per instance\n"})
		case "refs":
			text := "\n"
			for i := range g.Refs {
				text += fmt.Sprintf("var _$G_$T_ref%d @R%d\n\n", i, i)
			}
			pieces = append(pieces, script.Piece{Kind: "t", Text: text, Refs: g.Refs})
		case "docecho":
			pieces = append(pieces, script.Piece{Kind: "docecho"})
		case "memo":
			pieces = append(pieces, script.Piece{Kind: "block", Text: "\nvar _$G_$T_memo = $M // distinct types seen by this generator instance\n"})
		case "rotrefs":
			text := "\n"
			for i := range g.RotRefs {
				text += fmt.Sprintf("var _$G_$T_rot%d @R%d\n\n", i, i)
			}
			pieces = append(pieces, script.Piece{Kind: "t", Text: text, Refs: g.RotRefs, Rotate: true})
		case "modref":
			// a reference to a type of a package of the module whose declared name differs from its directory name; whether a
			// package imports it (or another selected package does) must not change the import name chosen for it
			for i := range c.Mod.Pkgs {
				x := &c.Mod.Pkgs[i]
				if x.Name == "main" || x.Name == path.Base(x.Dir) || (x.Dir == "" && x.Name == path.Base(c.Mod.Path)) {
					continue
				}
				pkgLevel, _ := x.Types()
				for _, ti := range pkgLevel {
					if !ti.Alias && !ti.Shadowed && (ti.Kind == "struct" || ti.Kind == "scalar" || ti.Kind == "map" || ti.Kind == "slice") && ti.Name[0] >= 'A' && ti.Name[0] <= 'Z' {
						pieces = append(pieces, script.Piece{Kind: "t", Text: "\nvar _$G_$T_modref @R0\n", Refs: []string{c.Mod.PkgPath(x) + "." + ti.Name}})
						break
					}
				}
				break
			}
		case "sharedexpose":
			// references through PkgExpose values that the generator keeps in a package-level variable and renders into every file
			pieces = append(pieces, script.Piece{Kind: "sharedexpose", Text: "\nvar _$G_$T_shared0 @R0\n\nvar _$G_$T_shared1 @R1\n", Refs: []string{"strings.Builder", "context.Context"}})
		case "fmtsensitive":
			// text whose formatting depends on the go version and module path of the module it is generated into
			pieces = append(pieces, script.Piece{Kind: "t", Text: "\nvar _$G_$T_mode = 0644\n\nvar _$G_$T_std @R0\n\nvar _$G_$T_local @R1\n", Refs: []string{"errors.New", g.FmtLocal}})
		case "docforeign":
			pieces = append([]script.Piece{{Kind: "docforeign"}}, pieces...)
		case "locate":
			pieces = append(pieces, script.Piece{Kind: "locate"})
		}
	}
	s.Default = script.Action{Render: pieces}
	if g.Alias {
		s.Alias = true
		a := s.Default
		s.OnAlias = &a
	}
	return s
}

func outputsOf(tree modspec.Tree, dir, base string) map[string]string {
	out := map[string]string{}
	for p, v := range tree {
		if modspec.Dir(p) == dir && strings.HasPrefix(path.Base(p), base+".") {
			out[path.Base(p)] = v
		}
	}
	return out
}

func oracleC05(c c5Case) error {
	var dir, snapRoot, prefix string
	if c.Sib == nil {
		dir = tempModule(&c.Mod)
		defer os.RemoveAll(dir)
		snapRoot = dir
	} else {
		root, err := os.MkdirTemp("", "vtmods")
		if err != nil {
			panic("harness: " + err.Error())
		}
		if real, err := filepath.EvalSymlinks(root); err == nil {
			root = real
		}
		defer os.RemoveAll(root)
		dir, snapRoot, prefix = filepath.Join(root, "main"), root, "main/"
		main := c.Mod
		gomod := "module " + main.Path + "\n\ngo " + main.Go + "\n\nrequire " + c.Sib.Path + " v0.0.0\n\nreplace " + c.Sib.Path + " => ../sib\n"
		main.Extra = append(append([]modspec.File{}, main.Extra...), modspec.File{Name: "go.mod", Data: gomod})
		for _, d := range []string{dir, filepath.Join(root, "sib")} {
			if err := os.MkdirAll(d, 0o755); err != nil {
				panic("harness: " + err.Error())
			}
		}
		if err := main.Write(dir); err != nil {
			panic("harness: " + err.Error())
		}
		if err := c.Sib.Write(filepath.Join(root, "sib")); err != nil {
			panic("harness: " + err.Error())
		}
	}
	initial := mustSnapshot(snapRoot)
	globals := map[string][]string{}
	var scripts []*script.Script
	for _, g := range c.Gens {
		globals["gengo:"+g.Name] = []string{""}
		scripts = append(scripts, g.script(&c))
	}
	for _, r := range c.Real {
		globals["gengo:"+r] = []string{""}
	}
	if c.DupGen && len(scripts) > 0 {
		scripts = append(scripts, scripts[0])
	}
	type result struct {
		sel  c5Sel
		outs map[string]map[string]string // dir -> file -> bytes
	}
	var results []result
	for si, sel := range c.Sels {
		if err := initial.Restore(snapRoot); err != nil {
			panic("harness: restore: " + err.Error())
		}
		var entries []string
		for _, e := range sel.Entries {
			entries = append(entries, entry(e))
		}
		switch sel.Sib {
		case "first":
			entries = append([]string{c.Sib.Path + "/pkg"}, entries...)
		case "last":
			entries = append(entries, c.Sib.Path+"/pkg")
		}
		res := script.Run(script.RunSpec{Dir: dir, Entrypoints: entries, All: sel.All, Force: sel.All, Globals: globals, Base: "zz_generated", Scripts: scripts, Real: c.Real})
		if res.LoadErr != "" {
			panic("harness: synthetic module does not load: " + res.LoadErr)
		}
		if res.Panic != "" {
			return fmt.Errorf("selection %d %+v: Execute panics: %s", si, sel, res.Panic)
		}
		if res.Failed {
			return fmt.Errorf("selection %d %+v: Execute failed: %s", si, sel, res.Err)
		}
		after := mustSnapshot(snapRoot)
		processed := sel.Entries
		if sel.All {
			processed = c.closure(sel.Entries)
		}
		r := result{sel: sel, outs: map[string]map[string]string{}}
		for _, d := range processed {
			r.outs[d] = outputsOf(after, path.Join(prefix, d), "zz_generated")
		}
		if sel.Sib != "" {
			r.outs["(second module)/pkg"] = outputsOf(after, "sib/pkg", "zz_generated")
		}
		results = append(results, r)
	}
	for i := range results {
		for j := i + 1; j < len(results); j++ {
			for d, oi := range results[i].outs {
				oj, ok := results[j].outs[d]
				if !ok {
					continue
				}
				names := map[string]bool{}
				for n := range oi {
					names[n] = true
				}
				for n := range oj {
					names[n] = true
				}
				for n := range names {
					if oi[n] != oj[n] {
						return fmt.Errorf("package dir %q, file %s differs between selection %+v and selection %+v: %s", d, n, results[i].sel, results[j].sel, lineDiff([]byte(oi[n]), []byte(oj[n])))
					}
				}
			}
		}
	}
	return nil
}

func c5Features(c c5Case) []string {
	fs := map[string]bool{}
	for _, g := range c.Gens {
		for _, s := range g.State {
			fs["state-"+s] = true
		}
		fs["mode-"+g.Mode] = true
		for _, p := range c.Mod.Pkgs {
			for _, f := range p.Files {
				for _, l := range f.PkgDoc {
					if l == "+gengo:"+g.Name+"=false" {
						fs["package-switches-a-generator-off"] = true
					}
				}
			}
		}
	}
	for _, r := range c.Real {
		fs["real-"+r] = true
	}
	multi := false
	for _, s := range c.Sels {
		if len(s.Entries) >= 2 || s.All {
			multi = true
		}
		if s.All {
			fs["all"] = true
		}
	}
	if multi {
		fs["multi-package-selection"] = true
	}
	if c.DupGen {
		fs["same-generator-twice"] = true
	}
	for _, g := range c.Gens {
		if g.Alias {
			fs["alias-generator"] = true
		}
	}
	if c.Sib != nil {
		fs["second-module"] = true
		for _, s := range c.Sels {
			if s.Sib != "" {
				fs["second-module-selected-"+s.Sib] = true
			}
		}
	}
	out := make([]string, 0, len(fs))
	for k := range fs {
		out = append(out, k)
	}
	sort.Strings(out)
	return out
}

func c5NonTrivial(c c5Case) bool {
	fs := map[string]bool{}
	for _, f := range c5Features(c) {
		fs[f] = true
	}
	return fs["multi-package-selection"] && (fs["state-counter"] || fs["state-helper"] || fs["state-refs"] || fs["state-memo"] || fs["state-rotrefs"] || fs["state-docforeign"] || fs["state-sharedexpose"] || fs["state-modref"] || len(c.Real) > 0)
}

func TestC05(t *testing.T) {
	r := ev.Begin(t, ev.Meta{
		ID:    "C05",
		Level: "exploration",
		Rule: "modules of 2-5 packages x stateful recording generators (per-instance call counter, helper-emitted-once flag, references to clashing import " +
			"paths, echo of doc/tags; created by gengo from the zero value or through a custom New) and the real runtimedoc/defaulter generators, run from the " +
			"same initial tree under 2-5 selections (single package, several in any order, All through an entry); metamorphic oracle: the bytes of a package's " +
			"<base>.* files are identical in every selection that processes it; non-trivial = some selection processes >=2 packages and a generator carries " +
			"per-instance state or clashing imports (or a real generator runs); distinct by JSON encoding",
		Assumptions: []string{"All runs use Force so that the sum cache (C08) does not decide what is processed"},
	})
	defer r.Finish()
	ev.Search(r, ev.Sub[c5Case]{
		Name: "selections", Gen: genC05, Oracle: oracleC05, NonTrivial: c5NonTrivial, Classes: c5Features,
		Budget: ev.Budget{Quick: 100, Thorough: 1500}, MinNonTrivial: 0.4,
	})
}
