package pipe

import (
	"fmt"
	"os"
	"path"
	"path/filepath"
	"sort"
	"strings"
	"testing"
	"time"

	"pgregory.net/rapid"

	"vt/internal/ev"
	"vt/internal/modspec"
	"vt/internal/script"
)

// ---- C04: generation is deterministic and a second run is a fixed point ----

type c4Gen struct {
	Name  string   `json:"name"`
	Mode  string   `json:"mode"`
	Alias bool     `json:"alias,omitempty"`
	Parts []string `json:"parts"` // docecho | valuemap | refs | counter | valuecompete | rotrefs
	// RotPair: which pair of same-named packages the rotrefs part refers to (some packages use both, some only the second)
	RotPair int `json:"rotpair,omitempty"`
	// Behave: "" (renders its parts) | ignore (ErrIgnore for every type, nothing rendered) | quiet (nothing rendered)
	Behave string `json:"behave,omitempty"`
}

type c4Case struct {
	ModCase
	Gens    []c4Gen             `json:"gens"`
	Real    []string            `json:"real,omitempty"`
	Globals map[string][]string `json:"globals,omitempty"`
	Entries []string            `json:"entries"`
	All     bool                `json:"all,omitempty"`
	// Perms: alternative orders of Entries (indexes)
	Perms    [][]int `json:"perms,omitempty"`
	Children int     `json:"children"`
	// Base: OutputFileBaseName; names that sort before the hand-written files (a generated file is then the first file of its package)
	Base string `json:"base,omitempty"`
	// Sib: a second module (replace directive) with an entrypoint package "pkg" (entry "@sib") and a package "dep" that is no
	// entrypoint but imported by the first package of the main module: which packages count as local must not depend on the
	// order of the entrypoints
	Sib bool `json:"sib,omitempty"`
	// Force: All runs also set Force
	Force bool `json:"force,omitempty"`
}

const c4SibPath = "example.org/sib"

func (c c4Case) base() string {
	if c.Base == "" {
		return "zz_generated"
	}
	return c.Base
}

var c4RotPairs = [][]string{
	{"example.com/x/codec.T", "example.com/y/codec.T"}, {"example.com/y/codec.T", "example.com/x/codec.T"},
	{"github.com/foo/bar.T", "github.com/other/bar.T"}, {"example.com/b/util.X", "example.com/a/util.X"},
	{"corp/x/codec.T", "team/y/codec.T"}, {"kit/log.T", "corp/platform/log.T"},
}

var c4Refs = []string{"errors.New", "unicode/utf8.RuneError", "math/bits.Len", "sort.Strings", "unicode.IsSpace", "strconv.Itoa"}

func genC04(t *rapid.T) c4Case {
	names := rapid.SampledFrom([][]string{{"g"}, {"g", "gen"}, {"deep", "deepcopy"}, {"a", "ab", "x1"}, {"doc"}}).Draw(t, "gens")
	o := modOpts{gens: names, minPkgs: 1, maxPkgs: 4, locals: true, tagDensity: 1, pkgTagBias: 1, maxDecls: 8, imports: true}
	c := c4Case{ModCase: genMod(t, o)}
	for _, n := range names {
		g := c4Gen{Name: n, Mode: rapid.SampledFrom([]string{"fixed", "new"}).Draw(t, "mode"), Alias: rapid.Bool().Draw(t, "alias")}
		for _, p := range []string{"docecho", "valuemap", "refs", "counter", "valuecompete", "rotrefs"} {
			// rotrefs refers to packages that do not exist (two pairs competing for one import name): kept to a third of the
			// generators, the later runs then load packages whose generated file has unresolvable imports
			if n := rapid.IntRange(0, 2).Draw(t, "part-"+p); n > 0 && (p != "rotrefs" || n == 2) {
				g.Parts = append(g.Parts, p)
			}
		}
		g.RotPair = rapid.IntRange(0, len(c4RotPairs)-1).Draw(t, "rotpair")
		if len(g.Parts) == 0 {
			g.Parts = []string{"docecho"}
		}
		switch rapid.IntRange(0, 6).Draw(t, "behave") {
		case 0:
			g.Behave = "ignore"
		case 1:
			g.Behave = "quiet"
		}
		c.Gens = append(c.Gens, g)
	}
	switch rapid.IntRange(0, 5).Draw(t, "real") {
	case 0:
		c.Real = []string{"runtimedoc"}
	case 1:
		c.Real = []string{"defaulter"}
	case 2:
		c.Real = []string{"deepcopy"}
	}
	c.Globals = genTagSet(t, names, 0).Map()
	for _, r := range c.Real {
		c.Globals["gengo:"+r] = []string{""}
	}
	perm := rapid.Permutation(c.Mod.Pkgs).Draw(t, "entryorder")
	ne := rapid.IntRange(1, len(perm)).Draw(t, "nentries")
	for i := 0; i < ne; i++ {
		c.Entries = append(c.Entries, perm[i].Dir)
	}
	c.All = rapid.Bool().Draw(t, "all")
	c.Force = c.All && rapid.IntRange(0, 2).Draw(t, "force") == 0
	if rapid.IntRange(0, 3).Draw(t, "sib") == 0 {
		c.Sib = true
		at := rapid.IntRange(0, len(c.Entries)).Draw(t, "sibat")
		c.Entries = append(c.Entries[:at], append([]string{"@sib"}, c.Entries[at:]...)...)
		ne = len(c.Entries)
	}
	if ne >= 2 {
		idx := make([]int, ne)
		for i := range idx {
			idx[i] = i
		}
		for k := 0; k < rapid.IntRange(1, 2).Draw(t, "nperms"); k++ {
			c.Perms = append(c.Perms, rapid.Permutation(idx).Draw(t, "perm"))
		}
	}
	c.Children = rapid.IntRange(0, 1).Draw(t, "children")
	c.Base = rapid.SampledFrom([]string{"zz_generated", "zz_generated", "api_generated", "a", "generated", "doc_generated"}).Draw(t, "base")
	// left-overs of earlier runs (kept by a generator that signals ErrIgnore, removed otherwise - whatever the order of the generators)
	for pi := range c.Mod.Pkgs {
		for _, g := range c.Gens {
			if rapid.IntRange(0, 3).Draw(t, "stale") == 0 {
				c.Mod.Pkgs[pi].Other = append(c.Mod.Pkgs[pi].Other, modspec.File{Name: c.Base + "." + g.Name + ".go",
					Data: fmt.Sprintf("package %s\n\nvar _stale_%s_%d = 0\n", c.Mod.Pkgs[pi].Name, g.Name, pi)})
			}
		}
	}
	return c
}

func (g c4Gen) script() *script.Script {
	s := &script.Script{Name: g.Name, Mode: g.Mode, Alias: g.Alias}
	var pieces []script.Piece
	for _, p := range g.Parts {
		switch p {
		case "docecho":
			pieces = append(pieces, script.Piece{Kind: "docecho"})
		case "valuemap":
			pieces = append(pieces, script.Piece{Kind: "block", Text: "\nvar _$G_$T_map = "}, script.Piece{Kind: "value", Text: `{"zeta":1,"alpha":2,"mid":3,"beta":4,"omega":5,"a b":6,"Z":7}`}, script.Piece{Kind: "block", Text: "\n"})
		case "valuecompete":
			pieces = append(pieces, script.Piece{Kind: "block", Text: "\nvar _$G_$T_table = "}, script.Piece{Kind: "valuecompete"}, script.Piece{Kind: "block", Text: "\n"})
		case "refs":
			text := "\n"
			for i := range c4Refs {
				text += fmt.Sprintf("var _$G_$T_ref%d = @R%d\n\n", i, i)
			}
			pieces = append(pieces, script.Piece{Kind: "t", Text: text, Refs: c4Refs})
		case "counter":
			pieces = append(pieces, script.Piece{Kind: "block", Text: "\nvar _$G_$T_n = $N\n"})
		case "rotrefs":
			refs := c4RotPairs[g.RotPair%len(c4RotPairs)]
			text := "\n"
			for i := range refs {
				text += fmt.Sprintf("var _$G_$T_rot%d *@R%d\n\n", i, i)
			}
			pieces = append(pieces, script.Piece{Kind: "t", Text: text, Refs: refs, Rotate: true})
		}
	}
	s.Default = script.Action{Render: pieces}
	if g.Alias {
		s.OnAlias = &script.Action{Render: []script.Piece{{Kind: "block", Text: "\nvar _$G_$T_alias = $N\n"}}}
	}
	switch g.Behave {
	case "ignore":
		s.Default = script.Action{Err: "ignore"}
		s.OnAlias = nil
	case "quiet":
		s.Default = script.Action{}
		s.OnAlias = nil
	}
	return s
}

func callSig(calls []script.Call) string {
	var b strings.Builder
	for _, c := range calls {
		fmt.Fprintf(&b, "%s %s %s %s.%s | ", c.Kind, c.Gen, c.Pkg, c.TypePkg, c.Type)
	}
	return b.String()
}

// generatedView keeps the generated files and gengo.sum of a snapshot
func generatedView(tree modspec.Tree, base string) map[string]string {
	out := map[string]string{}
	for p, v := range tree {
		if path.Base(p) == "gengo.sum" || strings.HasPrefix(path.Base(p), base+".") {
			out[p] = v
		}
	}
	return out
}

func diffViews(a, b map[string]string) string {
	names := map[string]bool{}
	for n := range a {
		names[n] = true
	}
	for n := range b {
		names[n] = true
	}
	var ks []string
	for n := range names {
		ks = append(ks, n)
	}
	sort.Strings(ks)
	for _, n := range ks {
		av, aok := a[n]
		bv, bok := b[n]
		switch {
		case aok != bok:
			return fmt.Sprintf("%s exists in one run only", n)
		case av != bv:
			return fmt.Sprintf("%s differs: %s", n, lineDiff([]byte(av), []byte(bv)))
		}
	}
	return ""
}

func oracleC04(c c4Case) error {
	var dir, snapRoot string
	if !c.Sib {
		dir = tempModule(&c.Mod)
		defer os.RemoveAll(dir)
		snapRoot = dir
	} else {
		root, err := os.MkdirTemp("", "vtmods")
		if err != nil {
			panic("harness: " + err.Error())
		}
		if real, err := filepath.EvalSymlinks(root); err == nil {
			root = real
		}
		defer os.RemoveAll(root)
		dir, snapRoot = filepath.Join(root, "main"), root
		main := c.Mod
		main.Pkgs = append([]modspec.Pkg{}, c.Mod.Pkgs...)
		first := main.Pkgs[0]
		first.Other = append(append([]modspec.File{}, first.Other...), modspec.File{Name: "zsibdep.go", Data: "package " + first.Name + "\n\nimport _ \"" + c4SibPath + "/dep\"\n"})
		main.Pkgs[0] = first
		gomod := "module " + main.Path + "\n"
		if main.Go != "" {
			gomod += "\ngo " + main.Go + "\n"
		}
		gomod += "\nrequire " + c4SibPath + " v0.0.0\n\nreplace " + c4SibPath + " => ../sib\n"
		main.Extra = append(append([]modspec.File{}, main.Extra...), modspec.File{Name: "go.mod", Data: gomod})
		one := func(n string) []modspec.GoFile {
			return []modspec.GoFile{{Name: "types.go", Decls: []modspec.Decl{{Kind: "struct", Name: n, Fields: []modspec.Field{{Names: []string{"A"}, Type: "int"}}}}}}
		}
		sib := modspec.Mod{Path: c4SibPath, Go: main.Go, Pkgs: []modspec.Pkg{{Dir: "pkg", Name: "sibpkg", Files: one("S0")}, {Dir: "dep", Name: "sibdep", Files: one("D0")}}}
		for _, d := range []string{dir, filepath.Join(root, "sib")} {
			if err := os.MkdirAll(d, 0o755); err != nil {
				panic("harness: " + err.Error())
			}
		}
		if err := main.Write(dir); err != nil {
			panic("harness: " + err.Error())
		}
		if err := sib.Write(filepath.Join(root, "sib")); err != nil {
			panic("harness: " + err.Error())
		}
	}
	entry := func(e string) string {
		if e == "@sib" {
			return c4SibPath + "/pkg"
		}
		return entry(e)
	}
	initial := mustSnapshot(snapRoot)
	var scripts []*script.Script
	for _, g := range c.Gens {
		scripts = append(scripts, g.script())
	}
	spec := func(order []int) script.RunSpec {
		var entries []string
		if order == nil {
			for _, e := range c.Entries {
				entries = append(entries, entry(e))
			}
		} else {
			for _, i := range order {
				entries = append(entries, entry(c.Entries[i]))
			}
		}
		return script.RunSpec{Dir: dir, Entrypoints: entries, All: c.All, Force: c.Force, Globals: c.Globals, Base: c.base(), Scripts: scripts, Real: c.Real}
	}
	check := func(label string, res script.RunResult) error {
		if res.LoadErr != "" {
			panic("harness: synthetic module does not load (" + label + "): " + res.LoadErr)
		}
		if res.Panic != "" {
			return fmt.Errorf("%s: Execute panics: %s", label, res.Panic)
		}
		if res.Failed {
			return fmt.Errorf("%s: Execute failed: %s", label, res.Err)
		}
		return nil
	}
	// reference run
	ref := script.Run(spec(nil))
	if err := check("first run", ref); err != nil {
		return err
	}
	refTree := mustSnapshot(snapRoot)
	refView := generatedView(refTree, c.base())
	refSig := callSig(ref.Calls)
	compare := func(label string, res script.RunResult) error {
		if err := check(label, res); err != nil {
			return err
		}
		v := generatedView(mustSnapshot(snapRoot), c.base())
		if d := diffViews(refView, v); d != "" {
			return fmt.Errorf("%s from the same initial tree gives different output: %s", label, d)
		}
		if s := callSig(res.Calls); s != refSig {
			return fmt.Errorf("%s from the same initial tree sees a different call sequence:\n first: %s\n  this: %s", label, refSig, s)
		}
		return nil
	}
	repeats := 2
	if os.Getenv("VT_TIER") == "thorough" {
		repeats = 5
	}
	for i := 0; i < repeats; i++ {
		if err := initial.Restore(snapRoot); err != nil {
			panic("harness: restore: " + err.Error())
		}
		if err := compare(fmt.Sprintf("repeated run %d", i+2), script.Run(spec(nil))); err != nil {
			return err
		}
	}
	// the same contents checked out somewhere else (gengo.sum is committed and shared between checkouts)
	{
		other, err := os.MkdirTemp("", "vt-another-checkout-location-")
		if err != nil {
			panic("harness: " + err.Error())
		}
		if real, err := filepath.EvalSymlinks(other); err == nil {
			other = real
		}
		defer os.RemoveAll(other)
		if err := initial.Restore(other); err != nil {
			panic("harness: restore: " + err.Error())
		}
		rs := spec(nil)
		rs.Dir = other
		if c.Sib {
			rs.Dir = filepath.Join(other, "main")
		}
		res := script.Run(rs)
		if err := check("run on a second checkout at another path", res); err != nil {
			return err
		}
		if d := diffViews(refView, generatedView(mustSnapshot(other), c.base())); d != "" {
			return fmt.Errorf("the same contents at another absolute path give different output: %s", d)
		}
	}
	for pi, perm := range c.Perms {
		if err := initial.Restore(snapRoot); err != nil {
			panic("harness: restore: " + err.Error())
		}
		if err := compare(fmt.Sprintf("run with entrypoints permuted %v (#%d)", perm, pi), script.Run(spec(perm))); err != nil {
			return err
		}
	}
	// the generator SET is fixed, the order in which the generators are handed to Execute is not part of it
	if len(scripts) >= 2 {
		if err := initial.Restore(snapRoot); err != nil {
			panic("harness: restore: " + err.Error())
		}
		rs := spec(nil)
		rs.Scripts = nil
		for i := len(scripts) - 1; i >= 0; i-- {
			rs.Scripts = append(rs.Scripts, scripts[i])
		}
		res := script.Run(rs)
		if err := check("run with the generators listed in reverse order", res); err != nil {
			return err
		}
		if d := diffViews(refView, generatedView(mustSnapshot(snapRoot), c.base())); d != "" {
			return fmt.Errorf("run with the generators listed in reverse order gives different output: %s", d)
		}
	}
	children := c.Children
	if os.Getenv("VT_TIER") == "thorough" {
		children += 2
	}
	for ci := 0; ci < children; ci++ {
		if err := initial.Restore(snapRoot); err != nil {
			panic("harness: restore: " + err.Error())
		}
		res, exit, stderr := script.RunChild(spec(nil), os.TempDir())
		if exit != 0 {
			panic(fmt.Sprintf("harness: child run exited %d: %s", exit, clip(stderr, 800)))
		}
		if err := compare(fmt.Sprintf("run in a fresh process (#%d)", ci), res); err != nil {
			return err
		}
	}
	// second run on the result: no generated file changes
	if err := initial.Restore(snapRoot); err != nil {
		panic("harness: restore: " + err.Error())
	}
	if err := check("first run (again)", script.Run(spec(nil))); err != nil {
		return err
	}
	after1 := mustSnapshot(snapRoot)
	if err := check("second run on the result", script.Run(spec(nil))); err != nil {
		return err
	}
	after2 := mustSnapshot(snapRoot)
	if c.All && c.Children > 0 {
		// the same second run, made by a fresh process on the result of the first run: what an earlier run in the same
		// process left in memory must not matter (gengo.sum included)
		if err := after1.Restore(snapRoot); err != nil {
			panic("harness: restore: " + err.Error())
		}
		res, exit, stderr := script.RunChild(spec(nil), os.TempDir())
		if exit != 0 {
			panic(fmt.Sprintf("harness: child run exited %d: %s", exit, clip(stderr, 800)))
		}
		if err := check("second run in a fresh process", res); err != nil {
			return err
		}
		for _, ch := range modspec.Diff(after2, mustSnapshot(snapRoot)) {
			return fmt.Errorf("a second run gives a different result in a fresh process than in the process that made the first run: %s %s", ch.Kind, ch.Path)
		}
		if err := after2.Restore(snapRoot); err != nil {
			panic("harness: restore: " + err.Error())
		}
	}
	for _, ch := range modspec.Diff(after1, after2) {
		if path.Base(ch.Path) == "gengo.sum" {
			continue
		}
		return fmt.Errorf("second run on the result of a run %s %s: %s", ch.Kind, ch.Path, lineDiff([]byte(after1[ch.Path]), []byte(after2[ch.Path])))
	}
	if c.All {
		if err := check("third run", script.Run(spec(nil))); err != nil {
			return err
		}
		after3 := mustSnapshot(snapRoot)
		for _, ch := range modspec.Diff(after2, after3) {
			return fmt.Errorf("third run (All) on unchanged inputs %s %s", ch.Kind, ch.Path)
		}
		// the contents decide, not the file times: a source is edited in place and keeps its modification time (restored from a
		// backup, rsync -t, cp -p); the run must give what the same contents give in a fresh checkout whose files are all new
		var rels []string
		for rel := range after3 {
			if strings.HasSuffix(rel, ".go") && !strings.HasPrefix(path.Base(rel), c.base()+".") && (!c.Sib || strings.HasPrefix(rel, "main/")) && strings.HasPrefix(after3[rel], "package ") {
				rels = append(rels, rel)
			}
		}
		sort.Strings(rels)
		if len(rels) > 0 {
			rel := rels[len(c.Entries)%len(rels)]
			fn := filepath.Join(snapRoot, rel)
			fi, err := os.Stat(fn)
			if err != nil {
				panic("harness: " + err.Error())
			}
			if err := os.WriteFile(fn, []byte(after3[rel]+"\ntype ZzEditedInPlace struct {\n\tA int\n}\n"), 0o644); err != nil {
				panic("harness: " + err.Error())
			}
			_ = os.Chtimes(fn, fi.ModTime(), fi.ModTime())
			edited := mustSnapshot(snapRoot)
			resA := script.Run(spec(nil))
			if err := check("run after an in-place edit", resA); err != nil {
				return err
			}
			viewA := generatedView(mustSnapshot(snapRoot), c.base())
			fresh, err := os.MkdirTemp("", "vt-fresh-checkout-")
			if err != nil {
				panic("harness: " + err.Error())
			}
			if real, err := filepath.EvalSymlinks(fresh); err == nil {
				fresh = real
			}
			defer os.RemoveAll(fresh)
			if err := edited.Restore(fresh); err != nil {
				panic("harness: restore: " + err.Error())
			}
			now := time.Now()
			_ = filepath.Walk(fresh, func(p string, info os.FileInfo, err error) error {
				if err != nil || info.IsDir() || info.Mode()&os.ModeSymlink != 0 {
					return nil
				}
				if filepath.Base(p) == "gengo.sum" {
					return os.Chtimes(p, now.Add(-time.Hour), now.Add(-time.Hour))
				}
				return os.Chtimes(p, now, now)
			})
			rs := spec(nil)
			rs.Dir = fresh
			if c.Sib {
				rs.Dir = filepath.Join(fresh, "main")
			}
			resB := script.Run(rs)
			if err := check("run of the edited contents in a fresh checkout", resB); err != nil {
				return err
			}
			if d := diffViews(viewA, generatedView(mustSnapshot(fresh), c.base())); d != "" {
				return fmt.Errorf("after an in-place edit of %s that keeps the file's modification time the run gives other output than the same contents give in a fresh checkout: %s", rel, d)
			}
			if a, b := callSig(resA.Calls), callSig(resB.Calls); a != b {
				return fmt.Errorf("after an in-place edit of %s that keeps the file's modification time the run sees another call sequence than a fresh checkout of the same contents:\n in place: %s\n    fresh: %s", rel, a, b)
			}
		}
	}
	return nil
}

func c4Features(c c4Case) []string {
	fs := map[string]bool{}
	for _, p := range c.Mod.Pkgs {
		pkgLevel, local := p.Types()
		for _, ti := range pkgLevel {
			if ti.Shadowed {
				fs["shadowing-pair"] = true
			}
		}
		if len(local) > 0 {
			fs["local-declarations"] = true
		}
		if len(pkgLevel) >= 8 {
			fs["many-types"] = true
		}
	}
	if len(c.Entries) >= 2 {
		fs["multiple-entrypoints"] = true
	}
	for _, g := range c.Gens {
		for _, p := range g.Parts {
			fs["part-"+p] = true
		}
	}
	for _, r := range c.Real {
		fs["real-"+r] = true
	}
	if c.All {
		fs["all"] = true
	}
	if c.base() < "doc" {
		fs["generated-file-sorts-first"] = true
	}
	if c.Sib {
		fs["second-module-with-non-entrypoint-dependency"] = true
	}
	if c.Force {
		fs["force"] = true
	}
	if c.Children > 0 {
		fs["fresh-process"] = true
	}
	out := make([]string, 0, len(fs))
	for k := range fs {
		out = append(out, k)
	}
	sort.Strings(out)
	return out
}

func c4NonTrivial(c c4Case) bool {
	for _, f := range c4Features(c) {
		switch f {
		case "shadowing-pair", "multiple-entrypoints", "part-valuemap":
			return true
		}
	}
	return false
}

func TestC04(t *testing.T) {
	r := ev.Begin(t, ev.Meta{
		ID:    "C04",
		Level: "exploration",
		Rule: "modules biased to order-sensitive shapes (function-local types / type parameters sharing a package-level name, up to 16 types per package, " +
			"several packages with intra-module imports) x recording generators that print what gengo hands them (type order, doc lines, sorted tags, a 7-key map " +
			"literal, 6 std imports, for a third of them two competing packages of one name, per-instance counter) and the real runtimedoc/defaulter generators x All on/off x global tags; from the same initial tree: 3 " +
			"in-process runs, 0-1 fresh-process run, a run of the same tree restored at another absolute path, 1-2 entrypoint permutations must give byte-identical generated files, gengo.sum and call sequences; then a " +
			"run on the result must change no generated file and (All) a third run nothing at all; non-trivial = shadowing pair | >=2 entrypoints | map literal; " +
			"distinct by JSON encoding",
		Assumptions: []string{"map iteration orders are sampled by repetition, not enumerated"},
	})
	defer r.Finish()
	ev.Search(r, ev.Sub[c4Case]{
		Name: "runs", Gen: genC04, Oracle: oracleC04, NonTrivial: c4NonTrivial, Classes: c4Features,
		Budget: ev.Budget{Quick: 60, Thorough: 400}, MinNonTrivial: 0.4,
	})
}
