package pipe

import (
	"fmt"
	"os"
	"path/filepath"
	"sort"
	"strings"

	"pgregory.net/rapid"

	"vt/internal/modspec"
	"vt/internal/script"
)

// ---- shared generators for the pipe engine ----

// Tag is one tag line as the harness writes it: marker key[=value].
type Tag struct {
	Key   string `json:"key"`
	Value string `json:"value,omitempty"`
	// Form: "=" (key=value) | " " (key value) | "" (bare key; Value must be empty)
	Form   string `json:"form,omitempty"`
	Marker string `json:"marker,omitempty"` // "+" (default) or "@"
}

func (t Tag) Line() string {
	m := t.Marker
	if m == "" {
		m = "+"
	}
	switch t.Form {
	case "=":
		return m + t.Key + "=" + t.Value
	case " ":
		return m + t.Key + " " + t.Value
	}
	return m + t.Key
}

type TagSet []Tag

func (ts TagSet) Lines() []string {
	out := make([]string, len(ts))
	for i, t := range ts {
		out[i] = t.Line()
	}
	return out
}

func (ts TagSet) Map() map[string][]string {
	m := map[string][]string{}
	for _, t := range ts {
		m[t.Key] = append(m[t.Key], t.Value)
	}
	return m
}

// enabled is the reference enablement decision: effective tags = decl over pkg over globals (key-wise);
// an exact `gengo:<name>` key decides (disabled iff its value is "false"), otherwise any `gengo:<name>:<sub>` key enables.
func enabled(gen string, globals map[string][]string, pkg, decl TagSet) bool {
	eff := map[string][]string{}
	for k, v := range globals {
		eff[k] = v
	}
	for k, v := range pkg.Map() {
		eff[k] = v
	}
	for k, v := range decl.Map() {
		eff[k] = v
	}
	exact := "gengo:" + gen
	if v, ok := eff[exact]; ok {
		return strings.Join(v, "") != "false"
	}
	for k := range eff {
		if strings.HasPrefix(k, exact+":") {
			return true
		}
	}
	return false
}

func genTagFor(t *rapid.T, gen string) Tag {
	switch rapid.IntRange(0, 9).Draw(t, "tagkind") {
	case 0, 1, 2:
		return Tag{Key: "gengo:" + gen}
	case 3, 4:
		return Tag{Key: "gengo:" + gen, Value: "false", Form: rapid.SampledFrom([]string{"=", "=", " "}).Draw(t, "form")}
	case 5:
		if rapid.Bool().Draw(t, "blankform") {
			// a blank separates key and value, the value itself holds '=' or blanks: the key ends at whichever comes first
			return Tag{Key: "gengo:" + gen, Value: rapid.SampledFrom([]string{"mode=fast", "interfaces=Object", "a b", "false=no", "x =y"}).Draw(t, "blankval"), Form: " "}
		}
		return Tag{Key: "gengo:" + gen, Value: rapid.SampledFrom([]string{"true", "x", "False", "0", "falsey", "no", "a b", "false x", "k=v"}).Draw(t, "val"), Form: "="}
	case 6:
		return Tag{Key: "gengo:" + gen + ":" + rapid.SampledFrom([]string{"sub", "opt", "interfaces"}).Draw(t, "sub"), Value: rapid.SampledFrom([]string{"", "false", "x"}).Draw(t, "subval"), Form: "="}
	case 7:
		return Tag{Key: "gengo:" + gen + ":" + rapid.SampledFrom([]string{"sub", "opt"}).Draw(t, "sub")}
	case 8:
		// name extended without colon: must not count for gen
		return Tag{Key: "gengo:" + gen + rapid.SampledFrom([]string{"x", "2", "_", "-y"}).Draw(t, "ext")}
	default:
		return Tag{Key: "gengo:" + gen, Marker: "@"}
	}
}

// genTagSet draws tags for the given generator names without repeating a key (repeated keys are outside the asserted domain).
func genTagSet(t *rapid.T, gens []string, density int) TagSet {
	var ts TagSet
	seen := map[string]bool{}
	for _, g := range gens {
		n := 0
		switch rapid.IntRange(0, density).Draw(t, "ntags") {
		case 0:
			n = 1
		case 1:
			if rapid.Bool().Draw(t, "two") {
				n = 2
			}
		}
		for i := 0; i < n; i++ {
			tg := genTagFor(t, g)
			if seen[tg.Key] {
				continue
			}
			seen[tg.Key] = true
			ts = append(ts, tg)
		}
	}
	if rapid.IntRange(0, 5).Draw(t, "other") == 0 {
		ts = append(ts, Tag{Key: "other:tag", Value: "v", Form: "="})
	}
	return ts
}

var docWords = []string{"does things", "is a type", "TODO later", "see Other", "x = y", "a+b", "note: careful", "- item"}

func mixDoc(t *rapid.T, name string, tags TagSet) []string {
	var lines []string
	if rapid.Bool().Draw(t, "hasdoc") {
		if rapid.IntRange(0, 5).Draw(t, "namedtwice") == 0 {
			// the text behind the leading name starts with the name again (only the leading one is the name)
			lines = append(lines, name+" "+name+"-like values, "+name+" for short")
		} else {
			lines = append(lines, name+" "+rapid.SampledFrom(docWords).Draw(t, "docword"))
		}
	}
	tl := tags.Lines()
	// tags may come before or after the prose
	if rapid.Bool().Draw(t, "tagsfirst") {
		lines = append(tl, lines...)
	} else {
		lines = append(lines, tl...)
	}
	if len(lines) > 0 && rapid.IntRange(0, 4).Draw(t, "extra") == 0 {
		lines = append(lines, rapid.SampledFrom(docWords).Draw(t, "docword2"))
	}
	return lines
}

// the pool holds pairs that are equal under case folding (A/a, Item/item, ...): orderings that fold case must still be total
var typeNamePool = []string{"A", "B", "C", "Item", "Node", "Spec", "T1", "T2", "inner", "opts", "X", "Yz", "a", "item", "spec", "Inner", "Opts", "yZ"}
var underlyingPool = map[string][]string{
	"scalar":   {"int", "string", "bool", "float64", "uint8"},
	"map":      {"map[string]int", "map[int]string", "map[string][]string"},
	"slice":    {"[]int", "[]string", "[][]byte"},
	"functype": {"func()", "func(int) string", "func(...string) error"},
	"iface":    {"interface{}", "interface{ M() }", "interface{ String() string }"},
}

// PkgTruth is what the harness knows about a generated package.
type PkgTruth struct {
	Tags  TagSet            `json:"tags,omitempty"`  // package doc tags
	Decl  map[string]TagSet `json:"decl,omitempty"`  // package-level type name -> declaration tags
	Local map[string]TagSet `json:"local,omitempty"` // function-local type name -> tags written on it
}

type ModCase struct {
	Mod   modspec.Mod         `json:"mod"`
	Truth map[string]PkgTruth `json:"truth"` // by package dir
}

type modOpts struct {
	gens       []string // generator names tags are written for
	minPkgs    int
	maxPkgs    int
	locals     bool // function-local declarations and shadowing type parameters
	tagDensity int  // 0 = every type tagged ... larger = sparser
	pkgTagBias int  // 0..: probability weight of package-level tags
	maxDecls   int
	imports    bool // intra-module imports
	std        bool // a quarter of the packages also (blank-)import a package of the standard library
}

var modPaths = []string{"m", "example.com/m", "a.b.c/d-e/f", "example.com/mod/v2", "github.com/Org/repo"}
var goDirectives = []string{"1.18", "1.20", "1.21", "1.21.3", "1.22", "1.23", "1.24", "1.24.2"}
var pkgDirs = []struct{ dir, name string }{
	{"", "root"}, {"a", "a"}, {"b", "beta"}, {"a/sub", "sub"}, {"pkg/x", "x"}, {"internal/y", "why"}, {"cmd/tool", "main"}, {"c-d", "cd"}, {"v1", "v1"},
}

// genericOrAlias: names of the package under construction that cannot be the target of an alias declaration
var genericOrAlias = map[string]bool{}

func genTypeDecl(t *rapid.T, name string, o modOpts, truth *PkgTruth, pkgLevelNames []string, local bool) modspec.Decl {
	kind := rapid.SampledFrom([]string{"struct", "struct", "scalar", "map", "slice", "functype", "iface", "alias", "generic"}).Draw(t, "dkind")
	if local && (kind == "generic") {
		kind = "struct"
	}
	tags := genTagSet(t, o.gens, o.tagDensity)
	d := modspec.Decl{Kind: kind, Name: name, Doc: mixDoc(t, name, tags)}
	switch kind {
	case "struct":
		n := rapid.IntRange(0, 3).Draw(t, "nfields")
		for i := 0; i < n; i++ {
			fld := modspec.Field{Names: []string{fmt.Sprintf("F%d", i)}, Type: rapid.SampledFrom([]string{"int", "string", "[]byte", "map[string]int", "*int"}).Draw(t, "ftype")}
			switch rapid.IntRange(0, 3).Draw(t, "fielddoc") {
			case 0:
				// the text behind the leading field name starts with the name again
				fld.Doc = []string{fmt.Sprintf("F%d F%d-encoded value, F%d for short", i, i, i)}
			case 1:
				fld.Doc = []string{fmt.Sprintf("F%d is field number %d", i, i)}
			}
			d.Fields = append(d.Fields, fld)
		}
	case "alias":
		d.Type = rapid.SampledFrom([]string{"int", "string", "[]int", "struct{}", "error"}).Draw(t, "aliasto")
		// an alias of a defined type of the same package: must still only reach GenerateAliasType
		if !local && len(pkgLevelNames) > 0 && rapid.Bool().Draw(t, "aliasnamed") {
			if tgt := rapid.SampledFrom(pkgLevelNames).Draw(t, "aliastarget"); !genericOrAlias[tgt] {
				d.Type = tgt
			}
		}
		genericOrAlias[name] = true
	case "generic":
		genericOrAlias[name] = true
		d.TP = "T"
		if o.locals && len(pkgLevelNames) > 0 && rapid.Bool().Draw(t, "shadowtp") {
			d.TP = rapid.SampledFrom(pkgLevelNames).Draw(t, "tpname")
		}
	default:
		d.Type = rapid.SampledFrom(underlyingPool[kind]).Draw(t, "under")
	}
	if rapid.IntRange(0, 5).Draw(t, "detached") == 0 {
		d.Detached = []string{"+gengo:" + o.gens[0], "detached comment"}
	}
	if local {
		truth.Local[name] = tags
	} else {
		truth.Decl[name] = tags
	}
	return d
}

func genPkg(t *rapid.T, m *modspec.Mod, idx int, dir, name string, o modOpts, later []string) (modspec.Pkg, PkgTruth) {
	truth := PkgTruth{Decl: map[string]TagSet{}, Local: map[string]TagSet{}}
	genericOrAlias = map[string]bool{}
	p := modspec.Pkg{Dir: dir, Name: name}
	if rapid.IntRange(0, o.pkgTagBias).Draw(t, "pkgtags") == 0 {
		truth.Tags = genTagSet(t, o.gens, 1)
	}
	nfiles := rapid.IntRange(1, 2).Draw(t, "nfiles")
	docFile := rapid.IntRange(0, nfiles-1).Draw(t, "docfile")
	names := append([]string{}, typeNamePool...)
	// shuffle deterministically through rapid
	used := 0
	nextName := func() string {
		if used >= len(names) {
			used++
			return fmt.Sprintf("N%d", used)
		}
		i := rapid.IntRange(used, len(names)-1).Draw(t, "namepick")
		names[used], names[i] = names[i], names[used]
		used++
		return names[used-1]
	}
	var pkgLevel []string
	nfn := 0
	for fi := 0; fi < nfiles; fi++ {
		f := modspec.GoFile{Name: fmt.Sprintf("f%d.go", fi)}
		if fi == 0 && rapid.Bool().Draw(t, "docgo") {
			f.Name = "doc.go"
		}
		if fi == docFile && len(truth.Tags) > 0 {
			f.PkgDoc = append([]string{"Package " + name + " is synthetic."}, truth.Tags.Lines()...)
		} else if rapid.IntRange(0, 3).Draw(t, "plaindoc") == 0 {
			f.PkgDoc = []string{"Package " + name + " has prose only."}
		}
		if nfiles >= 2 && rapid.IntRange(0, 2).Draw(t, "filenote") == 0 {
			// every file's package doc gives its own value for the same (generator-irrelevant) tag key: whichever value is
			// reported for the package must be the same in every run
			f.PkgDoc = append(f.PkgDoc, "+vt:note="+f.Name)
		}
		if rapid.IntRange(0, 4).Draw(t, "header") == 0 {
			f.Header = []string{"Copyright header", "+gengo:" + o.gens[0]}
		}
		if o.std && fi == 0 && rapid.IntRange(0, 3).Draw(t, "stdimport") == 0 {
			f.Imports = append(f.Imports, rapid.SampledFrom([]string{"time", "errors", "sort"}).Draw(t, "stdpkg")) // blank import of a standard library package
		}
		if o.imports && fi == 0 {
			for _, l := range later {
				if rapid.IntRange(0, 2).Draw(t, "imp") == 0 {
					f.Imports = append(f.Imports, l)
				}
			}
		}
		nd := rapid.IntRange(1, o.maxDecls).Draw(t, "ndecls")
		for di := 0; di < nd; di++ {
			k := rapid.IntRange(0, 11).Draw(t, "declshape")
			switch {
			case k <= 5:
				n := nextName()
				f.Decls = append(f.Decls, genTypeDecl(t, n, o, &truth, pkgLevel, false))
				pkgLevel = append(pkgLevel, n)
			case k == 6:
				g := modspec.Decl{Kind: "group"}
				if rapid.Bool().Draw(t, "groupdoc") {
					g.Doc = []string{"group doc", "+gengo:" + o.gens[0]}
				}
				for gi := 0; gi < rapid.IntRange(1, 3).Draw(t, "ngroup"); gi++ {
					n := nextName()
					d := genTypeDecl(t, n, o, &truth, pkgLevel, false)
					d.Detached = nil
					g.Group = append(g.Group, d)
					pkgLevel = append(pkgLevel, n)
				}
				f.Decls = append(f.Decls, g)
			case k <= 8 && o.locals:
				nfn++
				fn := modspec.Decl{Kind: "func", Name: fmt.Sprintf("fn%d_%d", fi, nfn), AsVar: rapid.IntRange(0, 3).Draw(t, "asvar") == 0}
				if k == 8 && len(pkgLevel) > 0 {
					fn.Kind = "genericfunc"
					fn.TP = "T"
					if rapid.IntRange(0, 2).Draw(t, "shadowfn") > 0 {
						fn.TP = rapid.SampledFrom(pkgLevel).Draw(t, "fntp")
					}
				}
				for li := 0; li < rapid.IntRange(0, 2).Draw(t, "nlocals"); li++ {
					ln := fmt.Sprintf("local%d_%d", nfn, li)
					if len(pkgLevel) > 0 && rapid.Bool().Draw(t, "shadowlocal") {
						ln = rapid.SampledFrom(pkgLevel).Draw(t, "localname")
						if ln == fn.TP {
							ln = fmt.Sprintf("local%d_%d", nfn, li)
						}
					}
					dup := false
					for _, e := range fn.Locals {
						if e.Name == ln {
							dup = true
						}
					}
					if dup {
						continue
					}
					fn.Locals = append(fn.Locals, genTypeDecl(t, ln, o, &truth, nil, true))
				}
				f.Decls = append(f.Decls, fn)
			case k == 9:
				nfn++
				f.Decls = append(f.Decls, modspec.Decl{Kind: "const", Name: fmt.Sprintf("c%d_%d", fi, nfn), Value: "1", Doc: []string{"+gengo:" + o.gens[0]}})
			case k == 10:
				nfn++
				f.Decls = append(f.Decls, modspec.Decl{Kind: "var", Name: fmt.Sprintf("v%d_%d", fi, nfn), Type: "int"})
			default:
				n := nextName()
				f.Decls = append(f.Decls, genTypeDecl(t, n, o, &truth, pkgLevel, false))
				pkgLevel = append(pkgLevel, n)
			}
		}
		if rapid.IntRange(0, 7).Draw(t, "buildconstraint") == 0 {
			f.Build = "!vtnever" // a build constraint that is satisfied
		}
		if len(f.Decls) > 0 && rapid.IntRange(0, 5).Draw(t, "linedirective") == 0 {
			// a //line directive (goyacc, template compilers, cgo): declarations below it report positions in another file
			at := rapid.IntRange(0, len(f.Decls)-1).Draw(t, "lineat")
			ld := modspec.Decl{Kind: "raw", Text: fmt.Sprintf("//line zz_grammar_%d.y:%d", fi, rapid.SampledFrom([]int{1, 100, 5000}).Draw(t, "lineno"))}
			f.Decls = append(f.Decls[:at], append([]modspec.Decl{ld}, f.Decls[at:]...)...)
		}
		p.Files = append(p.Files, f)
	}
	// local declarations that reuse a name must not inherit a truth entry from the package level
	return p, truth
}

func genMod(t *rapid.T, o modOpts) ModCase {
	mc := ModCase{Truth: map[string]PkgTruth{}}
	mc.Mod.Path = rapid.SampledFrom(modPaths).Draw(t, "modpath")
	mc.Mod.Go = rapid.SampledFrom(goDirectives).Draw(t, "go")
	np := rapid.IntRange(o.minPkgs, o.maxPkgs).Draw(t, "npkgs")
	// choose distinct dirs
	idxs := make([]int, len(pkgDirs))
	for i := range idxs {
		idxs[i] = i
	}
	var chosen []int
	for i := 0; i < np; i++ {
		j := rapid.IntRange(i, len(idxs)-1).Draw(t, "dirpick")
		idxs[i], idxs[j] = idxs[j], idxs[i]
		chosen = append(chosen, idxs[i])
	}
	// packages may import later ones (a DAG); package main is never imported
	for i, ci := range chosen {
		var later []string
		for _, cj := range chosen[i+1:] {
			if pkgDirs[cj].name != "main" && !strings.HasPrefix(pkgDirs[cj].dir, "internal") {
				pp := mc.Mod.Path
				if pkgDirs[cj].dir != "" {
					pp += "/" + pkgDirs[cj].dir
				}
				later = append(later, pp)
			}
		}
		p, truth := genPkg(t, &mc.Mod, i, pkgDirs[ci].dir, pkgDirs[ci].name, o, later)
		mc.Mod.Pkgs = append(mc.Mod.Pkgs, p)
		mc.Truth[p.Dir] = truth
	}
	return mc
}

// entry returns the entrypoint pattern for a package dir, relative to the module root.
func entry(dir string) string {
	if dir == "" {
		return "."
	}
	return "./" + dir
}

// closure returns the dirs of the packages reachable from the given dirs through intra-module imports (incl. themselves), sorted.
func (mc *ModCase) closure(dirs []string) []string {
	seen := map[string]bool{}
	var visit func(dir string)
	visit = func(dir string) {
		if seen[dir] {
			return
		}
		p := mc.Mod.PkgByDir(dir)
		if p == nil {
			return
		}
		seen[dir] = true
		for _, f := range p.Files {
			for _, imp := range f.Imports {
				path := imp
				if i := strings.Index(imp, " "); i >= 0 {
					path = imp[i+1:]
				}
				if q := mc.Mod.PkgByPath(path); q != nil {
					visit(q.Dir)
				}
			}
		}
	}
	for _, d := range dirs {
		visit(d)
	}
	out := make([]string, 0, len(seen))
	for d := range seen {
		out = append(out, d)
	}
	sort.Strings(out)
	return out
}

// tempModule writes the module into a fresh directory and returns its (symlink-free) path.
func tempModule(m *modspec.Mod) string {
	dir, err := os.MkdirTemp("", "vtmod")
	if err != nil {
		panic("harness: " + err.Error())
	}
	if real, err := filepath.EvalSymlinks(dir); err == nil {
		dir = real
	}
	if err := m.Write(dir); err != nil {
		os.RemoveAll(dir)
		panic("harness: " + err.Error())
	}
	return dir
}

func mustSnapshot(dir string) modspec.Tree {
	tr, err := modspec.Snapshot(dir)
	if err != nil {
		panic("harness: snapshot: " + err.Error())
	}
	return tr
}

// simple rendering action used by several checks: one method-free declaration per type, unique per (generator, type)
func declPiece() script.Piece {
	return script.Piece{Kind: "block", Text: "\nvar _$G$T = 0 // $T by $G\n"}
}
