package pipe

import (
	"os"
	"testing"

	"vt/internal/script"
)

func TestMain(m *testing.M) {
	script.InitEnv()
	script.ChildMain()
	os.Exit(m.Run())
}
