package pipe

import (
	"fmt"
	"os"
	"path/filepath"
	"sort"
	"strings"
	"testing"

	"pgregory.net/rapid"

	"vt/internal/ev"
	"vt/internal/script"
)

// ---- C06: GenerateType is called exactly for the enabled package-level named types ----

type c6Gen struct {
	Name   string `json:"name"`
	Mode   string `json:"mode"`
	Alias  bool   `json:"alias,omitempty"`
	Defers int    `json:"defers,omitempty"` // callbacks registered per GenerateType call
	// DeferOnly: GenerateType renders nothing itself, everything comes from the callbacks (which must still reach the file)
	DeferOnly bool `json:"deferonly,omitempty"`
	// NewDefer (mode new): New(c) registers a Defer callback of its own
	NewDefer bool `json:"newdefer,omitempty"`
	Nested   bool `json:"nested,omitempty"` // the first callback registers further callbacks from inside
	Peek     bool `json:"peek,omitempty"`   // asks Context.Doc about the types of imported packages before rendering
	// Returns: what GenerateType returns: "" (nil for every type) | skip-some | ignore-some | wrapignore-some (for every second type by name);
	// whatever it returns, every enabled type must still be handed over exactly once
	Returns string `json:"returns,omitempty"`
}

type c6Case struct {
	ModCase
	Gens    []c6Gen             `json:"gens"`
	Globals map[string][]string `json:"globals,omitempty"`
	Entries []string            `json:"entries"` // package dirs
	All     bool                `json:"all,omitempty"`
}

var c6NameSets = [][]string{
	{"g", "gen"}, {"deep", "deepcopy"}, {"a", "ab"}, {"gen", "g"}, {"deepcopy", "deep"}, {"x1"}, {"g"}, {"doc", "deep", "deepcopy"}, {"a", "ab", "x1"},
}

func genC06(t *rapid.T) c6Case {
	names := rapid.SampledFrom(c6NameSets).Draw(t, "names")
	o := modOpts{gens: names, minPkgs: 1, maxPkgs: 3, locals: true, tagDensity: 2, pkgTagBias: 1, maxDecls: 5, imports: true, std: true}
	c := c6Case{ModCase: genMod(t, o)}
	for _, n := range names {
		g := c6Gen{Name: n, Mode: "fixed", Alias: rapid.Bool().Draw(t, "alias"), Defers: rapid.IntRange(0, 2).Draw(t, "defers")}
		g.Nested = g.Defers > 0 && rapid.IntRange(0, 2).Draw(t, "nesteddefer") == 0
		g.DeferOnly = g.Defers > 0 && rapid.IntRange(0, 3).Draw(t, "deferonly") == 0
		g.Peek = rapid.IntRange(0, 2).Draw(t, "peek") == 0
		g.Returns = rapid.SampledFrom([]string{"", "", "skip-some", "ignore-some", "wrapignore-some"}).Draw(t, "returns")
		if rapid.IntRange(0, 2).Draw(t, "mode") == 0 {
			g.Mode = "new"
			g.NewDefer = rapid.IntRange(0, 2).Draw(t, "newdefer") == 0
		}
		c.Gens = append(c.Gens, g)
	}
	if rapid.IntRange(0, 2).Draw(t, "globals") == 0 {
		c.Globals = genTagSet(t, names, 1).Map()
		if len(c.Globals) == 0 {
			c.Globals = nil
		}
		// a caller may hand over a key without any value (nil or an empty list): present, and not "false"
		keys := make([]string, 0, len(c.Globals))
		for k := range c.Globals {
			keys = append(keys, k)
		}
		sort.Strings(keys)
		for _, k := range keys {
			if v := c.Globals[k]; len(v) == 1 && v[0] == "" {
				switch rapid.IntRange(0, 3).Draw(t, "novalue") {
				case 0:
					c.Globals[k] = nil
				case 1:
					c.Globals[k] = []string{}
				}
			}
		}
	}
	ne := rapid.IntRange(1, len(c.Mod.Pkgs)).Draw(t, "nentries")
	perm := rapid.Permutation(c.Mod.Pkgs).Draw(t, "entryorder")
	for i := 0; i < ne; i++ {
		c.Entries = append(c.Entries, perm[i].Dir)
	}
	c.All = rapid.Bool().Draw(t, "all")
	return c
}

type callKey struct {
	gen, pkg, typ, kind string
}

func (c *c6Case) processedDirs() []string {
	if c.All {
		return c.closure(c.Entries)
	}
	out := append([]string{}, c.Entries...)
	sort.Strings(out)
	return out
}

func (c *c6Case) expectedCalls() map[callKey]int {
	want := map[callKey]int{}
	for _, dir := range c.processedDirs() {
		p := c.Mod.PkgByDir(dir)
		truth := c.Truth[dir]
		pkgLevel, _ := p.Types()
		pp := c.Mod.PkgPath(p)
		for _, g := range c.Gens {
			for _, ti := range pkgLevel {
				if !enabled(g.Name, c.Globals, truth.Tags, truth.Decl[ti.Name]) {
					continue
				}
				if ti.Alias {
					if g.Alias {
						want[callKey{g.Name, pp, ti.Name, "alias"}]++
					}
					continue
				}
				want[callKey{g.Name, pp, ti.Name, "type"}]++
			}
		}
	}
	return want
}

func (c *c6Case) scripts() []*script.Script {
	var out []*script.Script
	for _, g := range c.Gens {
		s := &script.Script{Name: g.Name, Mode: g.Mode, Alias: g.Alias}
		s.Default = script.Action{Render: []script.Piece{{Kind: "block", Text: "\nvar _$G_$T = 0\n"}}}
		if g.DeferOnly {
			s.Default.Render = nil
		}
		if g.Peek {
			s.Default.Render = append([]script.Piece{{Kind: "docforeign"}}, s.Default.Render...)
		}
		for i := 0; i < g.Defers; i++ {
			d := script.DeferAction{Render: []script.Piece{{Kind: "block", Text: fmt.Sprintf("\nvar _$G_$T_defer%d = 0\n", i)}}}
			if g.Nested && i == 0 {
				// the first callback registers two more while it runs, the second of which registers a third level
				d.Then = []script.DeferAction{
					{Render: []script.Piece{{Kind: "block", Text: "\nvar _$G_$T_nested_a = 0\n"}}},
					{Render: []script.Piece{{Kind: "block", Text: "\nvar _$G_$T_nested_b = 0\n"}}, Then: []script.DeferAction{{Render: []script.Piece{{Kind: "block", Text: "\nvar _$G_$T_nested_c = 0\n"}}}}},
				}
			}
			s.Default.Defers = append(s.Default.Defers, d)
		}
		if g.NewDefer && g.Mode == "new" {
			s.NewDefer = []script.Piece{{Kind: "block", Text: "\nvar _$G_registered_in_New = 0\n"}}
		}
		if g.Returns != "" {
			s.PerType = map[string]script.Action{}
			errKind := strings.TrimSuffix(g.Returns, "-some")
			for i := range c.Mod.Pkgs {
				p := &c.Mod.Pkgs[i]
				pkgLevel, _ := p.Types()
				var names []string
				for _, ti := range pkgLevel {
					names = append(names, ti.Name)
				}
				sort.Strings(names)
				for k, n := range names {
					if k%2 == 0 {
						a := s.Default
						a.Err = errKind
						s.PerType[c.Mod.PkgPath(p)+"."+n] = a
					}
				}
			}
		}
		out = append(out, s)
	}
	return out
}

func oracleC06(c c6Case) error {
	dir := tempModule(&c.Mod)
	defer os.RemoveAll(dir)
	var entries []string
	for _, e := range c.Entries {
		entries = append(entries, entry(e))
	}
	res := script.Run(script.RunSpec{Dir: dir, Entrypoints: entries, All: c.All, Globals: c.Globals, Base: "zz_generated", Scripts: c.scripts()})
	if res.LoadErr != "" {
		panic("harness: synthetic module does not load: " + res.LoadErr)
	}
	if res.Panic != "" {
		return fmt.Errorf("Execute panics: %s", res.Panic)
	}
	if res.Failed {
		return fmt.Errorf("Execute failed on a valid module: %s", res.Err)
	}
	want := c.expectedCalls()
	got := map[callKey]int{}
	lastType := map[[2]string]int{}   // (gen,pkg) -> seq of the last type/alias call
	registered := map[[2]string]int{} // (gen,pkg) -> number of callbacks registered
	deferCount := map[string]int{}
	registeredIDs := map[int]string{}
	ranIDs := map[int]int{}
	gensByName := map[string]c6Gen{}
	for _, g := range c.Gens {
		gensByName[g.Name] = g
	}
	for _, call := range res.Calls {
		gp := [2]string{call.Gen, call.Pkg}
		switch call.Kind {
		case "type", "alias":
			if call.TypePkg != call.Pkg {
				return fmt.Errorf("generator %s processing %s was handed type %s.%s of another package", call.Gen, call.Pkg, call.TypePkg, call.Type)
			}
			if !call.PkgScope {
				return fmt.Errorf("generator %s was handed %s.%s which is not declared at package scope (function-local type or type parameter)", call.Gen, call.TypePkg, call.Type)
			}
			if (call.Kind == "alias") != call.IsAlias {
				return fmt.Errorf("generator %s: %s.%s alias=%v was delivered through the %s entry point", call.Gen, call.TypePkg, call.Type, call.IsAlias, call.Kind)
			}
			got[callKey{call.Gen, call.Pkg, call.Type, call.Kind}]++
			lastType[gp] = call.Seq
		case "register":
			registered[gp]++
			registeredIDs[call.DeferIdx] = fmt.Sprintf("%s|%s|%s", call.Gen, call.Pkg, call.Type)
		case "defer":
			deferCount[fmt.Sprintf("%s|%s|%s|%d", call.Gen, call.Pkg, call.Type, call.DeferIdx)]++
			ranIDs[call.DeferIdx]++
			if !call.FileUnchanged {
				return fmt.Errorf("Defer callback of %s in %s ran after the output file had been written", call.Gen, call.Pkg)
			}
		}
	}
	for k, n := range want {
		if got[k] != n {
			return fmt.Errorf("generator %q, package %s: %s %s delivered %d times, want %d (calls: %s)", k.gen, k.pkg, k.kind, k.typ, got[k], n, summarize(res.Calls))
		}
	}
	for k, n := range got {
		if want[k] == 0 {
			return fmt.Errorf("generator %q, package %s: unexpected %s call for %s (x%d); it is not enabled / not a package-level defined type (calls: %s)", k.gen, k.pkg, k.kind, k.typ, n, summarize(res.Calls))
		}
	}
	// Defer callbacks: exactly once each, after the last GenerateType of that (package, generator)
	ran := map[[2]string]int{}
	for _, call := range res.Calls {
		if call.Kind != "defer" {
			continue
		}
		gp := [2]string{call.Gen, call.Pkg}
		ran[gp]++
		if call.Seq < lastType[gp] {
			return fmt.Errorf("Defer callback of %s in %s ran before a later GenerateType call of the same package", call.Gen, call.Pkg)
		}
	}
	for k, n := range deferCount {
		if n != 1 {
			return fmt.Errorf("Defer callback %s ran %d times", k, n)
		}
	}
	for gp, n := range registered {
		if ran[gp] != n {
			return fmt.Errorf("generator %s in %s registered %d Defer callbacks (nested registrations included), %d ran", gp[0], gp[1], n, ran[gp])
		}
	}
	for id, who := range registeredIDs {
		if ranIDs[id] != 1 {
			return fmt.Errorf("Defer callback #%d (%s) ran %d times", id, who, ranIDs[id])
		}
	}
	// "before its file is written": what a callback rendered is in the generator's file
	for _, call := range res.Calls {
		if call.Kind != "defer" || strings.TrimSpace(call.Rendered) == "" {
			continue
		}
		fn := filepath.Join(dir, filepath.FromSlash(strings.TrimPrefix(strings.TrimPrefix(call.Pkg, c.Mod.Path), "/")), "zz_generated."+call.Gen+".go")
		b, err := os.ReadFile(fn)
		if err != nil {
			return fmt.Errorf("a Defer callback of %s in %s rendered %q, but the generator's file does not exist afterwards: %v", call.Gen, call.Pkg, call.Rendered, err)
		}
		if !strings.Contains(string(b), strings.TrimSpace(call.Rendered)) {
			return fmt.Errorf("a Defer callback of %s in %s rendered %q, which is not in %s (the callback ran after the file was written, or its output was dropped)", call.Gen, call.Pkg, call.Rendered, fn)
		}
	}
	return nil
}

func summarize(calls []script.Call) string {
	var parts []string
	for _, c := range calls {
		if c.Kind == "new" || c.Kind == "register" {
			continue
		}
		parts = append(parts, fmt.Sprintf("%s:%s(%s)", c.Gen, c.Kind, c.Type))
	}
	if len(parts) > 40 {
		parts = append(parts[:40], "...")
	}
	return strings.Join(parts, " ")
}

func c6Features(c c6Case) []string {
	var fs []string
	levels := 0
	hasLocal, hasShadow, hasAlias, hasGeneric := false, false, false, false
	verdictConflict := false
	for _, p := range c.Mod.Pkgs {
		truth := c.Truth[p.Dir]
		pkgLevel, local := p.Types()
		if len(local) > 0 {
			hasLocal = true
		}
		for _, ti := range pkgLevel {
			if ti.Shadowed {
				hasShadow = true
			}
			if ti.Alias {
				hasAlias = true
			}
			if ti.Generic {
				hasGeneric = true
			}
			for _, g := range c.Gens {
				vs := map[bool]bool{}
				n := 0
				if len(c.Globals) > 0 {
					if hasGenKey(c.Globals, g.Name) {
						vs[enabled(g.Name, c.Globals, nil, nil)] = true
						n++
					}
				}
				if hasGenKey(truth.Tags.Map(), g.Name) {
					vs[enabled(g.Name, nil, truth.Tags, nil)] = true
					n++
				}
				if hasGenKey(truth.Decl[ti.Name].Map(), g.Name) {
					vs[enabled(g.Name, nil, nil, truth.Decl[ti.Name])] = true
					n++
				}
				if n >= 2 {
					levels = 2
					if len(vs) == 2 {
						verdictConflict = true
					}
				}
			}
		}
	}
	if verdictConflict {
		fs = append(fs, "tag-levels-disagree")
	}
	if levels >= 2 {
		fs = append(fs, "tag-at-2-levels")
	}
	if hasLocal {
		fs = append(fs, "local-or-typeparam")
	}
	if hasShadow {
		fs = append(fs, "shadowed-package-level-name")
	}
	if hasAlias {
		fs = append(fs, "alias")
	}
	if hasGeneric {
		fs = append(fs, "generic")
	}
	for i := range c.Gens {
		for j := range c.Gens {
			if i != j && strings.HasPrefix(c.Gens[j].Name, c.Gens[i].Name) {
				fs = append(fs, "prefix-related-generators")
			}
		}
	}
	if c.All {
		fs = append(fs, "all")
	}
	sort.Strings(fs)
	out := fs[:0]
	for i, s := range fs {
		if i == 0 || fs[i-1] != s {
			out = append(out, s)
		}
	}
	return out
}

func hasGenKey(m map[string][]string, gen string) bool {
	for k := range m {
		if k == "gengo:"+gen || strings.HasPrefix(k, "gengo:"+gen+":") {
			return true
		}
	}
	return false
}

func c6NonTrivial(c c6Case) bool {
	for _, f := range c6Features(c) {
		switch f {
		case "tag-levels-disagree", "local-or-typeparam", "shadowed-package-level-name", "prefix-related-generators":
			return true
		}
	}
	return false
}

func TestC06(t *testing.T) {
	r := ev.Begin(t, ev.Meta{
		ID:    "C06",
		Level: "exploration",
		Rule: "synthetic modules (1-3 packages, every declaration kind: defined struct/scalar/map/slice/func/interface types, aliases, generics, grouped " +
			"declarations, function-local types and constants reusing package-level names, type parameters reusing package-level names) with tag lines " +
			"gengo:<n>, =false, =true/x, :<sub>[=v], extended names, '@' marker at global / package-doc / declaration level, run with 1-3 recording " +
			"generators whose names include prefix pairs (g/gen, deep/deepcopy, a/ab), with and without New / AliasGenerator / Defer (from GenerateType, from callbacks, from inside New), global keys with a value, without one, nil or empty; expected calls come " +
			"from a reference enablement lattice over the harness's own spec; non-trivial = tag levels with different verdicts, or a local/shadowing " +
			"declaration, or prefix-related generator names; distinct by JSON encoding of the case",
		Assumptions: []string{
			"a key is never repeated within one comment; package tags live in one file per package; call order is not asserted",
			"'after the package's last GenerateType' is read per (package, generator)",
		},
	})
	defer r.Finish()
	ev.Search(r, ev.Sub[c6Case]{
		Name: "calls", Gen: genC06, Oracle: oracleC06, NonTrivial: c6NonTrivial, Classes: c6Features,
		Budget: ev.Budget{Quick: 250, Thorough: 4000}, MinNonTrivial: 0.3,
	})
}
