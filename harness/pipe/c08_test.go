package pipe

import (
	"bytes"
	"crypto/sha256"
	"encoding/base64"
	"fmt"
	"io"
	"os"
	"path/filepath"
	"sort"
	"strings"
	"testing"

	"github.com/octohelm/gengo/pkg/sumfile"
	"golang.org/x/mod/sumdb/dirhash"
	"pgregory.net/rapid"

	"vt/internal/ev"
	"vt/internal/modspec"
	"vt/internal/script"
)

// ---- C08: the gengo.sum cache never skips a package whose directory changed ----

type c8Step struct {
	// Op: editgo addgo delgo addtxt edittxt deltxt addnested delsum corrupt run runforce runfail runsubset runnoall symlink rmsymlink
	Op  string `json:"op"`
	P   int    `json:"p"`             // package index (modulo)
	Arg int    `json:"arg,omitempty"` // file index / corruption kind / byte offset (modulo)
	How string `json:"how,omitempty"` // corruption kind
}

type c8Case struct {
	Mod   modspec.Mod `json:"mod"`
	Steps []c8Step    `json:"steps"`
	// Big: every package directory starts with a big.dat of this many bytes (0: none); editbig changes one byte near its end
	Big int `json:"big,omitempty"`
}

var c8Dirs = []struct{ dir, name string }{{"", "root"}, {"a", "a"}, {"a/sub", "sub"}, {"b", "beta"}, {"c", "c"}}
var c8Corruptions = []string{"empty", "garbage", "truncate", "stale", "extracols", "drop", "swap", "dupline", "crlf", "nonewline", "blankhash", "comment"}

func genC08(t *rapid.T) c8Case {
	c := c8Case{}
	c.Mod.Path = rapid.SampledFrom([]string{"m", "example.com/m"}).Draw(t, "modpath")
	c.Mod.Go = "1.21"
	np := rapid.IntRange(2, 4).Draw(t, "npkgs")
	idx := rapid.Permutation([]int{0, 1, 2, 3, 4}).Draw(t, "dirs")[:np]
	sort.Ints(idx)
	if rapid.Bool().Draw(t, "rootlast") && idx[0] == 0 {
		idx = append(idx[1:], 0)
	}
	for i, di := range idx {
		d := c8Dirs[di]
		p := modspec.Pkg{Dir: d.dir, Name: d.name}
		f := modspec.GoFile{Name: "types.go", Decls: []modspec.Decl{{Kind: "struct", Name: fmt.Sprintf("T%d", i), Fields: []modspec.Field{{Names: []string{"A"}, Type: "int"}}}}}
		p.Files = append(p.Files, f)
		c.Mod.Pkgs = append(c.Mod.Pkgs, p)
	}
	// the first package imports all others, so that it is an entry whose closure is the module
	for i := 1; i < len(c.Mod.Pkgs); i++ {
		c.Mod.Pkgs[0].Files[0].Imports = append(c.Mod.Pkgs[0].Files[0].Imports, c.Mod.PkgPath(&c.Mod.Pkgs[i]))
		for j := i + 1; j < len(c.Mod.Pkgs); j++ {
			if rapid.IntRange(0, 2).Draw(t, "imp") == 0 {
				c.Mod.Pkgs[i].Files[0].Imports = append(c.Mod.Pkgs[i].Files[0].Imports, c.Mod.PkgPath(&c.Mod.Pkgs[j]))
			}
		}
	}
	if rapid.IntRange(0, 3).Draw(t, "oldsum") == 0 {
		c.Mod.Extra = append(c.Mod.Extra, modspec.File{Name: "gengo.sum", Data: c.Mod.Path + " h1:old=\n"})
	}
	if rapid.Bool().Draw(t, "hasbig") {
		c.Big = rapid.SampledFrom([]int{4096, 65536, 65537, 70000, 131072, 200000}).Draw(t, "bigsize")
	}
	n := rapid.IntRange(3, 14).Draw(t, "nsteps")
	for i := 0; i < n; i++ {
		var s c8Step
		switch rapid.IntRange(0, 22).Draw(t, "stepkind") {
		case 20, 21:
			s.Op = "editbig"
		case 22:
			s.Op = "editkeep"
		case 0, 1, 2, 3, 4, 5:
			s.Op = "run"
		case 6:
			s.Op = "runforce"
		case 7:
			s.Op = "runfail"
		case 8:
			s.Op = "runsubset"
		case 9:
			s.Op = "runnoall"
		case 10, 11:
			s.Op = "editgo"
		case 12:
			s.Op = rapid.SampledFrom([]string{"addgo", "delgo"}).Draw(t, "gofile")
		case 13:
			s.Op = rapid.SampledFrom([]string{"addtxt", "edittxt", "deltxt", "addbig", "editbig", "editbig", "editkeep"}).Draw(t, "txt")
		case 14:
			s.Op = "addnested"
		case 15:
			s.Op = "delsum"
		case 16, 17:
			s.Op = "corrupt"
			s.How = rapid.SampledFrom(c8Corruptions).Draw(t, "how")
		case 18:
			s.Op = rapid.SampledFrom([]string{"symlink", "rmsymlink"}).Draw(t, "symop")
		default:
			s.Op = rapid.SampledFrom([]string{"addpkg", "addpkg", "delpkg"}).Draw(t, "pkgop")
		}
		s.P = rapid.IntRange(0, 3).Draw(t, "p")
		s.Arg = rapid.IntRange(0, 200).Draw(t, "arg")
		c.Steps = append(c.Steps, s)
	}
	return c
}

// h1 is an independent re-implementation of the "h1:" directory hash (used to cross-check x/mod's dirhash).
func h1(files []string, open func(string) ([]byte, error)) (string, error) {
	sorted := append([]string{}, files...)
	sort.Strings(sorted)
	h := sha256.New()
	for _, f := range sorted {
		b, err := open(f)
		if err != nil {
			return "", err
		}
		fh := sha256.Sum256(b)
		fmt.Fprintf(h, "%x  %s\n", fh, f)
	}
	return "h1:" + base64.StdEncoding.EncodeToString(h.Sum(nil)), nil
}

// dirHash computes the package directory hash the way the property describes it: the h1 hash over every file below the
// directory (gengo.sum itself, which lives in the root package's directory, is not part of it). ok=false: not hashable.
func dirHash(dir string) (string, bool) {
	files, err := dirhash.DirFiles(dir, "")
	if err != nil {
		return "", false
	}
	var keep []string
	for _, f := range files {
		if f != "gengo.sum" {
			keep = append(keep, f)
		}
	}
	a, err := dirhash.Hash1(keep, func(name string) (io.ReadCloser, error) { return os.Open(filepath.Join(dir, name)) })
	if err != nil {
		return "", false
	}
	b, err := h1(keep, func(name string) ([]byte, error) { return os.ReadFile(filepath.Join(dir, name)) })
	if err != nil || a != b {
		panic(fmt.Sprintf("harness: h1 cross-check failed: %q vs %q (%v)", a, b, err))
	}
	return a, true
}

// parseSum is the independent reader of the gengo.sum format: one `path hash` pair per line.
func parseSum(data []byte) map[string]string {
	m := map[string]string{}
	for _, line := range strings.Split(string(data), "\n") {
		fs := strings.Fields(line)
		if len(fs) >= 2 {
			m[fs[0]] = fs[1]
		}
	}
	return m
}

func renderSum(m map[string]string) string {
	keys := make([]string, 0, len(m))
	for k := range m {
		keys = append(keys, k)
	}
	sort.Strings(keys)
	var b strings.Builder
	for _, k := range keys {
		b.WriteString(k + " " + m[k] + "\n")
	}
	return b.String()
}

type c8World struct {
	c    *c8Case
	dir  string
	pkgs []*modspec.Pkg
	// extras: packages added during the history (directories below the module root), imported by the first package only
	extras []string
}

type c8Loaded struct {
	path string // import path
	dir  string // directory on disk
	pkg  *modspec.Pkg
}

func (w *c8World) writeExtraImports() {
	first := w.pkgs[0]
	fn := filepath.Join(w.pkgDir(first), "imports_extra.go")
	if len(w.extras) == 0 {
		_ = os.Remove(fn)
		return
	}
	var b strings.Builder
	fmt.Fprintf(&b, "package %s\n\nimport (\n", first.Name)
	for _, e := range w.extras {
		fmt.Fprintf(&b, "\t_ %q\n", w.c.Mod.Path+"/"+e)
	}
	b.WriteString(")\n")
	_ = os.WriteFile(fn, []byte(b.String()), 0o644)
}

// loaded lists the local packages a run from the given entry loads, sorted by import path
func (w *c8World) loaded(entry *modspec.Pkg) []c8Loaded {
	var out []c8Loaded
	for _, p := range w.closure(entry) {
		out = append(out, c8Loaded{w.c.Mod.PkgPath(p), w.pkgDir(p), p})
	}
	if entry == w.pkgs[0] {
		for _, e := range w.extras {
			out = append(out, c8Loaded{w.c.Mod.Path + "/" + e, filepath.Join(w.dir, e), nil})
		}
	}
	sort.Slice(out, func(i, j int) bool { return out[i].path < out[j].path })
	return out
}

func (w *c8World) pkg(i int) *modspec.Pkg { return w.pkgs[i%len(w.pkgs)] }
func (w *c8World) pkgDir(p *modspec.Pkg) string {
	return filepath.Join(w.dir, filepath.FromSlash(p.Dir))
}

// imports returns the closure of package dirs reachable from the given one
func (w *c8World) closure(from *modspec.Pkg) []*modspec.Pkg {
	mc := ModCase{Mod: w.c.Mod}
	var out []*modspec.Pkg
	for _, d := range mc.closure([]string{from.Dir}) {
		out = append(out, w.c.Mod.PkgByDir(d))
	}
	sort.Slice(out, func(i, j int) bool { return w.c.Mod.PkgPath(out[i]) < w.c.Mod.PkgPath(out[j]) })
	return out
}

func (w *c8World) goFiles(p *modspec.Pkg) []string {
	ents, _ := os.ReadDir(w.pkgDir(p))
	var out []string
	for _, e := range ents {
		if !e.IsDir() && strings.HasPrefix(e.Name(), "extra") && strings.HasSuffix(e.Name(), ".go") {
			out = append(out, e.Name())
		}
	}
	sort.Strings(out)
	return out
}

func oracleC08(c c8Case) error {
	dir := tempModule(&c.Mod)
	defer os.RemoveAll(dir)
	w := &c8World{c: &c, dir: dir}
	for i := range c.Mod.Pkgs {
		w.pkgs = append(w.pkgs, &c.Mod.Pkgs[i])
		if c.Big > 0 {
			_ = os.WriteFile(filepath.Join(dir, c.Mod.Pkgs[i].Dir, "big.dat"), bytes.Repeat([]byte("0123456789abcdef"), c.Big/16+1)[:c.Big], 0o644)
		}
	}
	sumPath := filepath.Join(dir, "gengo.sum")
	gen := &script.Script{Name: "g", Mode: "fixed", Default: script.Action{Render: []script.Piece{{Kind: "block", Text: "\nvar _$G_$T = 0\n"}}}}
	globals := map[string][]string{"gengo:g": {""}}

	doRun := func(si int, st c8Step) error {
		all, force := true, false
		entryPkg := w.pkgs[0]
		var failing *modspec.Pkg
		switch st.Op {
		case "runforce":
			force = true
		case "runfail":
			failing = w.pkg(st.P)
		case "runsubset":
			entryPkg = w.pkg(st.P)
		case "runnoall":
			all = false
			entryPkg = w.pkg(st.P)
		}
		loaded := w.loaded(entryPkg)
		// model: what is recorded, what the directories hash to at load time
		var recorded map[string]string
		sumBefore, sumErr := os.ReadFile(sumPath)
		if sumErr == nil {
			recorded = parseSum(sumBefore)
		}
		hashes := map[string]string{}
		hashable := map[string]bool{}
		for _, p := range loaded {
			h, ok := dirHash(p.dir)
			hashes[p.path], hashable[p.path] = h, ok
		}
		var wantInvoked []string
		wantFail := false
		if all {
			for _, p := range loaded {
				pp := p.path
				changed := force || recorded == nil || !hashable[pp] || recorded[pp] != hashes[pp]
				if _, has := recorded[pp]; !has {
					changed = true
				}
				if !changed {
					continue
				}
				wantInvoked = append(wantInvoked, pp)
				if failing != nil && p.pkg == failing {
					wantFail = true
					break
				}
			}
		} else {
			wantInvoked = []string{c.Mod.PkgPath(entryPkg)}
		}
		g := *gen
		if failing != nil {
			g.PerType = map[string]script.Action{}
			for _, d := range failing.Files[0].Decls {
				g.PerType[c.Mod.PkgPath(failing)+"."+d.Name] = script.Action{Err: "error"}
			}
		}
		before := mustSnapshot(dir)
		res := script.Run(script.RunSpec{Dir: dir, Entrypoints: []string{entry(entryPkg.Dir)}, All: all, Force: force, Globals: globals, Base: "zz_generated", Scripts: []*script.Script{&g}})
		if res.LoadErr != "" {
			panic(fmt.Sprintf("harness: module does not load at step %d: %s", si, res.LoadErr))
		}
		if res.Panic != "" {
			return fmt.Errorf("step %d (%s): Execute panics: %s", si, st.Op, res.Panic)
		}
		if res.Failed != wantFail {
			return fmt.Errorf("step %d (%s): Execute failed=%v (%s), model expects failed=%v", si, st.Op, res.Failed, res.Err, wantFail)
		}
		seen := map[string]bool{}
		var invoked []string
		for _, call := range res.Calls {
			if call.Kind == "type" && !seen[call.Pkg] {
				seen[call.Pkg] = true
				invoked = append(invoked, call.Pkg)
			}
		}
		sort.Strings(invoked)
		sorted := append([]string{}, wantInvoked...)
		sort.Strings(sorted)
		if strings.Join(invoked, ",") != strings.Join(sorted, ",") {
			return fmt.Errorf("step %d (%s, entry %q, force=%v): generator invoked for [%s], model expects [%s] (recorded=%v, hashes at load=%v)",
				si, st.Op, entryPkg.Dir, force, strings.Join(invoked, ","), strings.Join(sorted, ","), recorded, hashes)
		}
		sumAfter, errAfter := os.ReadFile(sumPath)
		if all && !wantFail {
			want := map[string]string{}
			for _, p := range loaded {
				if hashable[p.path] {
					want[p.path] = hashes[p.path]
				}
			}
			if errAfter != nil {
				return fmt.Errorf("step %d (%s): gengo.sum missing after a successful All run", si, st.Op)
			}
			if string(sumAfter) != renderSum(want) {
				return fmt.Errorf("step %d (%s): gengo.sum is %q, want one sorted `path hash` line per loaded local package with its hash at load time: %q", si, st.Op, sumAfter, renderSum(want))
			}
			back, err := sumfile.Load(dir)
			if err != nil {
				return fmt.Errorf("step %d: sumfile.Load after a successful run: %v", si, err)
			}
			if fmt.Sprint(back.Data) != fmt.Sprint(want) || fmt.Sprint(parseSum(sumAfter)) != fmt.Sprint(want) {
				return fmt.Errorf("step %d: reading gengo.sum back gives %v, written mapping is %v", si, back.Data, want)
			}
		} else {
			if (sumErr == nil) != (errAfter == nil) || !bytes.Equal(sumBefore, sumAfter) {
				return fmt.Errorf("step %d (%s, failed=%v, all=%v): gengo.sum was rewritten (before %q, after %q)", si, st.Op, res.Failed, all, sumBefore, sumAfter)
			}
		}
		// a run that regenerates nothing changes nothing
		if all && len(wantInvoked) == 0 {
			for _, ch := range modspec.Diff(before, mustSnapshot(dir)) {
				if ch.Path == "gengo.sum" {
					continue // checked against the model above (a subset run legitimately drops the other packages' lines)
				}
				return fmt.Errorf("step %d (%s): nothing was regenerated, yet %s was %s", si, st.Op, ch.Path, ch.Kind)
			}
		}
		return nil
	}

	for si, st := range c.Steps {
		p := w.pkg(st.P)
		pd := w.pkgDir(p)
		switch st.Op {
		case "run", "runforce", "runfail", "runsubset", "runnoall":
			if err := doRun(si, st); err != nil {
				return err
			}
		case "editgo":
			fn := filepath.Join(pd, "types.go")
			b, _ := os.ReadFile(fn)
			_ = os.WriteFile(fn, append(b, []byte(fmt.Sprintf("\n// edit at step %d\n", si))...), 0o644)
		case "addgo":
			_ = os.WriteFile(filepath.Join(pd, fmt.Sprintf("extra%d.go", si)), []byte(fmt.Sprintf("package %s\n\ntype Extra%d struct{ A int }\n", p.Name, si)), 0o644)
		case "delgo":
			if fs := w.goFiles(p); len(fs) > 0 {
				_ = os.Remove(filepath.Join(pd, fs[st.Arg%len(fs)]))
			}
		case "addtxt":
			_ = os.WriteFile(filepath.Join(pd, fmt.Sprintf("notes%d.txt", st.Arg%3)), []byte(fmt.Sprintf("step %d\n", si)), 0o644)
		case "edittxt":
			fn := filepath.Join(pd, fmt.Sprintf("notes%d.txt", st.Arg%3))
			if b, err := os.ReadFile(fn); err == nil {
				_ = os.WriteFile(fn, append(b, 'x'), 0o644)
			}
		case "deltxt":
			_ = os.Remove(filepath.Join(pd, fmt.Sprintf("notes%d.txt", st.Arg%3)))
		case "addbig":
			// a file around and beyond common buffer sizes
			size := []int{4096, 65536, 65537, 70000, 131072, 200000}[st.Arg%6]
			_ = os.WriteFile(filepath.Join(pd, "big.dat"), bytes.Repeat([]byte{'a' + byte(si%26)}, size), 0o644)
		case "editbig":
			// one byte near the end of the big file changes, its size stays
			fn := filepath.Join(pd, "big.dat")
			if b, err := os.ReadFile(fn); err == nil && len(b) > 0 {
				b[len(b)-1-st.Arg%min(len(b), 100)] ^= 1
				_ = os.WriteFile(fn, b, 0o644)
			}
		case "editkeep":
			// an in-place edit that keeps size and modification time (restore from backup, rsync -t, cp -p)
			fn := filepath.Join(pd, "types.go")
			if fi, err := os.Stat(fn); err == nil {
				b, _ := os.ReadFile(fn)
				if i := bytes.LastIndexByte(b, 'e'); i >= 0 && bytes.Contains(b, []byte("// edit at step")) {
					b[i] = 'E'
					_ = os.WriteFile(fn, b, 0o644)
					_ = os.Chtimes(fn, fi.ModTime(), fi.ModTime())
				}
			}
		case "addnested":
			_ = os.MkdirAll(filepath.Join(pd, "data", "deep"), 0o755)
			_ = os.WriteFile(filepath.Join(pd, "data", "deep", fmt.Sprintf("f%d.json", st.Arg%2)), []byte(fmt.Sprintf("{\"step\":%d}\n", si)), 0o644)
		case "addpkg":
			if len(w.extras) < 2 {
				e := fmt.Sprintf("x%d", si)
				_ = os.MkdirAll(filepath.Join(dir, e), 0o755)
				_ = os.WriteFile(filepath.Join(dir, e, "x.go"), []byte(fmt.Sprintf("package %s\n\ntype TX%d struct{ A int }\n", e, si)), 0o644)
				w.extras = append(w.extras, e)
				w.writeExtraImports()
			}
		case "delpkg":
			if len(w.extras) > 0 {
				e := w.extras[len(w.extras)-1]
				w.extras = w.extras[:len(w.extras)-1]
				_ = os.RemoveAll(filepath.Join(dir, e))
				w.writeExtraImports()
			}
		case "delsum":
			_ = os.Remove(sumPath)
		case "symlink":
			_ = os.Symlink(filepath.Join(pd, "does-not-exist"), filepath.Join(pd, "dangling"))
		case "rmsymlink":
			_ = os.Remove(filepath.Join(pd, "dangling"))
		case "corrupt":
			b, err := os.ReadFile(sumPath)
			if err != nil {
				b = nil
			}
			pp := c.Mod.PkgPath(p)
			lines := strings.Split(strings.TrimSuffix(string(b), "\n"), "\n")
			var nb []byte
			switch st.How {
			case "empty":
				nb = []byte{}
			case "garbage":
				nb = []byte("\x00\xff not a sum file\n\n  \n\t\n" + pp + "\n")
			case "truncate":
				if len(b) > 0 {
					nb = b[:st.Arg%len(b)]
				}
			case "stale":
				for i, l := range lines {
					if strings.HasPrefix(l, pp+" ") {
						lines[i] = pp + " h1:AAAAAAAAAAAAAAAAAAAAAAAAAAAAAAAAAAAAAAAAAAA="
					}
				}
				nb = []byte(strings.Join(lines, "\n") + "\n")
			case "extracols":
				for i, l := range lines {
					if l != "" {
						lines[i] = l + "  extra col"
					}
				}
				nb = []byte(strings.Join(lines, "\n") + "\n")
			case "drop":
				var keep []string
				for _, l := range lines {
					if !strings.HasPrefix(l, pp+" ") {
						keep = append(keep, l)
					}
				}
				nb = []byte(strings.Join(keep, "\n") + "\n")
			case "swap":
				if len(lines) >= 2 {
					a, b2 := strings.Fields(lines[0]), strings.Fields(lines[len(lines)-1])
					if len(a) >= 2 && len(b2) >= 2 {
						lines[0], lines[len(lines)-1] = a[0]+" "+b2[1], b2[0]+" "+a[1]
					}
				}
				nb = []byte(strings.Join(lines, "\n") + "\n")
			case "dupline":
				nb = append(append([]byte{}, b...), []byte(pp+" h1:dup=\n")...)
			case "crlf":
				nb = []byte(strings.ReplaceAll(string(b), "\n", "\r\n"))
			case "nonewline":
				nb = bytes.TrimSuffix(b, []byte("\n"))
			case "blankhash":
				nb = append(append([]byte{}, b...), []byte(pp+" \n")...)
			case "comment":
				nb = append([]byte("# comment line\n"), b...)
			}
			_ = os.WriteFile(sumPath, nb, 0o644)
		}
	}
	// convergence: unchanged inputs, three All runs; the third regenerates nothing and changes no byte
	for _, p := range w.pkgs {
		_ = os.Remove(filepath.Join(w.pkgDir(p), "dangling"))
	}
	for i := 0; i < 2; i++ {
		if err := doRun(len(c.Steps)+i, c8Step{Op: "run"}); err != nil {
			return fmt.Errorf("convergence phase: %w", err)
		}
	}
	before := mustSnapshot(dir)
	res := script.Run(script.RunSpec{Dir: dir, Entrypoints: []string{entry(w.pkgs[0].Dir)}, All: true, Globals: globals, Base: "zz_generated", Scripts: []*script.Script{gen}})
	if res.Failed || res.Panic != "" || res.LoadErr != "" {
		return fmt.Errorf("convergence phase: third run failed: %s %s %s", res.Err, res.Panic, res.LoadErr)
	}
	for _, call := range res.Calls {
		if call.Kind == "type" {
			return fmt.Errorf("convergence phase: the third run on unchanged inputs still regenerates %s", call.Pkg)
		}
	}
	if d := modspec.Diff(before, mustSnapshot(dir)); len(d) > 0 {
		return fmt.Errorf("convergence phase: the third run on unchanged inputs %s %s", d[0].Kind, d[0].Path)
	}
	return nil
}

func c8Features(c c8Case) []string {
	fs := map[string]bool{}
	ranOK := false
	mutatedAfterRun := false
	for _, s := range c.Steps {
		switch s.Op {
		case "run", "runsubset", "runforce":
			if mutatedAfterRun {
				fs["run-after-mutation-after-run"] = true
			}
			ranOK = true
			if s.Op != "run" {
				fs[s.Op] = true
			}
		case "runfail", "runnoall":
			fs[s.Op] = true
		case "corrupt":
			fs["corrupt-"+s.How] = true
			fs["corruption"] = true
			if ranOK {
				mutatedAfterRun = true
			}
		case "delsum":
			fs["delsum"] = true
			if ranOK {
				mutatedAfterRun = true
			}
		default:
			fs[s.Op] = true
			if ranOK {
				mutatedAfterRun = true
			}
		}
	}
	for _, p := range c.Mod.Pkgs {
		if p.Dir == "" {
			fs["root-package"] = true
		}
		if p.Dir == "a/sub" {
			fs["nested-package"] = true
		}
	}
	out := make([]string, 0, len(fs))
	for k := range fs {
		out = append(out, k)
	}
	sort.Strings(out)
	return out
}

func c8NonTrivial(c c8Case) bool {
	for _, f := range c8Features(c) {
		if f == "run-after-mutation-after-run" || f == "corruption" || f == "runforce" {
			return true
		}
	}
	return false
}

func TestC08(t *testing.T) {
	r := ev.Begin(t, ev.Meta{
		ID:    "C08",
		Level: "exploration",
		Rule: "model-based: histories of 3-14 steps over a module of 2-4 packages (root package, nested package a/sub): edit/add/delete a Go file, add/edit/delete " +
			"a non-Go file, add a file in a nested directory, delete gengo.sum, corrupt it (empty, garbage, truncated at any byte, stale hash, extra columns, " +
			"dropped line, swapped hashes, duplicate line, CRLF, no final newline, blank hash, comment line), add/remove an unhashable entry (dangling symlink), add a new package / remove it again (imported by the entry package), " +
			"run(All), run(All,Force), run whose generator fails in package p, run on a subset entry, run without All; then 3 runs on unchanged inputs. The model " +
			"keeps nothing but the files: before each run it hashes every loaded package directory itself (x/mod dirhash cross-checked by a re-implementation of " +
			"h1) and parses gengo.sum with its own reader; non-trivial = a run after a mutation that follows a run, or a corruption, or Force; distinct by JSON",
		Assumptions: []string{
			"the directory hash of a package is h1 over every file below its directory except gengo.sum itself (which lives in the root package's directory)",
			"a package whose directory cannot be hashed always regenerates and gets no line in gengo.sum",
		},
	})
	defer r.Finish()
	ev.Search(r, ev.Sub[c8Case]{
		Name: "history", Gen: genC08, Oracle: oracleC08, NonTrivial: c8NonTrivial, Classes: c8Features,
		Budget: ev.Budget{Quick: 150, Thorough: 1500}, MinNonTrivial: 0.5,
	})
}
