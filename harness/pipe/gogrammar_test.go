package pipe

import (
	"fmt"
	"strings"

	"pgregory.net/rapid"
)

// ---- a grammar of Go declarations with odd whitespace ----
//
// The grammar produces text that parses as Go and deliberately avoids the token-level rewrites that
// gofmt -s / gofumpt perform (elidable composite-literal types, legacy octal literals, `var x = v` inside
// functions, adjacent lone top-level var/const declarations, single-spec parenthesised var, redundant
// nested parentheses, parenthesised if/for/switch headers), so that the generated file must consist of
// exactly the rendered tokens.

type gg struct {
	t        *rapid.T
	uniq     string // unique suffix for declared names
	n        int
	mlBlock  bool // allow multi-line /* */ comments inside indented blocks (known go/printer non-idempotence)
	plain    bool // no comment anywhere (a file without comments takes other paths through the formatters)
	features map[string]bool
}

func (g *gg) pick(label string, opts ...string) string {
	return rapid.SampledFrom(opts).Draw(g.t, label)
}
func (g *gg) int(label string, lo, hi int) int { return rapid.IntRange(lo, hi).Draw(g.t, label) }
func (g *gg) feat(f string)                    { g.features[f] = true }

// ws: optional blanks between tokens that cannot merge
func (g *gg) ws() string {
	s := g.pick("ws", "", "", "", " ", " ", "  ", "\t", "   ")
	if len(s) > 1 || s == "\t" {
		g.feat("odd-spacing")
	}
	return s
}

// wsl: like ws, but sometimes a line break; only used after tokens that cannot end a statement (operators, opening
// brackets, commas), where Go inserts no semicolon
func (g *gg) wsl() string {
	if g.int("wsl", 0, 5) != 0 {
		return g.ws()
	}
	g.feat("line-break-inside-expression")
	return g.pick("wslnl", "\n", "\n\t", " \n  ", "\n\n\t", "\t\n")
}

// sp: mandatory blank
func (g *gg) sp() string {
	s := g.pick("sp", " ", " ", " ", "  ", "\t", " \t ")
	if s != " " {
		g.feat("odd-spacing")
	}
	return s
}

// nl: line break with odd blank lines / trailing blanks / indentation
func (g *gg) nl() string {
	s := g.pick("nl", "\n", "\n", "\n", "\n\n", "\n\n\n", " \n", "\t\n", "\n \n")
	if s != "\n" {
		g.feat("odd-lines")
	}
	ind := g.pick("indent", "", "\t", "\t\t", "  ", "    ", " \t")
	return s + ind
}

func (g *gg) name(prefix string) string {
	g.n++
	return fmt.Sprintf("%s%s_%d", prefix, g.uniq, g.n)
}

var ggIdents = []string{"a", "b", "x", "y", "n", "err", "v", "items", "ok", "i"}

func (g *gg) lit() string {
	switch g.int("litkind", 0, 7) {
	case 0:
		l := g.pick("intlit", "0", "1", "42", "0x1f", "1_000", "0b101", "0o17", "0755", "007")
		if len(l) > 1 && l[0] == '0' && l[1] >= '0' && l[1] <= '7' {
			g.feat("legacy-octal")
		}
		return l
	case 1:
		return g.pick("floatlit", "1.5", "0.25", "1e3", "2.5e-3", ".5")
	case 2:
		return g.pick("strlit", `""`, `"a"`, `"a b"`, `"\n\t\""`, `"//not a comment"`, `"/* nor this */"`, `"é中"`, `"%v@x'"`,
			// Unicode space separators written literally inside a literal are content, not layout
			"\"標題\u3000副題\"", "\"1\u00a0000\u2003€\"")
	case 3:
		g.feat("raw-string")
		return g.pick("rawlit", "`raw`", "`a\n\tb`", "`  trailing  \n\n  blank`", "`// x`", "`wide\u3000blank\u00a0here`")
	case 4:
		return g.pick("runelit", `'a'`, `'\n'`, `'\''`, `'é'`, `'\x00'`)
	case 5:
		return g.pick("boollit", "true", "false", "nil")
	default:
		return g.pick("ident", ggIdents...)
	}
}

func (g *gg) expr(depth int) string {
	if depth <= 0 {
		return g.lit()
	}
	switch g.int("exprkind", 0, 11) {
	case 0, 1:
		return g.lit()
	case 2, 3:
		op := g.pick("binop", "+", "-", "*", "/", "%", "==", "!=", "<", "<=", "&&", "||", "&", "|", "<<", "&^")
		l, r := g.operand(depth-1), g.operand(depth-1)
		return l + g.ws() + op + g.wsl() + r
	case 4:
		fn := g.pick("fn", "f", "g", "pkg.Call", "len", "append", "x.M", "fmt.Sprintf")
		n := g.int("nargs", 0, 3)
		var args []string
		for i := 0; i < n; i++ {
			args = append(args, g.wsl()+g.expr(depth-1)+g.ws())
		}
		return fn + g.ws() + "(" + strings.Join(args, ",") + ")"
	case 5:
		op := g.pick("unop", "-", "!", "^", "&", "*", "<-")
		operand := g.pick("ident", ggIdents...)
		return op + g.wsl() + operand
	case 6:
		g.feat("composite-literal")
		switch g.int("complit", 0, 3) {
		case 0:
			n := g.int("nelts", 0, 3)
			var el []string
			for i := 0; i < n; i++ {
				el = append(el, g.ws()+g.lit())
			}
			return "[]" + g.pick("elt", "int", "string", "any") + "{" + strings.Join(el, ",") + g.ws() + "}"
		case 1:
			n := g.int("nelts", 0, 3)
			var el []string
			for i := 0; i < n; i++ {
				el = append(el, g.ws()+fmt.Sprintf(`"k%d"`, i)+g.ws()+":"+g.ws()+g.lit())
			}
			return "map[string]any" + g.ws() + "{" + strings.Join(el, ",") + "}"
		case 2:
			return g.pick("amp", "", "&") + "T" + g.ws() + "{" + g.ws() + "A" + g.ws() + ":" + g.ws() + g.lit() + "," + g.ws() + "B:" + g.sp() + g.lit() + g.ws() + "}"
		default:
			// multi-line literal
			g.feat("multi-line-literal")
			return "[]string{" + g.nl() + `"a",` + g.nl() + `"b",` + g.nl() + "}"
		}
	case 7:
		g.feat("func-literal")
		return "func(" + g.ws() + "p" + g.sp() + "int" + g.ws() + ")" + g.sp() + "int" + g.ws() + g.block(depth-1, true)
	case 8:
		return g.pick("ident", ggIdents...) + "[" + g.wsl() + g.expr(depth-1) + g.ws() + "]"
	case 9:
		return g.pick("ident", ggIdents...) + "." + g.pick("sel", "Field", "Name", "next")
	case 10:
		return g.pick("ident", ggIdents...) + ".(" + g.wsl() + g.pick("asserted", "int", "*T", "error") + g.ws() + ")"
	default:
		return g.pick("conv", "int", "string", "[]byte", "float64") + "(" + g.wsl() + g.lit() + g.ws() + ")"
	}
}

// operand: an expression usable as operand of a binary operator (binary sub-expressions get parentheses)
func (g *gg) operand(depth int) string {
	if depth > 0 && g.int("parenop", 0, 3) == 0 {
		op := g.pick("binop2", "+", "-", "*", "==", "&&", "|")
		return "(" + g.wsl() + g.lit() + g.ws() + op + g.wsl() + g.lit() + g.ws() + ")"
	}
	if depth > 0 && g.int("callop", 0, 2) == 0 {
		return g.pick("fn2", "f", "len", "x.M") + "(" + g.lit() + ")"
	}
	return g.lit()
}

func (g *gg) comment(inBlock bool) string {
	if g.plain {
		if inBlock {
			return "_" + g.ws() + "=" + g.ws() + "0"
		}
		return "var" + g.sp() + g.name("nc") + g.sp() + "int"
	}
	switch g.int("cmtkind", 0, 6) {
	case 0, 1, 2:
		g.feat("line-comment")
		return "//" + g.pick("cmtsp", " ", " ", "", "  ", "\t") + g.pick("cmttext", "note", "TODO: fix", "a  b", "x := 1", "中文 é", "trailing blank  ", "{ brace", "1. item", "全角\u3000空白 and no-break\u00a0space")
	case 3:
		g.feat("block-comment")
		return "/*" + g.pick("bcsp", " ", "", "  ") + g.pick("bctext", "block", "a * b", "x // y") + g.pick("bcsp2", " ", "", "\t") + "*/"
	case 4:
		if inBlock && !g.mlBlock {
			g.feat("line-comment")
			return "// plain"
		}
		g.feat("multi-line-block-comment")
		if inBlock {
			g.feat("multi-line-block-comment-in-block")
		}
		return "/*" + g.pick("mlb", "\n first\n second\n", " first\nsecond ", "\n\tindented\n\t\tmore\n", "\n * star\n * star\n ") + "*/"
	case 5:
		g.feat("line-comment")
		return "//nolint:all"
	default:
		g.feat("line-comment")
		return "// +tag=value"
	}
}

func (g *gg) simpleStmt(depth int) string {
	id := g.pick("ident", ggIdents...)
	switch g.int("simple", 0, 9) {
	case 0, 1:
		return id + g.ws() + ":=" + g.wsl() + g.expr(depth)
	case 2:
		return id + g.ws() + "=" + g.wsl() + g.expr(depth)
	case 3:
		return id + g.ws() + g.pick("incdec", "++", "--")
	case 4:
		return id + g.ws() + g.pick("opassign", "+=", "-=", "*=", "|=", "<<=") + g.wsl() + g.expr(depth)
	case 5:
		return g.pick("fn", "f", "pkg.Do", "x.M") + "(" + g.wsl() + g.expr(depth) + g.ws() + ")"
	case 6:
		return "a" + g.ws() + "," + g.ws() + "b" + g.ws() + "=" + g.ws() + "b" + g.ws() + "," + g.ws() + "a"
	case 7:
		return "ch" + g.ws() + "<-" + g.ws() + g.lit()
	case 8:
		return "v" + g.ws() + "," + g.ws() + "ok" + g.ws() + ":=" + g.ws() + "m[" + g.lit() + "]"
	default:
		return "_" + g.ws() + "=" + g.ws() + g.expr(depth)
	}
}

func (g *gg) stmt(depth int) string {
	if depth <= 0 {
		return g.simpleStmt(0)
	}
	switch g.int("stmt", 0, 15) {
	case 0, 1, 2, 3:
		return g.simpleStmt(depth)
	case 4:
		g.feat("if")
		s := "if" + g.sp() + g.cond(depth-1) + g.ws() + g.block(depth-1, false)
		if g.int("else", 0, 2) == 0 {
			s += g.ws() + "else"
			if g.int("elseif", 0, 1) == 0 {
				s += g.sp() + "if" + g.sp() + g.cond(depth-1) + g.ws() + g.block(depth-1, false)
			} else {
				s += g.ws() + g.block(depth-1, false)
			}
		}
		return s
	case 5:
		g.feat("if-init")
		return "if" + g.sp() + "v" + g.ws() + ":=" + g.ws() + "f()" + g.ws() + ";" + g.ws() + g.cond(depth-1) + g.ws() + g.block(depth-1, false)
	case 6:
		g.feat("for")
		switch g.int("forkind", 0, 3) {
		case 0:
			return "for" + g.sp() + "i" + g.ws() + ":=" + g.ws() + "0" + g.ws() + ";" + g.ws() + "i" + g.ws() + "<" + g.ws() + "n" + g.ws() + ";" + g.ws() + "i++" + g.ws() + g.block(depth-1, false)
		case 1:
			return "for" + g.sp() + g.cond(depth-1) + g.ws() + g.block(depth-1, false)
		case 2:
			return "for" + g.sp() + "k" + g.ws() + "," + g.ws() + "v" + g.ws() + ":=" + g.ws() + "range" + g.sp() + "items" + g.ws() + g.block(depth-1, false)
		default:
			return "for" + g.ws() + "{" + g.nl() + "break" + g.nl() + "}"
		}
	case 7:
		g.feat("switch")
		s := "switch" + g.sp() + g.pick("ident", ggIdents...) + g.ws() + "{"
		n := g.int("ncases", 0, 3)
		for i := 0; i < n; i++ {
			s += g.nl() + "case" + g.sp() + g.lit()
			if g.int("twovals", 0, 2) == 0 {
				s += g.ws() + "," + g.ws() + g.lit()
			}
			s += g.ws() + ":"
			for j := 0; j < g.int("casebody", 0, 2); j++ {
				s += g.nl() + g.stmt(depth-1)
			}
		}
		if g.int("default", 0, 1) == 0 {
			s += g.nl() + "default" + g.ws() + ":" + g.nl() + g.simpleStmt(0)
		}
		return s + g.nl() + "}"
	case 8:
		return "return" + g.sp() + g.expr(depth-1)
	case 9:
		return "var" + g.sp() + g.pick("ident", ggIdents...) + g.sp() + g.pick("vartype", "int", "[]string", "map[string]int", "*T", "func()", "struct{}", "interface{}", "chan int")
	case 10:
		return g.pick("defergo", "defer", "go") + g.sp() + "f(" + g.ws() + g.lit() + g.ws() + ")"
	case 11:
		return g.comment(true)
	case 12:
		// trailing comment
		g.feat("trailing-comment")
		if g.plain {
			return g.simpleStmt(0)
		}
		return g.simpleStmt(0) + g.sp() + "// " + g.pick("trail", "why", "see above", "x")
	case 13:
		g.feat("nested-block")
		return g.block(depth-1, false)
	case 14:
		g.feat("select")
		return "select" + g.ws() + "{" + g.nl() + "case" + g.sp() + "v" + g.ws() + ":=" + g.ws() + "<-ch" + g.ws() + ":" + g.nl() + "_ = v" + g.nl() + "default:" + g.nl() + "}"
	default:
		g.feat("const-in-func")
		return "const" + g.sp() + g.pick("ident", ggIdents...) + g.ws() + "=" + g.ws() + g.lit()
	}
}

// cond: a condition that is not parenthesised at the top level
func (g *gg) cond(depth int) string {
	switch g.int("cond", 0, 3) {
	case 0:
		return g.pick("ident", ggIdents...) + g.ws() + g.pick("cmp", "==", "!=", "<", ">=") + g.wsl() + g.lit()
	case 1:
		return g.pick("condunop", "!", "!", "*") + g.wsl() + g.pick("ident", ggIdents...)
	case 2:
		return g.pick("ident", ggIdents...) + g.ws() + "!=" + g.wsl() + "nil" + g.ws() + "&&" + g.wsl() + "f(" + g.wsl() + g.lit() + ")"
	default:
		return "ok"
	}
}

// block: "{" statements "}" with statements separated by newlines or semicolons
func (g *gg) block(depth int, mustReturn bool) string {
	n := g.int("nstmts", 0, 4)
	var b strings.Builder
	b.WriteString("{")
	sameLine := g.int("oneline", 0, 4) == 0
	if sameLine {
		g.feat("semicolon-separated")
	}
	wrote := false
	for i := 0; i < n; i++ {
		s := g.stmt(depth)
		isComment := strings.HasPrefix(s, "//") || strings.Contains(s, "//")
		if sameLine && !isComment {
			if wrote {
				b.WriteString(g.ws() + ";" + g.ws())
			} else {
				b.WriteString(g.ws())
			}
			b.WriteString(s)
			wrote = true
			continue
		}
		// line comments end the line: whatever follows must start on a new line
		b.WriteString(g.nl())
		b.WriteString(s)
		wrote = false
		if isComment {
			sameLine = false
		}
	}
	if mustReturn {
		b.WriteString(g.nl() + "return" + g.sp() + g.lit())
	}
	if sameLine && !mustReturn {
		b.WriteString(g.ws() + "}")
	} else {
		b.WriteString(g.nl() + "}")
	}
	return b.String()
}

func (g *gg) fieldList() string {
	n := g.int("nfields", 0, 4)
	if n == 0 {
		return g.pick("emptystruct", "struct{}", "struct {\n}", "struct{ }", "struct {\n\n}")
	}
	var b strings.Builder
	b.WriteString("struct" + g.ws() + "{")
	for i := 0; i < n; i++ {
		b.WriteString(g.nl())
		switch g.int("fieldkind", 0, 5) {
		case 0:
			if !g.plain {
				b.WriteString(g.comment(true) + g.nl())
			}
			fallthrough
		case 1, 2:
			fmt.Fprintf(&b, "F%d%s%s", i, g.sp(), g.pick("ftype", "int", "string", "[]byte", "map[string]int", "*T", "func(int) error", "chan<- int", "[4]byte"))
		case 3:
			g.feat("struct-tag")
			fmt.Fprintf(&b, "F%d%s%s%s%s", i, g.sp(), "string", g.sp(), g.pick("tag", "`json:\"a\"`", "`json:\"a,omitempty\"   yaml:\"b\"`", "\"quoted:\\\"x\\\"\""))
		case 4:
			if g.plain {
				fmt.Fprintf(&b, "F%d%s,%sG%d%sint", i, g.ws(), g.ws(), i, g.sp())
			} else {
				fmt.Fprintf(&b, "F%d%s,%sG%d%sint%s// trailing", i, g.ws(), g.ws(), i, g.sp(), g.sp())
			}
		default:
			if i == 0 {
				b.WriteString(g.pick("embedded", "Embedded", "*Embedded", "pkg.Type"))
			} else {
				fmt.Fprintf(&b, "F%d int", i)
			}
		}
	}
	b.WriteString(g.nl() + "}")
	return b.String()
}

// topDecl renders one top-level declaration; typ is the type the generator was invoked for.
func (g *gg) topDecl(typ string) string {
	var b strings.Builder
	if !g.plain && g.int("doc", 0, 3) == 0 {
		g.feat("doc-comment")
		lines := g.int("doclines", 1, 3)
		for i := 0; i < lines; i++ {
			b.WriteString("//" + g.pick("docsp", " ", " ", "") + g.pick("doctext", "Doc line", "does x.", "  indented code", "Deprecated: no") + "\n")
		}
	}
	switch g.int("top", 0, 11) {
	case 0, 1, 2:
		g.feat("func")
		if !g.plain && g.int("directive", 0, 5) == 0 {
			g.feat("go-directive")
			b.WriteString("//go:noinline\n")
		}
		b.WriteString("func" + g.sp() + g.name("Fn") + g.ws() + "(" + g.ws() + "a" + g.sp() + "int" + g.ws() + "," + g.ws() + "items" + g.sp() + "[]string" + g.ws() + ")" + g.ws())
		switch g.int("results", 0, 2) {
		case 0:
			b.WriteString(g.block(g.int("depth", 0, 3), false))
		case 1:
			b.WriteString(g.pick("restype", "int", "int", "map["+g.wsl()+"string]int", "*"+g.wsl()+"T") + g.sp() + g.block(g.int("depth", 0, 3), true))
		default:
			// no line breaks here: gofumpt closes a multi-line result list with ",\n)", which adds a token
			b.WriteString("(" + g.ws() + "int" + g.ws() + "," + g.ws() + "error" + g.ws() + ")" + g.ws() + "{" + g.nl() + "return" + g.sp() + "0" + g.ws() + "," + g.ws() + "nil" + g.nl() + "}")
		}
	case 3, 4:
		g.feat("method")
		b.WriteString("func" + g.ws() + "(" + g.ws() + "v" + g.sp() + g.pick("star", "*", "") + typ + g.ws() + ")" + g.sp() + g.name("M") + "(" + g.ws() + ")" + g.ws() + g.block(g.int("depth", 0, 3), false))
	case 5:
		g.feat("var")
		b.WriteString("var" + g.sp() + g.name("v") + g.sp() + g.pick("vtype", "int", "[]string", "map[string]"+typ, "*"+typ))
		if g.int("varinit", 0, 1) == 0 {
			b.Reset()
			b.WriteString("var" + g.sp() + g.name("v") + g.ws() + "=" + g.ws() + g.expr(2))
		}
	case 6:
		g.feat("grouped-var")
		b.WriteString("var" + g.ws() + "(" + g.nl() + g.name("v") + g.ws() + "=" + g.ws() + g.lit() + g.nl() + g.name("v") + g.sp() + "int" + g.nl())
		if g.int("groupcmt", 0, 2) == 0 {
			b.WriteString(g.comment(true) + g.nl())
			b.WriteString(g.name("v") + " = 0" + g.nl())
		}
		b.WriteString(")")
	case 7:
		g.feat("const")
		if g.int("constgroup", 0, 1) == 0 {
			b.WriteString("const" + g.ws() + "(" + g.nl() + g.name("C") + g.sp() + "=" + g.sp() + "iota" + g.nl() + g.name("C") + g.nl() + g.name("C") + g.nl() + ")")
		} else {
			b.WriteString("const" + g.sp() + g.name("C") + g.ws() + "=" + g.ws() + g.lit())
		}
	case 8:
		g.feat("struct-type")
		b.WriteString("type" + g.sp() + g.name("S") + g.sp() + g.fieldList())
	case 9:
		g.feat("interface-type")
		b.WriteString("type" + g.sp() + g.name("I") + g.sp() + "interface" + g.ws() + "{" + g.nl() + "M(" + g.ws() + ")" + g.sp() + "error" + g.nl() + "N(a int)" + g.nl() + "}")
	case 10:
		g.feat("type-group")
		b.WriteString("type" + g.ws() + "(" + g.nl() + g.name("A") + g.sp() + "int" + g.nl() + g.name("B") + g.sp() + "=" + g.sp() + "string" + g.nl() + ")")
	default:
		g.feat("top-level-comment")
		// a free-standing comment followed by a declaration (so that it cannot float to the end of file)
		b.WriteString(g.comment(false) + "\n\n" + "var" + g.sp() + g.name("v") + g.sp() + "int")
	}
	return b.String()
}

// decls renders k top-level declarations, always separated by at least one blank line (so that gofumpt does not join lone var/const lines)
func (g *gg) decls(typ string, k int) string {
	var b strings.Builder
	for i := 0; i < k; i++ {
		b.WriteString(g.pick("sep", "\n", "\n\n", "\n\n\n\n", "\n \n", "\n\t\n"))
		b.WriteString(g.topDecl(typ))
		b.WriteString(g.pick("tail", "\n", " \n", "\t\n", "\n\n"))
	}
	return b.String()
}
