package script

import (
	"errors"
	"go/scanner"
	"os"
)

func isScannerList(err error) bool {
	var sl scanner.ErrorList
	return errors.As(err, &sl)
}

// InitEnv prepares the process environment for `go list` / `go test` runs on
// synthetic modules: no -mod=mod (it would let the go command rewrite go.mod),
// no workspace, no network.
func InitEnv() {
	os.Setenv("GOFLAGS", "")
	os.Setenv("GOWORK", "off")
	os.Setenv("GOPROXY", "off")
	os.Setenv("GOTOOLCHAIN", "local")
	os.Setenv("GONOSUMDB", "*")
	os.Setenv("GOFLAGS", "-mod=mod")
	os.Setenv("GOFLAGS", "")
}
