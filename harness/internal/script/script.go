// Package script provides scripted, recording generators for gengo and a runner
// that executes one gengo invocation in-process or in a child process.
package script

import (
	"os/signal"
	"slices"
	"vt/internal/fx/delta"
	lcodec "vt/internal/fx/left/codec"
	rcodec "vt/internal/fx/right/codec"

	"context"
	"encoding/json"
	"errors"
	"fmt"
	"go/types"
	"io"
	"io/fs"
	"iter"
	"os"
	"os/exec"
	"path/filepath"
	"sort"
	"strings"
	"syscall"

	"github.com/octohelm/gengo/pkg/gengo"
	"github.com/octohelm/gengo/pkg/gengo/snippet"

	_ "github.com/octohelm/gengo/devpkg/deepcopygen"
	_ "github.com/octohelm/gengo/devpkg/defaultergen"
	_ "github.com/octohelm/gengo/devpkg/partialstruct"
	_ "github.com/octohelm/gengo/devpkg/runtimedocgen"
)

// Piece is one thing a scripted generator renders.
//
// Kind:
//
//	block  Text rendered verbatim through snippet.Block
//	t      Text rendered through snippet.T with the placeholders bound from Refs:
//	       @R0, @R1, ... -> snippet.ID("path.Name") of Refs[i]
//	value  Text is JSON for a value rendered through snippet.Value (map/list/string/number)
//
// In Text, $T is replaced by the type name, $G by the generator name, $N by the
// per-instance call counter and $H by "first" / "again" (per-instance helper flag).
type Piece struct {
	Kind string   `json:"kind"`
	Text string   `json:"text"`
	Refs []string `json:"refs,omitempty"`
	// Rotate: the package decides which suffix of Refs is used (t pieces)
	Rotate bool `json:"rotate,omitempty"`
	// Parts: texts of a "multi" piece: one Render call whose snippet yields the parts as separate fragments
	Parts []string `json:"parts,omitempty"`
	// Unused: references bound to arguments U0, U1, ... of a t piece that its text never mentions
	Unused []string `json:"unused,omitempty"`
}

type DeferAction struct {
	Render []Piece `json:"render,omitempty"`
	Err    string  `json:"err,omitempty"` // "" | error
	// Then: callbacks this callback registers itself (through Context.Defer) while it runs
	Then []DeferAction `json:"then,omitempty"`
}

// Action is what a scripted generator does for one type.
//
// Err: "" | skip | ignore | wrapskip | wrapignore | error | wraperror | exit | kill | panic
type Action struct {
	Render []Piece       `json:"render,omitempty"`
	Err    string        `json:"err,omitempty"`
	Defers []DeferAction `json:"defers,omitempty"`
}

type Script struct {
	Name string `json:"name"`
	// Mode: fixed (instances are created by gengo from the zero value of a Go type whose Name() is constant;
	// only the names in FixedNames exist) | new (implements GeneratorNewer)
	Mode    string            `json:"mode"`
	Alias   bool              `json:"alias,omitempty"` // also implements AliasGenerator
	Default Action            `json:"default"`
	PerType map[string]Action `json:"pertype,omitempty"` // key: <type's package path>.<type name>
	OnAlias *Action           `json:"onalias,omitempty"`
	// NewDefer (mode new): New(c) itself registers one Defer callback rendering these pieces (type name "New")
	NewDefer []Piece `json:"newdefer,omitempty"`
}

// Call is one entry of the call log.
type Call struct {
	Seq      int    `json:"seq"`
	Kind     string `json:"kind"` // type | alias | register | defer | new
	Gen      string `json:"gen"`
	Pkg      string `json:"pkg"`               // package being processed: c.Package("").Pkg().Path()
	TypePkg  string `json:"typepkg,omitempty"` // package of the type handed over
	Type     string `json:"type,omitempty"`
	PkgScope bool   `json:"pkgscope,omitempty"` // the type's object is declared in its package's scope
	IsAlias  bool   `json:"isalias,omitempty"`
	Rendered string `json:"rendered,omitempty"`
	Err      string `json:"err,omitempty"`
	Instance int    `json:"instance"`
	// for defer calls: index of the callback, whether the generator's output file still had its pre-run content, and
	// how many GenerateType calls of this (instance) had been logged before
	DeferIdx      int  `json:"deferidx,omitempty"`
	FileUnchanged bool `json:"fileunchanged,omitempty"`
}

// sharedExpose: PkgExpose snippet values that a generator builds once and renders into every file of a run (a package-level
// variable of the generator's package); reset at the start of every run
var sharedExpose = map[string]snippet.Snippet{}

var (
	current   = map[string]*Script{}
	calls     []Call
	instances int
	deferIDs  int
	preTree   map[string]string // absolute path -> content before the run (only <base>.* files matter)
	baseName  string
)

var FixedNames = []string{"g", "gen", "deep", "deepcopy", "a", "ab", "x1", "doc"}

type nG struct{}
type nGen struct{}
type nDeep struct{}
type nDeepcopy struct{}
type nA struct{}
type nAb struct{}
type nX1 struct{}
type nDoc struct{}

func (nG) N() string        { return "g" }
func (nGen) N() string      { return "gen" }
func (nDeep) N() string     { return "deep" }
func (nDeepcopy) N() string { return "deepcopy" }
func (nA) N() string        { return "a" }
func (nAb) N() string       { return "ab" }
func (nX1) N() string       { return "x1" }
func (nDoc) N() string      { return "doc" }

type nm interface{ N() string }

// state is per-instance generator state, the kind real generators keep.
type state struct {
	id      int
	counter int
	helper  bool
	seen    map[string]bool
	// memo is allocated lazily by every instance; the prototypes built by Build carry an already allocated one, the way a
	// generator made by a constructor would (a fresh zero-value instance must not see it)
	memo map[string]int
}

func (s *state) instance() int {
	if s.id == 0 {
		instances++
		s.id = instances
	}
	return s.id
}

type fixed[N nm] struct{ st state }

func (f *fixed[N]) Name() string       { var n N; return n.N() }
func (f *fixed[N]) protoState() *state { return &f.st }
func (f *fixed[N]) GenerateType(c gengo.Context, t *types.Named) error {
	return generate(current[f.Name()], &f.st, c, t.Obj(), false)
}

type fixedAlias[N nm] struct{ fixed[N] }

func (f *fixedAlias[N]) GenerateAliasType(c gengo.Context, t *types.Alias) error {
	return generate(current[f.Name()], &f.st, c, t.Obj(), true)
}

type newer struct {
	script *Script
	st     state
}

func (g *newer) Name() string { return g.script.Name }
func (g *newer) New(c gengo.Context) gengo.Generator {
	n := &newer{script: g.script}
	calls = append(calls, Call{Seq: len(calls), Kind: "new", Gen: g.script.Name, Pkg: c.Package("").Pkg().Path(), Instance: n.st.instance()})
	return n
}

// newDefer: the callback a GeneratorNewer registers from inside New
func newDefer(c gengo.Context, s *Script, st *state) {
	if len(s.NewDefer) == 0 {
		return
	}
	deferIDs++
	id := deferIDs
	pkg := c.Package("").Pkg().Path()
	calls = append(calls, Call{Seq: len(calls), Kind: "register", Gen: s.Name, Pkg: pkg, Type: "New", Instance: st.instance(), DeferIdx: id})
	c.Defer(func(c gengo.Context) error {
		dc := Call{Seq: len(calls), Kind: "defer", Gen: s.Name, Pkg: c.Package("").Pkg().Path(), Type: "New", Instance: st.instance(), DeferIdx: id, FileUnchanged: outFileUnchanged(c, s.Name)}
		var into strings.Builder
		render(c, s.NewDefer, s.Name, "New", st, &into, nil)
		dc.Rendered = into.String()
		calls = append(calls, dc)
		return nil
	})
}

func (g *newer) GenerateType(c gengo.Context, t *types.Named) error {
	return generate(g.script, &g.st, c, t.Obj(), false)
}

type newerAlias struct{ newer }

func (g *newerAlias) New(c gengo.Context) gengo.Generator {
	n := &newerAlias{newer{script: g.script}}
	calls = append(calls, Call{Seq: len(calls), Kind: "new", Gen: g.script.Name, Pkg: c.Package("").Pkg().Path(), Instance: n.st.instance()})
	newDefer(c, g.script, &n.st)
	return n
}
func (g *newerAlias) GenerateAliasType(c gengo.Context, t *types.Alias) error {
	return generate(g.script, &g.st, c, t.Obj(), true)
}

// Build returns the gengo.Generator prototype for a script.
func Build(s *Script) (gengo.Generator, error) {
	if s.Mode == "new" {
		if s.Alias {
			return &newerAlias{newer{script: s}}, nil
		}
		return &newer{script: s}, nil
	}
	var g, ga gengo.Generator
	switch s.Name {
	case "g":
		g, ga = &fixed[nG]{}, &fixedAlias[nG]{}
	case "gen":
		g, ga = &fixed[nGen]{}, &fixedAlias[nGen]{}
	case "deep":
		g, ga = &fixed[nDeep]{}, &fixedAlias[nDeep]{}
	case "deepcopy":
		g, ga = &fixed[nDeepcopy]{}, &fixedAlias[nDeepcopy]{}
	case "a":
		g, ga = &fixed[nA]{}, &fixedAlias[nA]{}
	case "ab":
		g, ga = &fixed[nAb]{}, &fixedAlias[nAb]{}
	case "x1":
		g, ga = &fixed[nX1]{}, &fixedAlias[nX1]{}
	case "doc":
		g, ga = &fixed[nDoc]{}, &fixedAlias[nDoc]{}
	default:
		return nil, fmt.Errorf("script: no fixed generator type named %q", s.Name)
	}
	// the prototype handed to gengo carries initialised reference state
	for _, proto := range []gengo.Generator{g, ga} {
		if ps, ok := proto.(interface{ protoState() *state }); ok {
			ps.protoState().memo = map[string]int{}
		}
	}
	if s.Alias {
		return ga, nil
	}
	return g, nil
}

func expand(text string, gen string, typ string, st *state) string {
	h := "again"
	if !st.helper {
		h = "first"
	}
	return strings.NewReplacer("$T", typ, "$G", gen, "$N", fmt.Sprint(st.counter), "$H", h, "$M", fmt.Sprint(len(st.memo))).Replace(text)
}

// recording wraps a snippet so that the bytes flowing into the writer are captured.
func recording(inner snippet.Snippet, into *strings.Builder) snippet.Snippet {
	return snippet.Func(func(ctx context.Context) iter.Seq[string] {
		return func(yield func(string) bool) {
			if inner.IsNil() {
				return
			}
			for s := range inner.Frag(ctx) {
				into.WriteString(s)
				if !yield(s) {
					return
				}
			}
		}
	})
}

func render(c gengo.Context, pieces []Piece, gen, typ string, st *state, into *strings.Builder, obj *types.TypeName) {
	for _, p := range pieces {
		text := expand(p.Text, gen, typ, st)
		var sn snippet.Snippet
		switch p.Kind {
		case "docecho":
			// prints what gengo reports about the type: doc lines and (sorted) tags
			tags, doc := c.Doc(obj)
			keys := make([]string, 0, len(tags))
			for k := range tags {
				keys = append(keys, k)
			}
			sort.Strings(keys)
			var tb strings.Builder
			for _, k := range keys {
				fmt.Fprintf(&tb, " %s=%q", k, tags[k])
			}
			// ... and about the fields of a struct type
			fieldDocs := []string{}
			if st, ok := obj.Type().Underlying().(*types.Struct); ok {
				for i := 0; i < st.NumFields(); i++ {
					if _, fdoc := c.Doc(st.Field(i)); len(fdoc) > 0 {
						fieldDocs = append(fieldDocs, st.Field(i).Name()+": "+strings.Join(fdoc, " | "))
					}
				}
			}
			doc = append(append([]string{}, doc...), fieldDocs...)
			sn = snippet.Sprintf("\n%T\nvar _"+gen+"_doc_"+typ+" = %v\n", snippet.Comment(fmt.Sprintf("%s:%s doc=%q", typ, tb.String(), doc)), doc)
		case "locate":
			// prints which package gengo locates the type's declaration in
			where := "<nil>"
			if lp := c.LocateInPackage(obj.Pos()); lp != nil {
				where = lp.Pkg().Path()
			}
			sn = snippet.Sprintf("\n%T\nvar _"+gen+"_located_"+typ+" = %v\n", snippet.Comment(fmt.Sprintf("%s is declared in %s", typ, where)), where)
		case "block":
			sn = snippet.Block(text)
		case "sharedexpose":
			// like "t", but the references are PkgExpose values shared by every file of the run
			args := snippet.Args{}
			for i, r := range p.Refs {
				sn, ok := sharedExpose[r]
				if !ok {
					dot := strings.LastIndex(r, ".")
					sn = snippet.PkgExpose(r[:dot], r[dot+1:])
					sharedExpose[r] = sn
				}
				args[fmt.Sprintf("R%d", i)] = sn
			}
			sn = snippet.T(text, args)
		case "multi":
			parts := make([]snippet.Snippet, 0, len(p.Parts))
			for _, pt := range p.Parts {
				parts = append(parts, snippet.Block(expand(pt, gen, typ, st)))
			}
			sn = snippet.Snippets(slices.Values(parts))
		case "t":
			args := snippet.Args{}
			refs := p.Refs
			if p.Rotate && len(refs) > 0 {
				// which references a package uses depends on the package (not on what else is generated)
				k := 0
				for _, ch := range []byte(c.Package("").Pkg().Path()) {
					k += int(ch)
				}
				k %= len(refs)
				refs = append(append([]string{}, refs[k:]...), refs[:k]...)
				refs = refs[:len(refs)-k]
				for i := len(refs); i < len(p.Refs); i++ {
					refs = append(refs, refs[len(refs)-1])
				}
			}
			for i, r := range refs {
				args[fmt.Sprintf("R%d", i)] = snippet.ID(r)
			}
			for i, r := range p.Unused {
				args[fmt.Sprintf("U%d", i)] = snippet.ID(r)
			}
			sn = snippet.T(text, args)
		case "docforeign":
			// asks gengo about the documentation of every type of every imported package of the module (renders nothing)
			imps := c.Package("").Imports()
			paths := make([]string, 0, len(imps))
			for ip := range imps {
				paths = append(paths, ip)
			}
			sort.Strings(paths)
			for _, ip := range paths {
				ipkg := c.Package(ip)
				if ipkg != nil && ipkg.Module() == nil {
					// a package of the standard library: Context.Doc must report what the declaring package's own Doc reports
					tn := ipkg.Types()
					names := make([]string, 0, len(tn))
					for n := range tn {
						names = append(names, n)
					}
					sort.Strings(names)
					for _, n := range names {
						if !tn[n].Exported() {
							continue
						}
						ctags, cdoc := c.Doc(tn[n])
						ptags, pdoc := ipkg.Doc(tn[n].Pos())
						if len(cdoc) != len(pdoc) || len(ctags) < len(ptags) {
							panic(fmt.Sprintf("vt: Context.Doc(%s.%s) reports %d doc lines and %d tags, the declaring package's Doc reports %d lines and %d tags", ip, n, len(cdoc), len(ctags), len(pdoc), len(ptags)))
						}
					}
					continue
				}
				if ipkg == nil || ipkg.Module() == nil || c.Package("").Module() == nil || ipkg.Module().Path != c.Package("").Module().Path {
					continue
				}
				tn := ipkg.Types()
				names := make([]string, 0, len(tn))
				for n := range tn {
					names = append(names, n)
				}
				sort.Strings(names)
				for _, n := range names {
					_, _ = c.Doc(tn[n])
				}
			}
			continue
		case "value":
			var v any
			if err := json.Unmarshal([]byte(p.Text), &v); err != nil {
				panic("script: bad value piece: " + err.Error())
			}
			sn = snippet.Value(toTyped(v))
		case "valuecompete":
			// a map whose entries mention two packages with the same natural import name: which one an entry mentions must
			// not depend on the iteration order of the map
			sn = snippet.Value(map[string]delta.Mixed{
				"diag": {P: &lcodec.Opt{N: 1}},
				"info": {Q: &rcodec.Opt{S: "x"}},
				"more": {M: []lcodec.Mode{"m"}},
				"last": {L: []rcodec.Level{1}},
				"both": {Q: &rcodec.Opt{S: "y"}, P: &lcodec.Opt{N: 2}},
			})
		default:
			panic("script: unknown piece kind " + p.Kind)
		}
		c.Render(recording(sn, into))
		if strings.Contains(p.Text, "$H") {
			st.helper = true
		}
	}
}

// toTyped turns decoded JSON into values the dumper supports (map[string]any has interface elements, which render as nil).
func toTyped(v any) any {
	switch x := v.(type) {
	case map[string]any:
		// choose a concrete element type from the first value
		allStr, allNum := true, true
		for _, e := range x {
			if _, ok := e.(string); !ok {
				allStr = false
			}
			if _, ok := e.(float64); !ok {
				allNum = false
			}
		}
		switch {
		case allStr:
			m := map[string]string{}
			for k, e := range x {
				m[k] = e.(string)
			}
			return m
		case allNum:
			m := map[string]int{}
			for k, e := range x {
				m[k] = int(e.(float64))
			}
			return m
		}
		m := map[string][]string{}
		for k, e := range x {
			m[k] = []string{fmt.Sprint(e)}
		}
		return m
	case []any:
		out := make([]string, len(x))
		for i, e := range x {
			out[i] = fmt.Sprint(e)
		}
		return out
	case float64:
		return int(x)
	}
	return v
}

var errInjected = errors.New("injected failure")

func toErr(kind string, where string) error {
	switch kind {
	case "":
		return nil
	case "skip":
		return gengo.ErrSkip
	case "ignore":
		return gengo.ErrIgnore
	case "wrapskip":
		return fmt.Errorf("wrapped at %s: %w", where, gengo.ErrSkip)
	case "wrapignore":
		return fmt.Errorf("wrapped at %s: %w", where, gengo.ErrIgnore)
	case "error":
		return errInjected
	case "wraperror":
		return fmt.Errorf("at %s: %w", where, errInjected)
	// failures of the generator's own that wrap well-known sentinel errors (a time-out of its own context, a file it could not read):
	// to gengo they are errors like any other
	case "wrap:canceled":
		return fmt.Errorf("at %s: lookup gave up: %w", where, context.Canceled)
	case "wrap:deadline":
		return fmt.Errorf("at %s: lookup timed out: %w", where, context.DeadlineExceeded)
	case "wrap:eof":
		return fmt.Errorf("at %s: reading schema: %w", where, io.EOF)
	case "wrap:notexist":
		return fmt.Errorf("at %s: %w", where, &fs.PathError{Op: "open", Path: "schema.json", Err: fs.ErrNotExist})
	case "join:canceled":
		return errors.Join(fmt.Errorf("at %s: %w", where, errInjected), context.Canceled)
	case "bare:deadline":
		return context.DeadlineExceeded
	case "exit":
		os.Exit(3)
	case "kill":
		_ = syscall.Kill(os.Getpid(), syscall.SIGKILL)
		select {}
	case "panic":
		panic("injected panic at " + where)
	}
	panic("script: unknown error kind " + kind)
}

func outFileUnchanged(c gengo.Context, gen string) bool {
	fn := filepath.Join(c.Package("").SourceDir(), fmt.Sprintf("%s.%s.go", baseName, gen))
	b, err := os.ReadFile(fn)
	old, had := preTree[fn]
	if err != nil {
		return !had
	}
	return had && old == string(b)
}

func generate(s *Script, st *state, c gengo.Context, obj *types.TypeName, alias bool) error {
	if s == nil {
		panic("script: generator invoked without a registered script")
	}
	key := obj.Pkg().Path() + "." + obj.Name()
	act, ok := s.PerType[key]
	if !ok {
		act = s.Default
	}
	if alias && s.OnAlias != nil {
		act = *s.OnAlias
	}
	st.counter++
	if st.seen == nil {
		st.seen = map[string]bool{}
	}
	if st.memo == nil {
		st.memo = map[string]int{}
	}
	st.memo[key]++
	kind := "type"
	if alias {
		kind = "alias"
	}
	call := Call{
		Seq: len(calls), Kind: kind, Gen: s.Name, Pkg: c.Package("").Pkg().Path(), TypePkg: obj.Pkg().Path(), Type: obj.Name(),
		PkgScope: obj.Parent() == obj.Pkg().Scope(), IsAlias: obj.IsAlias(), Instance: st.instance(), Err: act.Err,
	}
	var into strings.Builder
	render(c, act.Render, s.Name, obj.Name(), st, &into, obj)
	st.seen[key] = true
	call.Rendered = into.String()
	calls = append(calls, call)
	typ := obj.Name()
	var register func(c gengo.Context, d DeferAction)
	register = func(c gengo.Context, d DeferAction) {
		deferIDs++
		id := deferIDs
		calls = append(calls, Call{Seq: len(calls), Kind: "register", Gen: s.Name, Pkg: c.Package("").Pkg().Path(), TypePkg: obj.Pkg().Path(), Type: typ, Instance: st.instance(), DeferIdx: id})
		c.Defer(func(c gengo.Context) error {
			dc := Call{Seq: len(calls), Kind: "defer", Gen: s.Name, Pkg: c.Package("").Pkg().Path(), TypePkg: obj.Pkg().Path(), Type: typ, Instance: st.instance(),
				DeferIdx: id, FileUnchanged: outFileUnchanged(c, s.Name), Err: d.Err}
			var into strings.Builder
			render(c, d.Render, s.Name, typ, st, &into, obj)
			dc.Rendered = into.String()
			calls = append(calls, dc)
			for _, then := range d.Then {
				register(c, then)
			}
			return toErr(d.Err, fmt.Sprintf("deferred callback %d of %s", id, key))
		})
	}
	for _, d := range act.Defers {
		register(c, d)
	}
	return toErr(act.Err, key)
}

// RunSpec is one gengo invocation.
type RunSpec struct {
	Dir string `json:"dir"`           // module root
	Cwd string `json:"cwd,omitempty"` // working directory relative to Dir ("" = the module root itself); entrypoints must then be import paths
	// FileSizeLimit (child runs only): RLIMIT_FSIZE in bytes while Execute runs (packages are loaded before it drops; SIGXFSZ
	// is ignored, so a write beyond the limit fails with EFBIG); 0 = no limit
	FileSizeLimit int `json:"filesizelimit,omitempty"`
	// Retry: when the first Execute fails, Execute is called once more on the SAME context with these generators (what a
	// caller does that repairs the cause and tries again)
	Retry []*Script `json:"retry,omitempty"`
	// Then: further generator sets, each handed to Execute on the SAME context after the previous Execute succeeded
	Then        [][]*Script         `json:"then,omitempty"`
	Entrypoints []string            `json:"entrypoints"`
	All         bool                `json:"all,omitempty"`
	Force       bool                `json:"force,omitempty"`
	Globals     map[string][]string `json:"globals,omitempty"`
	Base        string              `json:"base"`
	Scripts     []*Script           `json:"scripts,omitempty"`
	Real        []string            `json:"real,omitempty"` // registered real generators to run after the scripted ones
	// NoRecover: a panic of a generator is not recovered (child role: the process dies of it)
	NoRecover bool `json:"norecover,omitempty"`
}

type RunResult struct {
	LoadErr   string `json:"loaderr,omitempty"`
	Err       string `json:"err,omitempty"`
	ErrSyntax bool   `json:"errsyntax,omitempty"` // the error is (or wraps) a go/scanner.ErrorList
	Failed    bool   `json:"failed,omitempty"`    // Execute returned a non-nil error
	Panic     string `json:"panic,omitempty"`
	Calls     []Call `json:"calls,omitempty"`
	// Retried: a second Execute was made on the same context with RunSpec.Retry (after the first one failed)
	Retried     bool `json:"retried,omitempty"`
	RetryFailed bool `json:"retryfailed,omitempty"`
	// ThenFrom: per RunSpec.Then set, the index into Calls of its first call
	ThenFrom []int `json:"thenfrom,omitempty"`
	// RetryFrom: index into Calls of the first call made by the second Execute
	RetryFrom int    `json:"retryfrom,omitempty"`
	RetryErr  string `json:"retryerr,omitempty"`
}

func snapshotOutputs(root, base string) map[string]string {
	out := map[string]string{}
	_ = filepath.Walk(root, func(p string, info os.FileInfo, err error) error {
		if err != nil || info.IsDir() {
			return nil
		}
		if strings.HasPrefix(filepath.Base(p), base+".") {
			if b, err := os.ReadFile(p); err == nil {
				out[p] = string(b)
			}
		}
		return nil
	})
	return out
}

// Run executes gengo in this process: chdir into rs.Dir, silence os.Stdout, NewContext + Execute.
func Run(rs RunSpec) (res RunResult) {
	old, err := os.Getwd()
	if err != nil {
		panic("script: getwd: " + err.Error())
	}
	if err := os.Chdir(filepath.Join(rs.Dir, filepath.FromSlash(rs.Cwd))); err != nil {
		panic("script: chdir: " + err.Error())
	}
	defer os.Chdir(old)
	devnull, err := os.OpenFile(os.DevNull, os.O_WRONLY, 0)
	if err != nil {
		panic("script: " + err.Error())
	}
	realStdout := os.Stdout
	os.Stdout = devnull
	defer func() {
		os.Stdout = realStdout
		devnull.Close()
	}()

	current = map[string]*Script{}
	sharedExpose = map[string]snippet.Snippet{}
	calls = nil
	instances = 0
	deferIDs = 0
	baseName = rs.Base
	abs, _ := filepath.EvalSymlinks(rs.Dir)
	preTree = snapshotOutputs(abs, rs.Base)
	for k, v := range snapshotOutputs(rs.Dir, rs.Base) {
		preTree[k] = v
	}

	var gens []gengo.Generator
	for _, s := range rs.Scripts {
		g, err := Build(s)
		if err != nil {
			panic(err.Error())
		}
		current[s.Name] = s
		gens = append(gens, g)
	}
	if len(rs.Real) > 0 {
		real := gengo.GetRegisteredGenerators(rs.Real...)
		if len(real) != len(rs.Real) {
			panic(fmt.Sprintf("script: real generators %v not all registered", rs.Real))
		}
		gens = append(gens, real...)
	}

	if !rs.NoRecover {
		defer func() {
			if p := recover(); p != nil {
				res.Panic = fmt.Sprint(p)
				res.Calls = calls
			}
		}()
	}
	c, err := gengo.NewContext(&gengo.GeneratorArgs{
		Globals: rs.Globals, Entrypoint: rs.Entrypoints, OutputFileBaseName: rs.Base, All: rs.All, Force: rs.Force,
	})
	if err != nil {
		res.LoadErr = err.Error()
		return res
	}
	restoreLimit := func() {}
	if rs.FileSizeLimit > 0 {
		var old syscall.Rlimit
		if err := syscall.Getrlimit(syscall.RLIMIT_FSIZE, &old); err != nil {
			panic("script: getrlimit: " + err.Error())
		}
		signal.Ignore(syscall.SIGXFSZ)
		if err := syscall.Setrlimit(syscall.RLIMIT_FSIZE, &syscall.Rlimit{Cur: uint64(rs.FileSizeLimit), Max: old.Max}); err != nil {
			panic("script: setrlimit: " + err.Error())
		}
		restoreLimit = func() { _ = syscall.Setrlimit(syscall.RLIMIT_FSIZE, &old) }
	}
	execErr := c.Execute(context.Background(), gens...)
	restoreLimit()
	if err := execErr; err != nil {
		res.Failed = true
		res.Err = err.Error()
		res.ErrSyntax = isScannerList(err)
		if len(rs.Retry) > 0 {
			var again []gengo.Generator
			for _, s := range rs.Retry {
				g, err := Build(s)
				if err != nil {
					panic(err.Error())
				}
				current[s.Name] = s
				again = append(again, g)
			}
			res.Retried = true
			res.RetryFrom = len(calls)
			if err := c.Execute(context.Background(), again...); err != nil {
				res.RetryFailed = true
				res.RetryErr = err.Error()
			}
		}
	}
	if execErr == nil {
		for _, set := range rs.Then {
			var next []gengo.Generator
			for _, s := range set {
				g, err := Build(s)
				if err != nil {
					panic(err.Error())
				}
				current[s.Name] = s
				next = append(next, g)
			}
			res.ThenFrom = append(res.ThenFrom, len(calls))
			if err := c.Execute(context.Background(), next...); err != nil {
				res.Failed = true
				res.Err = err.Error()
				break
			}
		}
	}
	res.Calls = calls
	return res
}

// ChildEnv is the environment variable that puts a test binary into the child role.
const ChildEnv = "VT_RUN_CHILD"

// ChildMain must be called from TestMain: if the process is a child it performs the run and exits.
func ChildMain() {
	f := os.Getenv(ChildEnv)
	if f == "" {
		return
	}
	b, err := os.ReadFile(f)
	if err != nil {
		fmt.Fprintln(os.Stderr, "child: ", err)
		os.Exit(97)
	}
	var rs RunSpec
	if err := json.Unmarshal(b, &rs); err != nil {
		fmt.Fprintln(os.Stderr, "child: ", err)
		os.Exit(97)
	}
	res := Run(rs)
	out, _ := json.Marshal(res)
	if err := os.WriteFile(f+".out", out, 0o644); err != nil {
		fmt.Fprintln(os.Stderr, "child: ", err)
		os.Exit(97)
	}
	os.Exit(0)
}

// RunChild executes the run in a fresh process (the test binary itself in the child role).
// exit is the child's exit code (-1 when it was killed by a signal); res is only meaningful when exit == 0.
func RunChild(rs RunSpec, scratch string) (res RunResult, exit int, stderr string) {
	in := filepath.Join(scratch, fmt.Sprintf("run-%d.json", os.Getpid()))
	b, _ := json.Marshal(rs)
	if err := os.WriteFile(in, b, 0o644); err != nil {
		panic("script: " + err.Error())
	}
	defer os.Remove(in)
	defer os.Remove(in + ".out")
	cmd := exec.Command(os.Args[0], "-test.run", "^$")
	cmd.Env = append(os.Environ(), ChildEnv+"="+in, "VT_OUT=")
	cmd.Dir = rs.Dir
	var eb strings.Builder
	cmd.Stderr = &eb
	err := cmd.Run()
	stderr = eb.String()
	if err != nil {
		var ee *exec.ExitError
		if errors.As(err, &ee) {
			exit = ee.ExitCode()
		} else {
			panic("script: cannot start child: " + err.Error())
		}
		return res, exit, stderr
	}
	ob, err := os.ReadFile(in + ".out")
	if err != nil {
		panic("script: child wrote no result: " + err.Error() + "\n" + stderr)
	}
	if err := json.Unmarshal(ob, &res); err != nil {
		panic("script: " + err.Error())
	}
	return res, 0, stderr
}
