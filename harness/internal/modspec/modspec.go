// Package modspec describes synthetic Go modules as plain data, writes them to
// disk and snapshots directory trees. The harness keeps the description, so every
// oracle knows the ground truth (which names are package-scope, which tags apply)
// without asking the code under test.
package modspec

import (
	"bytes"
	"crypto/sha256"
	"encoding/hex"
	"fmt"
	"io/fs"
	"os"
	"path"
	"path/filepath"
	"sort"
	"strings"
)

type File struct {
	Name string `json:"name"` // relative to its directory
	Data string `json:"data"`
}

// Field of a struct declaration.
type Field struct {
	Names    []string `json:"names,omitempty"` // empty = embedded
	Type     string   `json:"type"`
	Tag      string   `json:"tag,omitempty"`
	Doc      []string `json:"doc,omitempty"`
	Trailing string   `json:"trailing,omitempty"`
}

// Decl is one top-level declaration of a Go file.
//
// Kind:
//
//	struct scalar map slice functype iface   defined types (Type gives the underlying type text for non-struct kinds)
//	alias                                    type Name = Type
//	generic                                  type Name[TP any] struct{ V TP }      (TP may reuse a package-level name)
//	group                                    type ( ... ) with Group members
//	func                                     func Name() { local declarations }    (Locals)
//	genericfunc                              func Name[TP any](v TP) {}            (TP may reuse a package-level name)
//	method                                   func (Recv) Name() { locals }
//	const var                                single or grouped (Group) value declarations
//	raw                                      Text is emitted verbatim
type Decl struct {
	Kind     string   `json:"kind"`
	Name     string   `json:"name,omitempty"`
	Doc      []string `json:"doc,omitempty"`      // comment lines directly above (without the // marker)
	Detached []string `json:"detached,omitempty"` // comment lines above, separated from the declaration by a blank line
	Trailing string   `json:"trailing,omitempty"`
	Type     string   `json:"type,omitempty"`
	TP       string   `json:"tp,omitempty"`
	Recv     string   `json:"recv,omitempty"`
	Fields   []Field  `json:"fields,omitempty"`
	Locals   []Decl   `json:"locals,omitempty"`
	Group    []Decl   `json:"group,omitempty"`
	Value    string   `json:"value,omitempty"`
	Text     string   `json:"text,omitempty"`
	AsVar    bool     `json:"asvar,omitempty"` // kind func: written as `var name = func() { ... }`
}

type GoFile struct {
	Name    string   `json:"name"`
	PkgDoc  []string `json:"pkgdoc,omitempty"`  // comment lines directly above the package clause
	Header  []string `json:"header,omitempty"`  // detached comment lines at the top of the file
	Imports []string `json:"imports,omitempty"` // import paths (blank-imported unless used by Decl text)
	Build   string   `json:"build,omitempty"`   // build constraint expression (a //go:build line ahead of everything else)
	Decls   []Decl   `json:"decls,omitempty"`
}

type Pkg struct {
	Dir   string   `json:"dir"`  // relative to the module root, "" = root
	Name  string   `json:"name"` // package clause
	Files []GoFile `json:"files"`
	Other []File   `json:"other,omitempty"` // further files in the directory (non-Go, pre-existing outputs, look-alikes, nested paths allowed)
}

type Mod struct {
	Path  string `json:"path"`
	Go    string `json:"go,omitempty"` // go directive, "" = none
	Pkgs  []Pkg  `json:"pkgs"`
	Extra []File `json:"extra,omitempty"` // files relative to the module root
}

func (m *Mod) PkgPath(p *Pkg) string {
	if p.Dir == "" {
		return m.Path
	}
	return m.Path + "/" + p.Dir
}

func (m *Mod) PkgByDir(dir string) *Pkg {
	for i := range m.Pkgs {
		if m.Pkgs[i].Dir == dir {
			return &m.Pkgs[i]
		}
	}
	return nil
}

func (m *Mod) PkgByPath(pp string) *Pkg {
	for i := range m.Pkgs {
		if m.PkgPath(&m.Pkgs[i]) == pp {
			return &m.Pkgs[i]
		}
	}
	return nil
}

func writeComment(b *bytes.Buffer, indent string, lines []string) {
	for _, l := range lines {
		if l == "" {
			fmt.Fprintf(b, "%s//\n", indent)
		} else {
			fmt.Fprintf(b, "%s// %s\n", indent, l)
		}
	}
}

func trailing(s string) string {
	if s == "" {
		return ""
	}
	return " // " + s
}

func (d *Decl) spec(b *bytes.Buffer, indent string, grouped bool) {
	kw := "type "
	if grouped {
		kw = ""
	}
	switch d.Kind {
	case "struct":
		if len(d.Fields) == 0 {
			fmt.Fprintf(b, "%s%s%s struct{}%s\n", indent, kw, d.Name, trailing(d.Trailing))
			return
		}
		fmt.Fprintf(b, "%s%s%s struct {\n", indent, kw, d.Name)
		for _, f := range d.Fields {
			writeComment(b, indent+"\t", f.Doc)
			fmt.Fprintf(b, "%s\t", indent)
			if len(f.Names) > 0 {
				fmt.Fprintf(b, "%s ", strings.Join(f.Names, ", "))
			}
			b.WriteString(f.Type)
			if f.Tag != "" {
				fmt.Fprintf(b, " `%s`", f.Tag)
			}
			b.WriteString(trailing(f.Trailing))
			b.WriteString("\n")
		}
		fmt.Fprintf(b, "%s}%s\n", indent, trailing(d.Trailing))
	case "scalar", "map", "slice", "functype", "iface", "defined":
		fmt.Fprintf(b, "%s%s%s %s%s\n", indent, kw, d.Name, d.Type, trailing(d.Trailing))
	case "alias":
		fmt.Fprintf(b, "%s%s%s = %s%s\n", indent, kw, d.Name, d.Type, trailing(d.Trailing))
	case "generic":
		if len(d.Fields) > 0 {
			fmt.Fprintf(b, "%s%s%s[%s any] struct {\n", indent, kw, d.Name, d.TP)
			for _, f := range d.Fields {
				writeComment(b, indent+"\t", f.Doc)
				fmt.Fprintf(b, "%s\t", indent)
				if len(f.Names) > 0 {
					fmt.Fprintf(b, "%s ", strings.Join(f.Names, ", "))
				}
				b.WriteString(f.Type)
				if f.Tag != "" {
					fmt.Fprintf(b, " `%s`", f.Tag)
				}
				b.WriteString(trailing(f.Trailing))
				b.WriteString("\n")
			}
			fmt.Fprintf(b, "%s}%s\n", indent, trailing(d.Trailing))
			return
		}
		fmt.Fprintf(b, "%s%s%s[%s any] struct{ V %s }%s\n", indent, kw, d.Name, d.TP, d.TP, trailing(d.Trailing))
	default:
		panic("modspec: not a type spec kind: " + d.Kind)
	}
}

func (d *Decl) valueSpec(b *bytes.Buffer, indent, kw string) {
	fmt.Fprintf(b, "%s%s%s", indent, kw, d.Name)
	if d.Type != "" {
		fmt.Fprintf(b, " %s", d.Type)
	}
	if d.Value != "" {
		fmt.Fprintf(b, " = %s", d.Value)
	}
	b.WriteString(trailing(d.Trailing))
	b.WriteString("\n")
}

func (d *Decl) locals(b *bytes.Buffer) {
	for _, l := range d.Locals {
		writeComment(b, "\t", l.Doc)
		switch l.Kind {
		case "const":
			l.valueSpec(b, "\t", "const ")
			fmt.Fprintf(b, "\t_ = %s\n", l.Name)
		case "var":
			l.valueSpec(b, "\t", "var ")
			fmt.Fprintf(b, "\t_ = %s\n", l.Name)
		default:
			l.spec(b, "\t", false)
		}
	}
}

// Source renders the declaration.
func (d *Decl) Source(b *bytes.Buffer) {
	if len(d.Detached) > 0 {
		writeComment(b, "", d.Detached)
		b.WriteString("\n")
	}
	writeComment(b, "", d.Doc)
	switch d.Kind {
	case "group":
		b.WriteString("type (\n")
		for i := range d.Group {
			g := &d.Group[i]
			if len(g.Detached) > 0 {
				writeComment(b, "\t", g.Detached)
				b.WriteString("\n")
			}
			writeComment(b, "\t", g.Doc)
			g.spec(b, "\t", true)
		}
		b.WriteString(")\n")
	case "func":
		if d.AsVar {
			// a function literal that initialises a package-level variable: its body is no FuncDecl
			fmt.Fprintf(b, "var %s = func() {\n", d.Name)
			d.locals(b)
			b.WriteString("}\n")
			break
		}
		fmt.Fprintf(b, "func %s() {\n", d.Name)
		d.locals(b)
		b.WriteString("}\n")
	case "genericfunc":
		fmt.Fprintf(b, "func %s[%s any](v %s) {\n", d.Name, d.TP, d.TP)
		d.locals(b)
		b.WriteString("}\n")
	case "method":
		fmt.Fprintf(b, "func (%s) %s() {\n", d.Recv, d.Name)
		d.locals(b)
		b.WriteString("}\n")
	case "const", "var":
		if len(d.Group) > 0 {
			fmt.Fprintf(b, "%s (\n", d.Kind)
			for i := range d.Group {
				g := &d.Group[i]
				if len(g.Detached) > 0 {
					writeComment(b, "\t", g.Detached)
					b.WriteString("\n")
				}
				writeComment(b, "\t", g.Doc)
				g.valueSpec(b, "\t", "")
			}
			b.WriteString(")\n")
		} else {
			d.valueSpec(b, "", d.Kind+" ")
		}
	case "raw":
		b.WriteString(d.Text)
		if !strings.HasSuffix(d.Text, "\n") {
			b.WriteString("\n")
		}
	default:
		d.spec(b, "", false)
	}
}

// Source renders the Go file.
func (f *GoFile) Source(pkgName string) string {
	b := &bytes.Buffer{}
	if f.Build != "" {
		fmt.Fprintf(b, "//go:build %s\n\n", f.Build)
	}
	if len(f.Header) > 0 {
		writeComment(b, "", f.Header)
		b.WriteString("\n")
	}
	writeComment(b, "", f.PkgDoc)
	fmt.Fprintf(b, "package %s\n", pkgName)
	if len(f.Imports) > 0 {
		b.WriteString("\nimport (\n")
		for _, imp := range f.Imports {
			if strings.Contains(imp, " ") { // "name path" form
				parts := strings.SplitN(imp, " ", 2)
				fmt.Fprintf(b, "\t%s %q\n", parts[0], parts[1])
			} else {
				fmt.Fprintf(b, "\t_ %q\n", imp)
			}
		}
		b.WriteString(")\n")
	}
	for i := range f.Decls {
		b.WriteString("\n")
		f.Decls[i].Source(b)
	}
	return b.String()
}

// TypeInfo is the ground truth about one type declaration.
type TypeInfo struct {
	Name     string
	Kind     string // Decl kind
	Alias    bool
	Generic  bool
	PkgLevel bool
	Doc      []string
	File     string
	// ShadowedBy lists local declarations / type parameters of the package that reuse this name.
	Shadowed bool
}

// Types returns ground truth for all type declarations of the package: package-level first, then locals and type parameters.
func (p *Pkg) Types() (pkgLevel []TypeInfo, local []TypeInfo) {
	addSpec := func(d *Decl, file string, lvl bool) {
		ti := TypeInfo{Name: d.Name, Kind: d.Kind, Alias: d.Kind == "alias", Generic: d.Kind == "generic", PkgLevel: lvl, Doc: d.Doc, File: file}
		if lvl {
			pkgLevel = append(pkgLevel, ti)
		} else {
			local = append(local, ti)
		}
		if d.Kind == "generic" && d.TP != "" {
			local = append(local, TypeInfo{Name: d.TP, Kind: "typeparam", File: file})
		}
	}
	for i := range p.Files {
		f := &p.Files[i]
		for j := range f.Decls {
			d := &f.Decls[j]
			switch d.Kind {
			case "group":
				for k := range d.Group {
					addSpec(&d.Group[k], f.Name, true)
				}
			case "func", "method", "genericfunc":
				if d.Kind == "genericfunc" && d.TP != "" {
					local = append(local, TypeInfo{Name: d.TP, Kind: "typeparam", File: f.Name})
				}
				for k := range d.Locals {
					l := &d.Locals[k]
					if l.Kind != "const" && l.Kind != "var" {
						addSpec(l, f.Name, false)
					}
				}
			case "const", "var", "raw":
			default:
				addSpec(d, f.Name, true)
			}
		}
	}
	names := map[string]bool{}
	for _, l := range local {
		names[l.Name] = true
	}
	for i := range pkgLevel {
		if names[pkgLevel[i].Name] {
			pkgLevel[i].Shadowed = true
		}
	}
	return
}

// Write lays the module out under root (which must exist and be empty).
func (m *Mod) Write(root string) error {
	gomod := "module " + m.Path + "\n"
	if m.Go != "" {
		gomod += "\ngo " + m.Go + "\n"
	}
	if err := os.WriteFile(filepath.Join(root, "go.mod"), []byte(gomod), 0o644); err != nil {
		return err
	}
	for i := range m.Pkgs {
		p := &m.Pkgs[i]
		dir := filepath.Join(root, filepath.FromSlash(p.Dir))
		if err := os.MkdirAll(dir, 0o755); err != nil {
			return err
		}
		for j := range p.Files {
			if err := os.WriteFile(filepath.Join(dir, p.Files[j].Name), []byte(p.Files[j].Source(p.Name)), 0o644); err != nil {
				return err
			}
		}
		for _, o := range p.Other {
			fn := filepath.Join(dir, filepath.FromSlash(o.Name))
			if err := os.MkdirAll(filepath.Dir(fn), 0o755); err != nil {
				return err
			}
			if err := os.WriteFile(fn, []byte(o.Data), 0o644); err != nil {
				return err
			}
		}
	}
	for _, o := range m.Extra {
		fn := filepath.Join(root, filepath.FromSlash(o.Name))
		if err := os.MkdirAll(filepath.Dir(fn), 0o755); err != nil {
			return err
		}
		if err := os.WriteFile(fn, []byte(o.Data), 0o644); err != nil {
			return err
		}
	}
	return nil
}

// Tree is a snapshot of a directory: slash-separated relative path -> content ("<dir>" for directories, "-> target" for symlinks).
type Tree map[string]string

func Snapshot(root string) (Tree, error) {
	t := Tree{}
	err := filepath.WalkDir(root, func(p string, d fs.DirEntry, err error) error {
		if err != nil {
			return err
		}
		rel, _ := filepath.Rel(root, p)
		rel = filepath.ToSlash(rel)
		if rel == "." {
			return nil
		}
		switch {
		case d.Type()&fs.ModeSymlink != 0:
			tgt, _ := os.Readlink(p)
			t[rel] = "-> " + tgt
		case d.IsDir():
			t[rel] = "<dir>"
		default:
			b, err := os.ReadFile(p)
			if err != nil {
				return err
			}
			t[rel] = string(b)
		}
		return nil
	})
	return t, err
}

// Restore makes root equal to the snapshot (removes extra files, rewrites changed ones).
func (t Tree) Restore(root string) error {
	cur, err := Snapshot(root)
	if err != nil {
		return err
	}
	var extra []string
	for p := range cur {
		if _, ok := t[p]; !ok {
			extra = append(extra, p)
		}
	}
	sort.Sort(sort.Reverse(sort.StringSlice(extra)))
	for _, p := range extra {
		if err := os.RemoveAll(filepath.Join(root, filepath.FromSlash(p))); err != nil {
			return err
		}
	}
	paths := make([]string, 0, len(t))
	for p := range t {
		paths = append(paths, p)
	}
	sort.Strings(paths)
	for _, p := range paths {
		fn := filepath.Join(root, filepath.FromSlash(p))
		v := t[p]
		switch {
		case v == "<dir>":
			if err := os.MkdirAll(fn, 0o755); err != nil {
				return err
			}
		case strings.HasPrefix(v, "-> "):
			if cur[p] != v {
				_ = os.Remove(fn)
				if err := os.Symlink(strings.TrimPrefix(v, "-> "), fn); err != nil {
					return err
				}
			}
		default:
			if cur[p] != v {
				if err := os.MkdirAll(filepath.Dir(fn), 0o755); err != nil {
					return err
				}
				if err := os.WriteFile(fn, []byte(v), 0o644); err != nil {
					return err
				}
			}
		}
	}
	return nil
}

type Change struct {
	Path string
	Kind string // created | deleted | changed
}

// Diff lists the paths that differ between two snapshots.
func Diff(before, after Tree) []Change {
	var out []Change
	for p, v := range after {
		old, ok := before[p]
		switch {
		case !ok:
			out = append(out, Change{p, "created"})
		case old != v:
			out = append(out, Change{p, "changed"})
		}
	}
	for p := range before {
		if _, ok := after[p]; !ok {
			out = append(out, Change{p, "deleted"})
		}
	}
	sort.Slice(out, func(i, j int) bool { return out[i].Path < out[j].Path })
	return out
}

func (t Tree) Hash() string {
	paths := make([]string, 0, len(t))
	for p := range t {
		paths = append(paths, p)
	}
	sort.Strings(paths)
	h := sha256.New()
	for _, p := range paths {
		fmt.Fprintf(h, "%s\x00%d\x00%s\x00", p, len(t[p]), t[p])
	}
	return hex.EncodeToString(h.Sum(nil))
}

// Dir returns the directory part of a slash path ("" for top-level entries).
func Dir(p string) string {
	d := path.Dir(p)
	if d == "." {
		return ""
	}
	return d
}
