// Package yaml is a fixture whose import path has a dot in its LAST element (like gopkg.in/yaml.v3):
// the package path of a reference to it ends at the last dot of "…/yaml.v3.Node", not at the first one behind the last slash.
package yaml

type Kind int

type Node struct {
	Tag  string
	Kind Kind
}
