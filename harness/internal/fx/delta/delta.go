// Package delta holds fixture types that mention packages whose natural import name is the same (left/codec and right/codec,
// beta/v1 and gamma/v1), so that which of them a literal mentions first decides their import names.
package delta

import (
	betav1 "vt/internal/fx/beta/v1"
	gammav1 "vt/internal/fx/gamma/v1"
	lcodec "vt/internal/fx/left/codec"
	rcodec "vt/internal/fx/right/codec"
)

// Mixed: every field is omitted from a literal when it is zero
type Mixed struct {
	B *betav1.Same
	G *gammav1.Same
	P *lcodec.Opt
	Q *rcodec.Opt
	M []lcodec.Mode
	L []rcodec.Level
}

// Either holds one of the two
type Either struct {
	Left  *lcodec.Opt
	Right *rcodec.Opt
}
