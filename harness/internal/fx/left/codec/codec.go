// Package codec (left) holds fixture types; its natural import name is the same as that of right/codec.
package codec

type Opt struct {
	N int
}

type Mode string
