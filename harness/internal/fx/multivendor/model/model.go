// Package model holds fixture types under an import path with an element that merely ends in "vendor".
package model

type Item struct {
	ID int
}

type Code int16
