// Package v1 (gamma) holds fixture types; its package name clashes with beta/v1.
package v1

type Same struct {
	C bool
}

type Level uint8

type Status struct {
	Level Level
	Notes map[Level]string
	Codes [2]int8
}

type List[T any] struct {
	Items []T
}

type M[K comparable, V any] struct {
	Data map[K]V
}
