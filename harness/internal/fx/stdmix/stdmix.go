// Package stdmix makes the fixture loader pull in pairs of standard-library packages that share their last path element.
package stdmix

import (
	goscanner "go/scanner"
	htmltemplate "html/template"
	"text/scanner"
	"text/template"
	"time"
)

var (
	_ *template.Template
	_ *htmltemplate.Template
	_ scanner.Position
	_ goscanner.ErrorList
	_ time.Duration
)
