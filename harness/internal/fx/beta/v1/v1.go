// Package v1 (beta) holds fixture types; its package name clashes with gamma/v1.
package v1

import "vt/internal/fx/alpha"

type Kind string

type Same struct {
	B string
}

type Spec struct {
	Kind     Kind
	Replicas int
	Inner    alpha.Point
	Boxed    alpha.Box[Kind]
	Refs     []*alpha.Point
}

type List[T any] struct {
	Items []T
}
