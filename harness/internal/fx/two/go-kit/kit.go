// Package gokit (two): its directory name is not an identifier, and the twin package under the other parent normalises to the same import name.
package gokit

type Opt struct {
	A int
}

type Level int
