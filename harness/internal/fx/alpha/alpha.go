// Package alpha holds fixture types for the literal checks (C10, C11). It is compiled into the
// harness (reflect) and loaded from source (go/types).
package alpha

type (
	Bool    bool
	Int     int
	Int8    int8
	Int16   int16
	Int32   int32
	Int64   int64
	Uint    uint
	Uint8   uint8
	Uint16  uint16
	Uint32  uint32
	Uint64  uint64
	Uintptr uintptr
	Float32 float32
	Float64 float64
	String  string
	Rune    rune
	Byte    byte
)

type (
	Strings []string
	IntMap  map[string]int
	Arr     [3]int
	Matrix  [][]float64
)

// PointRef is a defined type whose underlying type is a pointer: *PointRef is a pointer to it, not **Point
type PointRef *Point

type Point struct {
	X, Y int
}

type Same struct {
	A int
}

type Named struct {
	Name  string
	N     Int
	P     Point
	Tags  Strings
	M     IntMap
	Ptr   *Point
	PS    *string
	PN    *Int
	Opt   map[string]Point
	Items []Point
	Arr   Arr
}

// Wide has many fields of mixed kinds; later positions hold booleans and small integers.
type Wide struct {
	A int
	B string
	C float64
	D []int
	E bool
	F bool
	G uint8
	H map[string]bool
	I *bool
	J [2]bool
	K Bool
	L int8
}

type Embedded struct {
	Point
	Label string
}

type Box[T any] struct {
	V T
}

type Pair[K comparable, V any] struct {
	Key K
	Val V
}

type Triple[A, B, C any] struct {
	A A
	B B
	C C
}

// enum-like scalars with String / Error methods: fmt-style printing of such a value yields the method's text, not the value
type (
	Stage  int
	Errno  uint16
	Digits int32
	Ratio  float64
	Flag   bool
	Label  string
)

func (s Stage) String() string  { return "stage-" + string(rune('a'+int(s)&7)) }
func (e Errno) Error() string   { return "errno" }
func (d Digits) String() string { return "30" }
func (r Ratio) String() string  { return "1.5" }
func (f Flag) String() string   { return "true" }
func (l Label) String() string  { return "<" + string(l) + ">" }

// Größe: a defined type with a non-ASCII name
type Größe int
