// Package codec (right) holds fixture types; its natural import name is the same as that of left/codec.
package codec

type Opt struct {
	S string
}

type Level int8
