// Package ev is the shared machinery of every check: it drives generated-input
// search with rapid, counts what was generated, decides non-triviality by the
// property's stated rule, records samples, shrinks failures to a replay file and
// writes a per-shard part file that cmd/vtmerge folds into /verif/evidence/<ID>.json.
package ev

import (
	"bufio"
	"encoding/json"
	"flag"
	"fmt"
	"hash/fnv"
	"os"
	"path/filepath"
	"regexp"
	"runtime"
	"runtime/debug"
	"sort"
	"strconv"
	"strings"
	"testing"
	"time"

	"pgregory.net/rapid"
)

// Stdout is the real standard output of the process; code under test logs to
// os.Stdout, which checks may redirect while it runs.
var Stdout = os.Stdout

type Meta struct {
	ID          string
	Level       string // exploration | fault_enumeration
	Rule        string
	Assumptions []string
}

type Budget struct {
	Quick    int
	Thorough int
}

type Part struct {
	PropertyID   string         `json:"property_id"`
	Tier         string         `json:"tier"`
	Seed         int            `json:"seed"`
	Shard        int            `json:"shard"`
	Level        string         `json:"level"`
	Rule         string         `json:"rule"`
	Assumptions  []string       `json:"assumptions"`
	Evaluations  int            `json:"evaluations"`
	NonTrivial   []uint64       `json:"nontrivial_hashes"`
	Classes      map[string]int `json:"classes"`
	Subs         map[string]int `json:"subs"`
	Samples      []any          `json:"samples"`
	Replayed     int            `json:"replayed_regressions"`
	KnownSeen    []string       `json:"known_findings_seen"`
	Excluded     int            `json:"excluded_known"`
	Violations   int            `json:"violations"`
	Replays      []string       `json:"replays"`
	Inconclusive string         `json:"inconclusive,omitempty"`
	Exhaustive   bool           `json:"exhaustive,omitempty"`
	Extra        map[string]any `json:"extra,omitempty"`
	WallS        float64        `json:"wall_s"`
}

type Recorder struct {
	T     *testing.T
	Meta  Meta
	Tier  string
	Seed  int
	Shard int
	NSh   int
	Root  string

	part     Part
	nt       map[uint64]struct{}
	samples  []any
	ntSample int
	start    time.Time
	soft     time.Time // past this moment Search evaluates no further generated case (VT_SOFT_SECS after the start; zero = no limit)
	subIdx   int

	counting bool

	replayFile string
	replay     *replayDoc
	known      map[string]string // key -> text
	finished   bool
}

type replayDoc struct {
	Property string          `json:"property"`
	Sub      string          `json:"sub"`
	Error    string          `json:"error,omitempty"`
	Case     json.RawMessage `json:"case"`
}

func envInt(k string, d int) int {
	if v := os.Getenv(k); v != "" {
		if n, err := strconv.Atoi(v); err == nil {
			return n
		}
	}
	return d
}

func Root() string {
	if r := os.Getenv("VT_ROOT"); r != "" {
		return r
	}
	return "/verif"
}

// replayDir is where violations are written (redirected for sensitivity runs against mutated copies of the repository).
func replayDir(root string) string {
	if d := os.Getenv("VT_REPLAY_DIR"); d != "" {
		return d
	}
	return filepath.Join(root, "replays")
}

// Begin starts recording for one property in this process (one shard).
func Begin(t *testing.T, m Meta) *Recorder {
	// unbounded recursion in the code under test ends quickly in a fatal "stack overflow" (the default limit of 1 GB takes minutes)
	debug.SetMaxStack(256 << 20)
	r := &Recorder{
		T: t, Meta: m,
		Tier:  os.Getenv("VT_TIER"),
		Seed:  envInt("VT_SEED", 1),
		Shard: envInt("VT_SHARD", 0),
		NSh:   envInt("VT_NSHARDS", 1),
		Root:  Root(),
		nt:    map[uint64]struct{}{},
		start: time.Now(),
	}
	if r.Tier == "" {
		r.Tier = "quick"
	}
	if secs := envInt("VT_SOFT_SECS", 0); secs > 0 {
		r.soft = r.start.Add(time.Duration(secs) * time.Second)
	}
	r.part = Part{
		PropertyID: m.ID, Tier: r.Tier, Seed: r.Seed, Shard: r.Shard, Level: m.Level, Rule: m.Rule,
		Assumptions: m.Assumptions, Classes: map[string]int{}, Subs: map[string]int{}, Extra: map[string]any{},
	}
	r.known = LoadKnown(r.Root, m.ID)
	if f := os.Getenv("VT_REPLAY"); f != "" {
		r.replayFile = f
		b, err := os.ReadFile(f)
		if err != nil {
			r.Inconclusive("cannot read replay file: " + err.Error())
		} else {
			var d replayDoc
			if err := json.Unmarshal(b, &d); err != nil {
				r.Inconclusive("cannot decode replay file: " + err.Error())
			} else {
				r.replay = &d
			}
		}
	}
	return r
}

// LoadKnown reads "known:" lines of KNOWN_FINDINGS.txt for one property.
func LoadKnown(root, id string) map[string]string {
	out := map[string]string{}
	f, err := os.Open(filepath.Join(root, "KNOWN_FINDINGS.txt"))
	if err != nil {
		return out
	}
	defer f.Close()
	sc := bufio.NewScanner(f)
	sc.Buffer(make([]byte, 1<<20), 1<<20)
	for sc.Scan() {
		line := strings.TrimSpace(sc.Text())
		if !strings.HasPrefix(line, "known:") {
			continue
		}
		fs := strings.Fields(strings.TrimPrefix(line, "known:"))
		if len(fs) < 2 || fs[0] != "property="+id || !strings.HasPrefix(fs[1], "key=") {
			continue
		}
		out[strings.TrimPrefix(fs[1], "key=")] = strings.Join(fs[2:], " ")
	}
	return out
}

// Known reports whether a finding with this key is listed as known (the
// generators then exclude that class by construction).
func (r *Recorder) Known(key string) bool { _, ok := r.known[key]; return ok }

func (r *Recorder) Replaying() bool { return r.replayFile != "" }

func (r *Recorder) Thorough() bool { return r.Tier == "thorough" }

func (r *Recorder) Inconclusive(reason string) {
	if r.part.Inconclusive == "" {
		r.part.Inconclusive = reason
	}
	fmt.Fprintf(Stdout, "INCONCLUSIVE property=%s %s\n", r.Meta.ID, reason)
}

func (r *Recorder) Extra(k string, v any) { r.part.Extra[k] = v }

func (r *Recorder) AddExtra(k string, n int) {
	cur, _ := r.part.Extra[k].(int)
	r.part.Extra[k] = cur + n
}

func (r *Recorder) Excluded(n int) { r.part.Excluded += n }

func (r *Recorder) SetExhaustive() { r.part.Exhaustive = true }

func hashOf(sub string, enc []byte) uint64 {
	h := fnv.New64a()
	h.Write([]byte(sub))
	h.Write([]byte{0})
	h.Write(enc)
	return h.Sum64()
}

// Point counts a sub-case (e.g. one fault point of an enumerated layout) while a search is running and has not started shrinking.
func (r *Recorder) Point(sub string, enc []byte, nontrivial bool, classes []string) {
	if r.counting {
		r.Case(sub, enc, nontrivial, classes)
	}
}

// Case counts one explored case. enc is its canonical encoding.
func (r *Recorder) Case(sub string, enc []byte, nontrivial bool, classes []string) {
	r.part.Evaluations++
	r.part.Subs[sub]++
	for _, c := range classes {
		r.part.Classes[sub+"/"+c]++
	}
	if nontrivial {
		h := hashOf(sub, enc)
		if _, ok := r.nt[h]; !ok {
			r.nt[h] = struct{}{}
			r.part.Classes[sub+"/nontrivial"]++
			if r.ntSample < 3 || (len(r.nt)%997 == 0 && r.ntSample < 6) {
				r.ntSample++
				r.addSample(sub, enc)
			}
		}
	} else if r.part.Subs[sub] <= 1 {
		r.addSample(sub, enc)
	}
}

func (r *Recorder) addSample(sub string, enc []byte) {
	if len(r.samples) >= 12 {
		return
	}
	var v any
	if len(enc) > 6000 {
		v = string(enc[:6000]) + "...(truncated)"
	} else if json.Unmarshal(enc, &v) != nil {
		v = string(enc)
	}
	r.samples = append(r.samples, map[string]any{"sub": sub, "case": v})
}

// Violation records a failing case, writes the replay file and prints the
// VIOLATION line.
func (r *Recorder) Violation(sub string, enc []byte, err error) string {
	if strings.Contains(err.Error(), "harness:") {
		// a defect of the checking machinery itself (generator produced an input outside its own contract,
		// scratch directory problems, ...) is never reported as a violation of the property
		msg := err.Error()
		if len(msg) > 800 {
			msg = msg[:800]
		}
		dir := filepath.Join(replayDir(r.Root), r.Meta.ID)
		_ = os.MkdirAll(dir, 0o755)
		doc := replayDoc{Property: r.Meta.ID, Sub: sub, Error: err.Error(), Case: json.RawMessage(enc)}
		if b, mErr := json.MarshalIndent(doc, "", " "); mErr == nil {
			_ = os.WriteFile(filepath.Join(dir, fmt.Sprintf("harness-%s-%d-%016x.json", sub, r.Seed, hashOf(sub, enc))), b, 0o644)
		}
		r.Inconclusive("sub " + sub + ": " + strings.ReplaceAll(msg, "\n", " | "))
		return ""
	}
	r.part.Violations++
	dir := filepath.Join(replayDir(r.Root), r.Meta.ID)
	_ = os.MkdirAll(dir, 0o755)
	doc := replayDoc{Property: r.Meta.ID, Sub: sub, Error: err.Error(), Case: json.RawMessage(enc)}
	b, mErr := json.MarshalIndent(doc, "", " ")
	if mErr != nil {
		b, _ = json.Marshal(map[string]any{"property": r.Meta.ID, "sub": sub, "error": err.Error(), "case": string(enc)})
	}
	path := r.replayFile
	if path == "" {
		path = filepath.Join(dir, fmt.Sprintf("%s-%d-%016x.json", sub, r.Seed, hashOf(sub, enc)))
		_ = os.WriteFile(path, b, 0o644)
	}
	r.part.Replays = append(r.part.Replays, path)
	msg := err.Error()
	if len(msg) > 1500 {
		msg = msg[:1500] + "..."
	}
	fmt.Fprintf(Stdout, "VIOLATION property=%s replay=%s\n  sub=%s: %s\n", r.Meta.ID, path, sub, strings.ReplaceAll(msg, "\n", "\n  "))
	r.T.Fail()
	return path
}

// Finish writes the part file.
func (r *Recorder) Finish() {
	if r.finished {
		return
	}
	r.finished = true
	r.part.WallS = time.Since(r.start).Seconds()
	r.part.NonTrivial = make([]uint64, 0, len(r.nt))
	for h := range r.nt {
		r.part.NonTrivial = append(r.part.NonTrivial, h)
	}
	sort.Slice(r.part.NonTrivial, func(i, j int) bool { return r.part.NonTrivial[i] < r.part.NonTrivial[j] })
	r.part.Samples = r.samples
	out := os.Getenv("VT_OUT")
	if out == "" {
		return
	}
	b, err := json.Marshal(r.part)
	if err != nil {
		fmt.Fprintf(Stdout, "INCONCLUSIVE property=%s cannot encode part: %v\n", r.Meta.ID, err)
		return
	}
	if err := os.WriteFile(out, b, 0o644); err != nil {
		fmt.Fprintf(Stdout, "INCONCLUSIVE property=%s cannot write part: %v\n", r.Meta.ID, err)
	}
}

// FuzzFail is called by native fuzz targets when their oracle fails: it stores the case as a JSON replay file (the driver
// re-runs the smallest one through the deterministic replay path before reporting a violation).
func FuzzFail(id, sub string, c any, err error) {
	enc, mErr := json.Marshal(c)
	if mErr != nil {
		return
	}
	dir := filepath.Join(replayDir(Root()), id)
	_ = os.MkdirAll(dir, 0o755)
	doc := replayDoc{Property: id, Sub: sub, Error: err.Error(), Case: json.RawMessage(enc)}
	if b, mErr := json.MarshalIndent(doc, "", " "); mErr == nil {
		_ = os.WriteFile(filepath.Join(dir, fmt.Sprintf("fuzz-%s-%016x.json", sub, hashOf(sub, enc))), b, 0o644)
	}
}

var elidedRe = regexp.MustCompile(`\.\.\.(\d+) frames elided\.\.\.`)

// Bounded runs f in a goroutine of its own and waits for it. Every 15 s it looks at the goroutine stacks: a goroutine inside the
// code under test that is more than 5000 frames deep is runaway recursion (a structural sign, not a timing one - the clock only
// decides when to look) and is reported through the second result; f keeps running in that case, the caller is expected to record
// the violation and end the process (DieWithViolation). Slowness without deep recursion is never reported as a violation.
func Bounded(f func()) (p any, runaway string) {
	done := make(chan any, 1)
	go func() {
		defer func() { done <- recover() }()
		f()
	}()
	const tick = 15 * time.Second
	timer := time.NewTimer(tick)
	defer timer.Stop()
	for waited := time.Duration(0); ; waited += tick {
		select {
		case p := <-done:
			return p, ""
		case <-timer.C:
			timer.Reset(tick)
		}
		buf := make([]byte, 8<<20)
		buf = buf[:runtime.Stack(buf, true)]
		for _, g := range strings.Split(string(buf), "\n\n") {
			if !strings.Contains(g, "octohelm/gengo") {
				continue
			}
			if m := elidedRe.FindStringSubmatch(g); m != nil {
				if n, _ := strconv.Atoi(m[1]); n > 5000 {
					top := g
					if len(top) > 600 {
						top = top[:600]
					}
					return nil, fmt.Sprintf("runaway recursion: the call has not returned after %v and its stack is more than %d frames deep: %s", waited+tick, n, strings.ReplaceAll(top, "\n", " | "))
				}
			}
		}
		if waited >= 10*time.Minute {
			panic("harness: evaluation did not return within 10 minutes and shows no deep recursion")
		}
	}
}

// DieWithViolation records a violation found while a call into the code under test is still running away (see Bounded): the
// case is stored as a replay file, the VIOLATION line is printed and the process ends (the driver lets a printed violation
// outrank the missing part file).
func DieWithViolation(id, sub string, c any, err error) {
	enc, _ := json.Marshal(c)
	dir := filepath.Join(replayDir(Root()), id)
	_ = os.MkdirAll(dir, 0o755)
	doc := replayDoc{Property: id, Sub: sub, Error: err.Error(), Case: json.RawMessage(enc)}
	path := filepath.Join(dir, fmt.Sprintf("runaway-%s-%016x.json", sub, hashOf(sub, enc)))
	if b, mErr := json.MarshalIndent(doc, "", " "); mErr == nil {
		_ = os.WriteFile(path, b, 0o644)
	}
	fmt.Fprintf(Stdout, "VIOLATION property=%s replay=%s\n  sub=%s: %s\n", id, path, sub, err)
	os.Exit(1)
}

// FuzzProp adapts a Sub to rapid.MakeFuzz: the fuzzer's bytes drive the generator.
func FuzzProp[C any](id string, s Sub[C]) func(*rapid.T) {
	return func(t *rapid.T) {
		c := s.Gen(t)
		if err := runOracle(s.Oracle, c); err != nil {
			if !strings.Contains(err.Error(), "harness:") {
				FuzzFail(id, s.Name, c, err)
			}
			t.Fatalf("%v", err)
		}
	}
}

// Guard runs f and converts a panic into an error (for oracles whose property
// says "never panics").
func Guard(f func() error) (err error) {
	defer func() {
		if p := recover(); p != nil {
			err = fmt.Errorf("panic: %v\n%s", p, trimStack(debug.Stack()))
		}
	}()
	return f()
}

// Panics reports whether f panics, and with what.
func Panics(f func()) (p any) {
	defer func() { p = recover() }()
	f()
	return nil
}

func trimStack(b []byte) string {
	lines := strings.Split(string(b), "\n")
	if len(lines) > 24 {
		lines = lines[:24]
	}
	return strings.Join(lines, "\n")
}

type recTB struct {
	name   string
	failed bool
	logs   []string
}

type failNow struct{}

func (t *recTB) Helper()      {}
func (t *recTB) Name() string { return t.name }
func (t *recTB) Logf(f string, a ...any) {
	if len(t.logs) < 50 {
		t.logs = append(t.logs, fmt.Sprintf(f, a...))
	}
}
func (t *recTB) Log(a ...any)              { t.Logf("%s", fmt.Sprint(a...)) }
func (t *recTB) Skipf(f string, a ...any)  { panic(failNow{}) }
func (t *recTB) Skip(a ...any)             { panic(failNow{}) }
func (t *recTB) SkipNow()                  { panic(failNow{}) }
func (t *recTB) Errorf(f string, a ...any) { t.failed = true; t.Logf(f, a...) }
func (t *recTB) Error(a ...any)            { t.failed = true; t.Log(a...) }
func (t *recTB) Fatalf(f string, a ...any) { t.failed = true; t.Logf(f, a...); panic(failNow{}) }
func (t *recTB) Fatal(a ...any)            { t.failed = true; t.Log(a...); panic(failNow{}) }
func (t *recTB) FailNow()                  { t.failed = true; panic(failNow{}) }
func (t *recTB) Fail()                     { t.failed = true }
func (t *recTB) Failed() bool              { return t.failed }

// Sub describes one generated search that feeds a property.
type Sub[C any] struct {
	Name       string
	Gen        func(t *rapid.T) C
	Oracle     func(c C) error
	NonTrivial func(c C) bool
	Classes    func(c C) []string
	Budget     Budget
	// MinNonTrivial is the floor for the non-trivial fraction (0 = 0.05).
	MinNonTrivial float64
	// ShrinkTime bounds minimisation (default 20s quick / 60s thorough).
	ShrinkTime time.Duration
}

func (r *Recorder) regressFiles(kind string) []string {
	m, _ := filepath.Glob(filepath.Join(r.Root, kind, r.Meta.ID, "*.json"))
	sort.Strings(m)
	return m
}

func runOracle[C any](o func(C) error, c C) error {
	return Guard(func() error { return o(c) })
}

// traceCase: with VT_TRACE_CASE_FILE set (the driver re-runs a shard that died of a fatal stack overflow this way), the case
// about to be evaluated is written out first, so that the case the process died in is known afterwards.
func traceCase(id, sub string, enc []byte) {
	tf := os.Getenv("VT_TRACE_CASE_FILE")
	if tf == "" {
		return
	}
	doc := replayDoc{Property: id, Sub: sub, Error: "the process died of a fatal error (stack overflow) while this case was being evaluated", Case: json.RawMessage(enc)}
	if b, err := json.MarshalIndent(doc, "", " "); err == nil {
		_ = os.WriteFile(tf, b, 0o644)
	}
}

// Search replays committed regression inputs and known findings for this sub,
// then runs the generated search.
func Search[C any](r *Recorder, s Sub[C]) {
	r.subIdx++
	if r.part.Inconclusive != "" && r.Replaying() {
		return
	}
	// replay mode: only the addressed sub, only that case
	if r.Replaying() {
		if r.replay == nil || r.replay.Sub != s.Name {
			return
		}
		var c C
		if err := json.Unmarshal(r.replay.Case, &c); err != nil {
			r.Inconclusive("cannot decode replay case: " + err.Error())
			return
		}
		enc, _ := json.Marshal(c)
		r.Case(s.Name, enc, s.NonTrivial == nil || s.NonTrivial(c), nil)
		if err := runOracle(s.Oracle, c); err != nil {
			r.Violation(s.Name, enc, err)
		} else {
			fmt.Fprintf(Stdout, "REPLAY-OK property=%s sub=%s\n", r.Meta.ID, s.Name)
		}
		return
	}

	if r.Shard == 0 {
		// committed regression inputs: must pass
		for _, f := range r.regressFiles("regress") {
			var d replayDoc
			b, err := os.ReadFile(f)
			if err != nil || json.Unmarshal(b, &d) != nil || d.Sub != s.Name {
				continue
			}
			var c C
			if err := json.Unmarshal(d.Case, &c); err != nil {
				r.Inconclusive("cannot decode regression input " + f + ": " + err.Error())
				continue
			}
			enc, _ := json.Marshal(c)
			r.part.Replayed++
			r.Case(s.Name, enc, s.NonTrivial == nil || s.NonTrivial(c), []string{"regress"})
			if err := runOracle(s.Oracle, c); err != nil {
				r.Violation(s.Name, enc, fmt.Errorf("regression input %s fails: %w", filepath.Base(f), err))
				return
			}
		}
		// known findings: replayed, reported as KNOWN-FINDING while they still fail
		for _, f := range r.regressFiles("known") {
			key := strings.TrimSuffix(filepath.Base(f), ".json")
			text, listed := r.known[key]
			if !listed {
				continue
			}
			var d replayDoc
			b, err := os.ReadFile(f)
			if err != nil || json.Unmarshal(b, &d) != nil || d.Sub != s.Name {
				continue
			}
			var c C
			if err := json.Unmarshal(d.Case, &c); err != nil {
				r.Inconclusive("cannot decode known-finding input " + f + ": " + err.Error())
				continue
			}
			if err := runOracle(s.Oracle, c); err != nil {
				fmt.Fprintf(Stdout, "KNOWN-FINDING: property=%s %s\n", r.Meta.ID, text)
				r.part.KnownSeen = append(r.part.KnownSeen, key)
			} else {
				fmt.Fprintf(Stdout, "NOTE property=%s known finding %s no longer reproduces\n", r.Meta.ID, key)
			}
		}
	}

	n := s.Budget.Quick
	if r.Thorough() {
		n = s.Budget.Thorough
	}
	if v := envInt("VT_CHECKS_"+s.Name, 0); v > 0 {
		n = v
	}
	if n <= 0 {
		return
	}
	seed := uint64(r.Seed)*1_000_003 + uint64(r.Shard)*7919 + uint64(r.subIdx)*104729 + 1
	st := s.ShrinkTime
	if st == 0 {
		st = 20 * time.Second
		if r.Thorough() {
			st = 60 * time.Second
		}
	}
	_ = flag.Set("rapid.checks", strconv.Itoa(n))
	_ = flag.Set("rapid.seed", strconv.FormatUint(seed, 10))
	_ = flag.Set("rapid.nofailfile", "true")
	_ = flag.Set("rapid.shrinktime", st.String())

	var (
		failing  bool
		lastEnc  []byte
		lastErr  error
		evalsSub int
		ntSub    int
		late     int // cases generated after the soft time budget had run out: not evaluated, not counted
	)
	tb := &recTB{name: r.T.Name() + "/" + s.Name}
	func() {
		defer func() {
			if p := recover(); p != nil {
				if _, ok := p.(failNow); !ok {
					panic(p)
				}
			}
		}()
		rapid.Check(tb, func(t *rapid.T) {
			c := s.Gen(t)
			enc, err := json.Marshal(c)
			if err != nil {
				panic("harness: case not serialisable: " + err.Error())
			}
			if !failing && !r.soft.IsZero() && time.Now().After(r.soft) {
				late++
				return
			}
			r.counting = !failing
			if !failing {
				nt := s.NonTrivial == nil || s.NonTrivial(c)
				var cl []string
				if s.Classes != nil {
					cl = s.Classes(c)
				}
				r.Case(s.Name, enc, nt, cl)
				evalsSub++
				if nt {
					ntSub++
				}
			}
			traceCase(r.Meta.ID, s.Name, enc)
			if err := runOracle(s.Oracle, c); err != nil {
				failing = true
				r.counting = false
				lastEnc, lastErr = enc, err
				t.Fatalf("%v", err)
			}
		})
	}()
	r.counting = false
	switch {
	case failing:
		// rapid re-runs the minimal case last, so lastEnc is the shrunk case
		r.Violation(s.Name, lastEnc, lastErr)
	case tb.failed:
		r.Inconclusive(fmt.Sprintf("sub %s: rapid reported a harness problem: %s", s.Name, strings.Join(tb.logs, " | ")))
	default:
		floor := s.MinNonTrivial
		if floor == 0 {
			floor = 0.05
		}
		if evalsSub > 0 && float64(ntSub) < floor*float64(evalsSub) && (late == 0 || evalsSub >= 50) {
			r.Inconclusive(fmt.Sprintf("sub %s: generator starved: %d of %d cases non-trivial (< %.0f%%)", s.Name, ntSub, evalsSub, floor*100))
		}
		if evalsSub < n {
			if late > 0 {
				// a bound on the work, not a verdict: what was evaluated is reported as such
				fmt.Fprintf(Stdout, "NOTE property=%s sub %s: time budget reached, %d of %d cases evaluated\n", r.Meta.ID, s.Name, evalsSub, n)
				r.AddExtra("cases_not_evaluated_after_time_budget_"+s.Name, n-evalsSub)
			} else {
				r.Inconclusive(fmt.Sprintf("sub %s: only %d of %d cases ran", s.Name, evalsSub, n))
			}
		}
	}
}

// Enumerate feeds explicitly enumerated cases (exhaustive small scope, corpus
// sweeps) through the same accounting. It stops at the first failure.
func Enumerate[C any](r *Recorder, name string, cases func(yield func(C) bool), oracle func(C) error, nontrivial func(C) bool, classes func(C) []string) {
	r.subIdx++
	if r.Replaying() {
		if r.replay == nil || r.replay.Sub != name {
			return
		}
		var c C
		if err := json.Unmarshal(r.replay.Case, &c); err != nil {
			r.Inconclusive("cannot decode replay case: " + err.Error())
			return
		}
		enc, _ := json.Marshal(c)
		r.Case(name, enc, true, nil)
		if err := runOracle(oracle, c); err != nil {
			r.Violation(name, enc, err)
		} else {
			fmt.Fprintf(Stdout, "REPLAY-OK property=%s sub=%s\n", r.Meta.ID, name)
		}
		return
	}
	cases(func(c C) bool {
		enc, _ := json.Marshal(c)
		var cl []string
		if classes != nil {
			cl = classes(c)
		}
		r.Case(name, enc, nontrivial == nil || nontrivial(c), cl)
		traceCase(r.Meta.ID, name, enc)
		if err := runOracle(oracle, c); err != nil {
			r.Violation(name, enc, err)
			return false
		}
		return true
	})
}
