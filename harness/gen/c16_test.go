package gen

import (
	"encoding/json"
	"fmt"
	"os"
	"sort"
	"strconv"
	"strings"
	"testing"
	"time"
	"vt/internal/script"

	"pgregory.net/rapid"

	"vt/internal/ev"
	"vt/internal/modspec"
)

// ---- C16: runtimedoc output returns the source documentation at run time ----

type rdField struct {
	Name string   `json:"name"`
	Type string   `json:"type"` // Go type text; "" with Embed set
	Doc  []string `json:"doc,omitempty"`
	// Embed: name of an embedded struct type of the same package; Ptr: embedded by pointer
	Embed string `json:"embed,omitempty"`
	Ptr   bool   `json:"ptr,omitempty"`
	// EmbedDoc: a one-line doc comment on the embedded field itself (the generator hands it to the delegation helper)
	EmbedDoc string `json:"embeddoc,omitempty"`
	// Listed: the field is expected to be answered by the type's own switch
	Listed bool `json:"listed,omitempty"`
	// Also: a second name declared by the same field (`F1, G1 int`): both share the doc
	Also string `json:"also,omitempty"`
}

type rdType struct {
	Name string `json:"name"`
	// Kind: struct | generic | noexported | scalar | map | slice | func | iface
	Kind   string    `json:"kind"`
	Doc    []string  `json:"doc,omitempty"`
	Fields []rdField `json:"fields,omitempty"`
	// OpenCmt: a comment behind "struct {" (it documents nothing, in particular not the first field)
	OpenCmt string `json:"opencmt,omitempty"`
	// BlockDoc: the type's doc is written as one /* ... */ comment spanning its lines
	BlockDoc bool `json:"blockdoc,omitempty"`
}

type rdPkg struct {
	Name  string   `json:"name"`
	Types []rdType `json:"types"`
	// OptOut: name of one more exported struct type whose own doc carries +gengo:runtimedoc=false (nothing is asserted about it;
	// every other type of the package is covered as before)
	OptOut string `json:"optout,omitempty"`
}

type c16Case struct {
	Pkgs []rdPkg `json:"pkgs"`
	// Base: OutputFileBaseName ("" = zz_generated); Runs: how often the generator runs over the module before the result is
	// compiled and tested (a later run sees the output of the earlier one as part of the package)
	Base string `json:"base,omitempty"`
	Runs int    `json:"runs,omitempty"`
}

func (c c16Case) base() string {
	if c.Base == "" {
		return "zz_generated"
	}
	return c.Base
}

var rdDocPool = []string{
	`quoted "text" here`, `back\slash and \n not a newline`, "a `backquoted` word", "100%v done, %d%% of %s", "mid @name' placeholder look-alike", "it's an apostrophe",
	"日本語 doc ✓ é", "+k=v", "+gengo:other=1", "@deprecated use Other", "ends with colon:", "a  double  space", "tab\tinside", "<html> & stuff", "/* not a comment */",
	`trailing backslash \`, "plain words", "does something useful.", "{ braces } and [ brackets ]", "$dollar ${x}", "nul-free but odd \x7f",
	"host:port or :port", "key:value pairs follow", "0:off 1:on", "unit:ms", "http://example.com/x", "a:b",
}

func genDoc(t *rapid.T, name string, isType bool) []string {
	n := rapid.IntRange(0, 4).Draw(t, "ndoc")
	var out []string
	for i := 0; i < n; i++ {
		l := rapid.SampledFrom(rdDocPool).Draw(t, "docline")
		if rapid.IntRange(0, 7).Draw(t, "longline") == 0 {
			// a long line with a character that needs escaping (or a wide rune) at an arbitrary offset around 100-260 bytes
			l = "long " + strings.Repeat("ab ", rapid.IntRange(28, 80).Draw(t, "longpad")) + strings.Repeat("x", rapid.IntRange(0, 3).Draw(t, "longshift")) +
				rapid.SampledFrom([]string{`\`, `\\\`, `"`, "\x7f", "\u200b", "é", "中", `\"`, "\t"}).Draw(t, "longesc") + " tail " + rapid.SampledFrom([]string{`\`, "end", `\\x`}).Draw(t, "longtail")
		}
		if i == 0 && isType && rapid.Bool().Draw(t, "nameprefix") {
			l = name + " " + l
			switch rapid.IntRange(0, 7).Draw(t, "nameonly") {
			case 0:
				l = name
			case 1:
				// the text after the leading name starts with the name again: only the leading one goes
				l = name + " " + name + "s are opaque, " + name + " values too"
			}
		}
		if i > 0 && i < n-1 && rapid.IntRange(0, 5).Draw(t, "blank") == 0 {
			l = ""
		}
		out = append(out, l)
	}
	// a blank line is only kept between two ordinary lines (go/ast collapses and trims blank lines, and a blank line next to a
	// tag line would become the first line of the doc once the tag is taken out)
	isTag := func(l string) bool { return l != "" && (l[0] == '+' || l[0] == '@') }
	for i := range out {
		if out[i] == "" && (i == 0 || i == len(out)-1 || out[i-1] == "" || out[i+1] == "" || isTag(out[i-1]) || isTag(out[i+1])) {
			out[i] = "filler"
		}
	}
	return out
}

var rdFieldTypes = []string{"int", "string", "[]byte", "map[string]int", "*int", "error", "any", "func()", "chan int", "float64"}

func genRDPkg(t *rapid.T, idx int) rdPkg {
	p := rdPkg{Name: fmt.Sprintf("p%d", idx)}
	nt := rapid.IntRange(3, 8).Draw(t, "ntypes")
	fieldN := 0
	var embeddable []string      // struct types of this package that may be embedded (declared earlier)
	var genericsSoFar []string   // generic struct types declared earlier
	var opaque, empties []string // struct types without exported field / without any field declared earlier
	for i := 0; i < nt; i++ {
		exported := rapid.IntRange(0, 4).Draw(t, "exported") > 0
		name := fmt.Sprintf("Type%d", i)
		if !exported {
			name = fmt.Sprintf("hidden%d", i)
		}
		ty := rdType{Name: name, Doc: genDoc(t, name, true)}
		if len(ty.Doc) >= 2 && rapid.IntRange(0, 3).Draw(t, "blockdoc") == 0 {
			ok := true
			for _, l := range ty.Doc {
				ok = ok && l != "" && l == strings.TrimSpace(l) && !strings.Contains(l, "*/")
			}
			ty.BlockDoc = ok
		}
		switch rapid.IntRange(0, 11).Draw(t, "kind") {
		case 0, 1, 2, 3, 4:
			ty.Kind = "struct"
		case 5:
			ty.Kind = "generic"
		case 6:
			ty.Kind = "noexported"
		case 7:
			ty.Kind = "scalar"
		case 8:
			ty.Kind = "map"
		case 9:
			ty.Kind = "slice"
		case 10:
			ty.Kind = "func"
		default:
			ty.Kind = "iface"
		}
		if ty.Kind == "struct" || ty.Kind == "generic" {
			if rapid.IntRange(0, 4).Draw(t, "opencmt") == 0 {
				ty.OpenCmt = rapid.SampledFrom([]string{"keep in sync with the accounts table", "+gengo:x", "fields"}).Draw(t, "opencmttext")
			}
			nf := rapid.IntRange(1, 4).Draw(t, "nfields")
			hasExported := false
			for j := 0; j < nf; j++ {
				fieldN++
				f := rdField{}
				k := rapid.IntRange(0, 9).Draw(t, "fieldkind")
				switch {
				case k <= 4:
					f.Name = fmt.Sprintf("F%d", fieldN)
					f.Type = rapid.SampledFrom(rdFieldTypes).Draw(t, "ftype")
					if len(genericsSoFar) > 0 && rapid.IntRange(0, 3).Draw(t, "instfield") == 0 {
						// a field whose type instantiates a generic struct of the same package
						f.Type = rapid.SampledFrom(genericsSoFar).Draw(t, "instof") + rapid.SampledFrom([]string{"[string]", "[int]", "[[]byte]"}).Draw(t, "instarg")
					}
					f.Listed = true
					if rapid.IntRange(0, 3).Draw(t, "namedstructfield") == 0 {
						// a field of a named struct type: listed whatever the fields of that type are, unless the struct is empty
						pool := append([]string{"time.Time", "sync.Mutex", "*time.Time", "*sync.Mutex"}, opaque...)
						pool = append(pool, embeddable...)
						pool = append(pool, empties...)
						f.Type = rapid.SampledFrom(pool).Draw(t, "namedstruct")
						for _, e := range empties {
							if f.Type == e {
								f.Listed = false
							}
						}
					}
					if ty.Kind == "generic" && j == 0 {
						f.Type = "T"
						f.Listed = true
					}
					f.Doc = genDoc(t, f.Name, false)
					hasExported = true
					if !strings.Contains(f.Type, "[") && rapid.IntRange(0, 4).Draw(t, "multiname") == 0 {
						f.Also = fmt.Sprintf("G%d", fieldN)
					}
				case k == 5:
					f.Name = fmt.Sprintf("f%d", fieldN) // unexported
					f.Type = "int"
					f.Doc = genDoc(t, f.Name, false)
				case k == 6:
					f.Name = fmt.Sprintf("F%d", fieldN)
					f.Type = rapid.SampledFrom([]string{"struct{}", "struct{ X int }", "struct{ y int }"}).Draw(t, "anon")
					f.Doc = genDoc(t, f.Name, false)
					hasExported = true // exported, but of anonymous struct type: not listed
				case k <= 8 && len(embeddable) > 0 && ty.Kind == "struct":
					e := rapid.SampledFrom(embeddable).Draw(t, "embed")
					dup := false
					for _, other := range ty.Fields {
						if other.Embed == e {
							dup = true
						}
					}
					if dup {
						fieldN--
						continue
					}
					f.Embed = e
					f.Ptr = rapid.Bool().Draw(t, "embptr")
					if rapid.IntRange(0, 2).Draw(t, "embeddoc") == 0 {
						f.EmbedDoc = rapid.SampledFrom([]string{"inherited @ v1: ", "see @meta and 100%: ", "quoted \"x\" \\ back `tick`: ", "plain: ", "a @@ b: ", "中文 é: "}).Draw(t, "embeddoctext")
					}
					if strings.HasPrefix(e, "Type") {
						hasExported = true
					}
				default:
					f.Name = fmt.Sprintf("F%d", fieldN)
					f.Type = "int"
					f.Listed = true
					hasExported = true
				}
				ty.Fields = append(ty.Fields, f)
			}
			if !hasExported {
				fieldN++
				ty.Fields = append(ty.Fields, rdField{Name: fmt.Sprintf("F%d", fieldN), Type: "int", Listed: true, Doc: genDoc(t, "x", false)})
			}
			// with several embedded structs Go's method promotion can answer a name through another path than the documented
			// embedded field; the doc-in-front expectation is only made where the path is unique
			nonOpaqueEmbeds := 0
			for _, f := range ty.Fields {
				if f.Embed == "" {
					continue
				}
				isOpaque := false
				for _, o := range opaque {
					isOpaque = isOpaque || o == f.Embed
				}
				if !isOpaque {
					nonOpaqueEmbeds++
				}
			}
			if nonOpaqueEmbeds > 1 {
				for i := range ty.Fields {
					ty.Fields[i].EmbedDoc = ""
				}
			}
			// an own exported field with the name of a field of an embedded covered struct: the own field answers
			if ty.Kind == "struct" && rapid.IntRange(0, 2).Draw(t, "shadow") == 0 {
				for _, f := range ty.Fields {
					if f.Embed == "" {
						continue
					}
					e := p.typeByName(f.Embed)
					if e == nil {
						continue
					}
					var names []string
					for _, ef := range e.Fields {
						if ef.Embed == "" && ef.Listed && exportedName(ef.Name) {
							names = append(names, ef.Name)
						}
					}
					if len(names) == 0 {
						continue
					}
					n := rapid.SampledFrom(names).Draw(t, "shadowname")
					own := false
					for _, of := range ty.Fields {
						own = own || of.Name == n || of.Also == n
					}
					if !own {
						ty.Fields = append(ty.Fields, rdField{Name: n, Type: "int", Listed: true, Doc: genDoc(t, n, false)})
					}
					break
				}
			}
			if ty.Kind == "struct" && len(opaque) > 0 && rapid.IntRange(0, 3).Draw(t, "opaquefirst") == 0 {
				// a struct without exported field embedded ahead of everything else (by value or by pointer)
				o := rapid.SampledFrom(opaque).Draw(t, "opaqueembed")
				dup := false
				for _, other := range ty.Fields {
					dup = dup || other.Embed == o
				}
				if !dup {
					ty.Fields = append([]rdField{{Embed: o, Ptr: rapid.IntRange(0, 2).Draw(t, "opaqueptr") == 0}}, ty.Fields...)
				}
			}
			if ty.Kind == "struct" {
				embeddable = append(embeddable, name)
			}
			if ty.Kind == "generic" {
				genericsSoFar = append(genericsSoFar, name)
			}
		}
		if ty.Kind == "noexported" {
			if rapid.IntRange(0, 2).Draw(t, "emptystruct") == 0 {
				empties = append(empties, name) // type X struct{}
			} else {
				fieldN++
				ty.Fields = []rdField{{Name: fmt.Sprintf("f%d", fieldN), Type: "int"}}
				opaque = append(opaque, name)
				embeddable = append(embeddable, name) // may be embedded ahead of a covered struct: delegation must go on to the later one
			}
		}
		p.Types = append(p.Types, ty)
	}
	if rapid.IntRange(0, 2).Draw(t, "optout") == 0 {
		p.OptOut = rapid.SampledFrom([]string{"AaSwitchedOff", "Type1SwitchedOff", "Type4SwitchedOff", "ZzSwitchedOff"}).Draw(t, "optoutname")
	}
	return p
}

func genC16(t *rapid.T) c16Case {
	c := c16Case{}
	n := rapid.IntRange(4, 10).Draw(t, "npkgs")
	for i := 0; i < n; i++ {
		c.Pkgs = append(c.Pkgs, genRDPkg(t, i))
	}
	c.Base = rapid.SampledFrom([]string{"", "", "gen", "doc_generated", "zz_gen"}).Draw(t, "base")
	c.Runs = rapid.SampledFrom([]int{1, 1, 2, 3}).Draw(t, "runs")
	return c
}

func writeDoc(b *strings.Builder, indent string, doc []string) {
	for _, l := range doc {
		if l == "" {
			fmt.Fprintf(b, "%s//\n", indent)
		} else {
			fmt.Fprintf(b, "%s// %s\n", indent, l)
		}
	}
}

func (p rdPkg) source() string {
	b := &strings.Builder{}
	fmt.Fprintf(b, "// +gengo:runtimedoc\npackage %s\n", p.Name)
	for _, std := range []string{"sync", "time"} {
		for _, ty := range p.Types {
			used := false
			for _, f := range ty.Fields {
				used = used || strings.Contains(f.Type, std+".")
			}
			if used {
				fmt.Fprintf(b, "\nimport %q\n", std)
				break
			}
		}
	}
	if p.OptOut != "" {
		fmt.Fprintf(b, "\n// %s opts out of the generator.\n// +gengo:runtimedoc=false\ntype %s struct {\n\t// Kept is documented all the same\n\tKept int\n}\n", p.OptOut, p.OptOut)
	}
	for _, ty := range p.Types {
		b.WriteString("\n")
		if ty.BlockDoc {
			fmt.Fprintf(b, "/* %s */\n", strings.Join(ty.Doc, "\n"))
		} else {
			writeDoc(b, "", ty.Doc)
		}
		switch ty.Kind {
		case "struct", "generic", "noexported":
			tp := ""
			if ty.Kind == "generic" {
				tp = "[T any]"
			}
			if ty.OpenCmt != "" {
				fmt.Fprintf(b, "type %s%s struct { // %s\n", ty.Name, tp, ty.OpenCmt)
			} else {
				fmt.Fprintf(b, "type %s%s struct {\n", ty.Name, tp)
			}
			for _, f := range ty.Fields {
				writeDoc(b, "\t", f.Doc)
				if f.Embed != "" {
					if f.EmbedDoc != "" {
						fmt.Fprintf(b, "\t// %s\n", f.EmbedDoc)
					}
					if f.Ptr {
						fmt.Fprintf(b, "\t*%s\n", f.Embed)
					} else {
						fmt.Fprintf(b, "\t%s\n", f.Embed)
					}
					continue
				}
				if f.Also != "" {
					fmt.Fprintf(b, "\t%s, %s %s\n", f.Name, f.Also, f.Type)
				} else {
					fmt.Fprintf(b, "\t%s %s\n", f.Name, f.Type)
				}
			}
			b.WriteString("}\n")
		case "scalar":
			fmt.Fprintf(b, "type %s int\n", ty.Name)
		case "map":
			fmt.Fprintf(b, "type %s map[string]int\n", ty.Name)
		case "slice":
			fmt.Fprintf(b, "type %s []string\n", ty.Name)
		case "func":
			fmt.Fprintf(b, "type %s func(int) error\n", ty.Name)
		case "iface":
			fmt.Fprintf(b, "type %s interface{ M() }\n", ty.Name)
		}
	}
	return b.String()
}

// expectedDoc applies the documented rules to the lines the harness wrote: tag lines out, leading type name off the first line.
func expectedDoc(doc []string, name string, stripName bool) []string {
	var out []string
	for _, l := range doc {
		t := strings.Trim(l, " ")
		if len(t) > 0 && (t[0] == '+' || t[0] == '@') {
			continue
		}
		out = append(out, t)
	}
	// go/ast drops leading and trailing blank lines of a comment group and collapses runs of blank lines
	for len(out) > 0 && out[0] == "" {
		out = out[1:]
	}
	for len(out) > 0 && out[len(out)-1] == "" {
		out = out[:len(out)-1]
	}
	if stripName && len(out) > 0 {
		if out[0] == name {
			out = out[1:]
		} else if strings.HasPrefix(out[0], name+" ") {
			out[0] = strings.TrimSpace(strings.TrimPrefix(out[0], name))
		}
	}
	return out
}

func (p rdPkg) typeByName(n string) *rdType {
	for i := range p.Types {
		if p.Types[i].Name == n {
			return &p.Types[i]
		}
	}
	return nil
}

func exportedName(n string) bool { return n != "" && n[0] >= 'A' && n[0] <= 'Z' }

// covered: the generator emits RuntimeDoc for the type
func (p rdPkg) covered(ty *rdType) bool {
	if !exportedName(ty.Name) || ty.Kind == "iface" {
		return false
	}
	if ty.Kind == "struct" || ty.Kind == "generic" || ty.Kind == "noexported" {
		for _, f := range ty.Fields {
			if f.Embed != "" {
				if exportedName(f.Embed) {
					return true
				}
				continue
			}
			if exportedName(f.Name) {
				return true
			}
		}
		return false
	}
	return true
}

// promotes: some embedded struct (transitively) has a RuntimeDoc method that Go may promote
func (p rdPkg) promotes(ty *rdType) bool {
	for _, f := range ty.Fields {
		if f.Embed == "" {
			continue
		}
		e := p.typeByName(f.Embed)
		if p.covered(e) || p.promotes(e) {
			return true
		}
	}
	return false
}

func goStrings(ls []string) string {
	if len(ls) == 0 {
		return "[]string(nil)"
	}
	qs := make([]string, len(ls))
	for i, l := range ls {
		qs[i] = strconv.Quote(l)
	}
	return "[]string{" + strings.Join(qs, ", ") + "}"
}

// literal returns an expression of type *T with every embedded pointer set.
func (p rdPkg) literal(ty *rdType) string {
	name := ty.Name
	if ty.Kind == "generic" {
		name += "[int]"
	}
	var inits []string
	for _, f := range ty.Fields {
		if f.Embed != "" {
			e := p.typeByName(f.Embed)
			if f.Ptr {
				inits = append(inits, fmt.Sprintf("%s: %s", f.Embed, p.literal(e)))
			} else {
				inits = append(inits, fmt.Sprintf("%s: *%s", f.Embed, p.literal(e)))
			}
		}
	}
	return "&" + name + "{" + strings.Join(inits, ", ") + "}"
}

// answers collects what RuntimeDoc(name) must return for the type, following embedded covered structs
func (p rdPkg) answers(ty *rdType, into map[string][]string, listedOnly map[string]bool) {
	p.answersVia(ty, into, listedOnly, map[string][]string{}, nil)
}

// answersVia: via collects, per answered name, the doc comments of the embedded fields the answer was delegated through
// (the generator hands them to its helper as a prefix for the first line)
func (p rdPkg) answersVia(ty *rdType, into map[string][]string, listedOnly map[string]bool, via map[string][]string, chain []string) {
	for _, f := range ty.Fields {
		if f.Embed != "" {
			continue
		}
		if f.Listed {
			if _, dup := into[f.Name]; !dup {
				into[f.Name] = expectedDoc(f.Doc, f.Name, false)
				via[f.Name] = append([]string{}, chain...)
			}
			if f.Also != "" {
				if _, dup := into[f.Also]; !dup {
					into[f.Also] = expectedDoc(f.Doc, f.Also, false)
					via[f.Also] = append([]string{}, chain...)
				}
			}
		} else {
			listedOnly[f.Name] = true
		}
	}
	for _, f := range ty.Fields {
		if f.Embed != "" {
			e := p.typeByName(f.Embed)
			if p.covered(e) {
				next := chain
				if f.EmbedDoc != "" {
					next = append(append([]string{}, chain...), strings.TrimSpace(f.EmbedDoc))
				}
				p.answersVia(e, into, listedOnly, via, next)
			}
		}
	}
}

func (p rdPkg) testSource() string {
	b := &strings.Builder{}
	fmt.Fprintf(b, "package %s\n\nimport (\n\t\"reflect\"\n\t\"strings\"\n\t\"testing\"\n)\n\n", p.Name)
	b.WriteString("func viaDoc(got, want, via []string) bool {\n\tif len(got) != len(want) || len(got) == 0 || !strings.HasSuffix(got[0], want[0]) || !reflect.DeepEqual(got[1:], want[1:]) {\n\t\treturn false\n\t}\n\tfor _, p := range via {\n\t\tif !strings.Contains(got[0], p) {\n\t\t\treturn false\n\t\t}\n\t}\n\treturn true\n}\n\n")
	b.WriteString("type rdoc interface {\n\tRuntimeDoc(names ...string) ([]string, bool)\n}\n\n")
	b.WriteString("func sameDoc(a, b []string) bool {\n\tif len(a) == 0 && len(b) == 0 {\n\t\treturn true\n\t}\n\treturn reflect.DeepEqual(a, b)\n}\n\n")
	b.WriteString("func TestRuntimeDoc(t *testing.T) {\n")
	for i := range p.Types {
		ty := &p.Types[i]
		if ty.Kind == "iface" {
			continue
		}
		lit := p.literal(ty)
		if ty.Kind != "struct" && ty.Kind != "generic" && ty.Kind != "noexported" {
			lit = "new(" + ty.Name + ")"
		}
		fmt.Fprintf(b, "\t{\n\t\tvar v any = %s\n\t\td, ok := v.(rdoc)\n", lit)
		if !p.covered(ty) && p.promotes(ty) {
			// the method set may contain a RuntimeDoc promoted from an embedded struct: nothing to assert
			b.WriteString("\t\t_, _ = d, ok\n\t}\n")
			continue
		}
		if !p.covered(ty) {
			fmt.Fprintf(b, "\t\tif ok {\n\t\t\tt.Errorf(\"VT-FAIL %s is not covered (unexported / interface / no exported field) but has RuntimeDoc\")\n\t\t}\n\t\t_ = d\n\t}\n", ty.Name)
			continue
		}
		fmt.Fprintf(b, "\t\tif !ok {\n\t\t\tt.Fatalf(\"VT-FAIL %s has no RuntimeDoc method\")\n\t\t}\n", ty.Name)
		fmt.Fprintf(b, "\t\tif doc, found := d.RuntimeDoc(); !found || !sameDoc(doc, %s) {\n\t\t\tt.Errorf(\"VT-FAIL %s.RuntimeDoc() = %%q, %%v; want %%q, true\", doc, found, %s)\n\t\t}\n",
			goStrings(expectedDoc(ty.Doc, ty.Name, true)), ty.Name, goStrings(expectedDoc(ty.Doc, ty.Name, true)))
		if ty.Kind == "struct" || ty.Kind == "generic" {
			ans := map[string][]string{}
			notListed := map[string]bool{}
			via := map[string][]string{}
			p.answersVia(ty, ans, notListed, via, nil)
			names := make([]string, 0, len(ans))
			for n := range ans {
				names = append(names, n)
			}
			sort.Strings(names)
			for _, n := range names {
				if len(via[n]) > 0 && len(ans[n]) > 0 {
					// delegated through documented embedded fields: the helper puts their doc text in front of the first line; every
					// character of it must be there, and the field's own lines must follow unchanged
					fmt.Fprintf(b, "\t\tif doc, found := d.RuntimeDoc(%q); !found || !viaDoc(doc, %s, %s) {\n\t\t\tt.Errorf(\"VT-FAIL %s.RuntimeDoc(%s) = %%q, %%v; want the lines %%q with the embedded fields' docs %%q in front of the first\", doc, found, %s, %s)\n\t\t}\n",
						n, goStrings(ans[n]), goStrings(via[n]), ty.Name, n, goStrings(ans[n]), goStrings(via[n]))
					continue
				}
				fmt.Fprintf(b, "\t\tif doc, found := d.RuntimeDoc(%q); !found || !sameDoc(doc, %s) {\n\t\t\tt.Errorf(\"VT-FAIL %s.RuntimeDoc(%s) = %%q, %%v; want %%q, true\", doc, found, %s)\n\t\t}\n",
					n, goStrings(ans[n]), ty.Name, n, goStrings(ans[n]))
			}
			// the documentation is static: a zero value (embedded pointers nil) answers the same, as long as no embedded struct embeds
			// another one itself (a nil pointer could not be followed further)
			flat, hasPtr := true, false
			for _, f := range ty.Fields {
				if f.Embed == "" {
					continue
				}
				hasPtr = hasPtr || f.Ptr
				for _, ef := range p.typeByName(f.Embed).Fields {
					flat = flat && ef.Embed == ""
				}
			}
			if flat && hasPtr {
				zero := "new(" + ty.Name + ")"
				if ty.Kind == "generic" {
					zero = "new(" + ty.Name + "[int])"
				}
				fmt.Fprintf(b, "\t\tfunc() {\n\t\t\tdefer func() {\n\t\t\t\tif p := recover(); p != nil {\n\t\t\t\t\tt.Errorf(\"VT-FAIL RuntimeDoc on a zero %s panics: %%v\", p)\n\t\t\t\t}\n\t\t\t}()\n\t\t\tvar zv any = %s\n\t\t\tz := zv.(rdoc)\n\t\t\t_ = z\n", ty.Name, zero)
				for _, n := range names {
					if len(via[n]) > 0 {
						continue
					}
					fmt.Fprintf(b, "\t\t\tif doc, found := z.RuntimeDoc(%q); !found || !sameDoc(doc, %s) {\n\t\t\t\tt.Errorf(\"VT-FAIL zero %s: RuntimeDoc(%s) = %%q, %%v; want %%q, true (embedded pointers are nil, the documentation is static)\", doc, found, %s)\n\t\t\t}\n",
						n, goStrings(ans[n]), ty.Name, n, goStrings(ans[n]))
				}
				b.WriteString("\t\t}()\n")
			}
			unknown := []string{"NoSuchField", "", "runtimeDoc"}
			for n := range notListed {
				if _, answered := ans[n]; !answered {
					unknown = append(unknown, n)
				}
			}
			sort.Strings(unknown)
			for _, n := range unknown {
				fmt.Fprintf(b, "\t\tif doc, found := d.RuntimeDoc(%q); found || len(doc) != 0 {\n\t\t\tt.Errorf(\"VT-FAIL %s.RuntimeDoc(%%q) = %%q, %%v; want nil, false\", %q, doc, found)\n\t\t}\n", n, ty.Name, n)
				// a longer name path that starts with an unknown name is unknown as well
				fmt.Fprintf(b, "\t\tif doc, found := d.RuntimeDoc(%q, \"Sub\"); found || len(doc) != 0 {\n\t\t\tt.Errorf(\"VT-FAIL %s.RuntimeDoc(%%q, Sub) = %%q, %%v; want nil, false\", %q, doc, found)\n\t\t}\n", n, ty.Name, n)
			}
		}
		b.WriteString("\t}\n")
	}
	b.WriteString("}\n")
	return b.String()
}

func oracleC16(c c16Case) error {
	m := modspec.Mod{Path: "m", Go: "1.21"}
	var entries []string
	for _, p := range c.Pkgs {
		m.Pkgs = append(m.Pkgs, modspec.Pkg{Dir: p.Name, Name: p.Name, Other: []modspec.File{{Name: "types.go", Data: p.source()}, {Name: "doc_test.go", Data: p.testSource()}}})
		entries = append(entries, "./"+p.Name)
	}
	if genRec != nil {
		for _, p := range c.Pkgs {
			one := c16Case{Pkgs: []rdPkg{p}}
			enc, _ := json.Marshal(p.Types)
			genRec.Point("package", enc, c16NonTrivial(one), c16Features(one))
		}
	}
	dir := tempModule(&m)
	defer os.RemoveAll(dir)
	runs := c.Runs
	if runs < 1 {
		runs = 1
	}
	for ri := 0; ri < runs; ri++ {
		res := script.Run(script.RunSpec{Dir: dir, Entrypoints: entries, Base: c.base(), Real: []string{"runtimedoc"}})
		if res.LoadErr != "" {
			if ri == 0 {
				panic("harness: synthetic module does not load: " + res.LoadErr)
			}
			return fmt.Errorf("run %d: the module no longer loads with the output of the previous run in it: %s", ri+1, res.LoadErr)
		}
		if res.Panic != "" {
			return fmt.Errorf("run %d: the runtimedoc generator panics: %s", ri+1, res.Panic)
		}
		if res.Failed {
			return fmt.Errorf("run %d: Execute with the runtimedoc generator fails: %s", ri+1, res.Err)
		}
	}
	failed, _ := goTest(dir)
	if len(failed) == 0 {
		return nil
	}
	names := make([]string, 0, len(failed))
	for n := range failed {
		names = append(names, n)
	}
	sort.Strings(names)
	first := names[0]
	pkgName := strings.TrimPrefix(first, "m/")
	var src, gen string
	for _, p := range c.Pkgs {
		if p.Name == pkgName {
			src = p.source()
			if b, err := os.ReadFile(dir + "/" + p.Name + "/" + c.base() + ".runtimedoc.go"); err == nil {
				gen = string(b)
			}
		}
	}
	return fmt.Errorf("package %s: generated runtimedoc code does not behave as documented (%d of %d packages fail):\n%s\n--- source ---\n%s\n--- generated ---\n%s", first, len(failed), len(c.Pkgs), clip(failed[first], 2500), clip(src, 2500), clip(gen, 3000))
}

func c16Features(c c16Case) []string {
	fs := map[string]bool{}
	for _, p := range c.Pkgs {
		if p.OptOut != "" {
			fs["a-type-opts-out-with-runtimedoc=false"] = true
		}
		for _, ty := range p.Types {
			fs["kind-"+ty.Kind] = true
			esc := false
			for _, l := range ty.Doc {
				if strings.ContainsAny(l, "\"\\`%@'") {
					esc = true
				}
			}
			for _, f := range ty.Fields {
				if f.Embed != "" {
					if f.Ptr {
						fs["embedded-by-pointer"] = true
					} else {
						fs["embedded-by-value"] = true
					}
					if !exportedName(f.Embed) {
						fs["embedded-unexported"] = true
					}
				}
				for _, l := range f.Doc {
					if strings.ContainsAny(l, "\"\\`%@'") {
						esc = true
					}
				}
				if strings.Contains(f.Type, "[") && strings.HasPrefix(f.Type, "Type") {
					fs["field-of-generic-instantiation"] = true
				}
			}
			if esc {
				fs["doc-needs-escaping"] = true
			}
		}
	}
	out := make([]string, 0, len(fs))
	for k := range fs {
		out = append(out, k)
	}
	sort.Strings(out)
	return out
}

func c16NonTrivial(c c16Case) bool {
	fs := map[string]bool{}
	for _, f := range c16Features(c) {
		fs[f] = true
	}
	return (fs["embedded-by-value"] || fs["embedded-by-pointer"] || fs["kind-generic"]) && fs["doc-needs-escaping"]
}

func TestC16(t *testing.T) {
	r := ev.Begin(t, ev.Meta{
		ID:    "C16",
		Level: "exploration",
		Rule: "batches of 4-10 packages tagged +gengo:runtimedoc, each with 3-8 exported/unexported types: plain and generic structs, structs embedding exported/unexported " +
			"structs by value and by pointer, structs without exported fields, fields of anonymous/empty struct type, defined scalar/map/slice/func types, interfaces; doc " +
			"lines from a hostile pool (quotes, backslashes, backquotes, %v, @name, apostrophes, Unicode, tag lines, blank lines in the middle, first line with/without the " +
			"type name); the real generator runs, then `go test` compiles each package with a harness-written test holding the expected table (strconv.Quote) and calls " +
			"RuntimeDoc for every type, listed field, delegated field, unlisted and unknown name; evaluations = batches + packages; non-trivial = package (or batch) " +
			"with an embedded or generic struct and doc text that needs escaping; distinct by JSON encoding of the package's types",
		Assumptions: []string{
			"field names are unique per package except own fields that shadow a field of an embedded struct (the own field answers); field docs never begin with the field's own name",
			"names passed to non-struct types and nil embedded pointers are not asserted; doc lines carry no leading/trailing blanks, no go: prefix, no [[",
		},
	})
	defer r.Finish()
	genRec = r
	ev.Search(r, ev.Sub[c16Case]{
		Name: "batch", Gen: genC16, Oracle: oracleC16, NonTrivial: c16NonTrivial, Classes: c16Features,
		Budget: ev.Budget{Quick: 12, Thorough: 120}, MinNonTrivial: 0.3, ShrinkTime: 90 * time.Second,
	})
}
