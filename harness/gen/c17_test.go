package gen

import (
	"encoding/json"
	"fmt"
	"os"
	"path/filepath"
	"sort"
	"strings"
	"testing"
	"time"

	"pgregory.net/rapid"

	"vt/internal/ev"
	"vt/internal/modspec"
)

// ---- C17: deepcopy output compiles and copies without sharing containers ----

type dcField struct {
	Name string `json:"name"`
	// Kind: int string bool float64 | ints strings bytes | mapsi mapis mapss | struct kind labels iface embed box (Ref names a type of the package) |
	//       error any obj | tparam
	Kind string `json:"kind"`
	Ref  string `json:"ref,omitempty"`
	Arg  string `json:"arg,omitempty"` // type argument for box fields: int | string | <struct name>
}

type dcType struct {
	Name string `json:"name"`
	// Kind: struct | generic | scalar | map | iface
	Kind       string    `json:"kind"`
	Fields     []dcField `json:"fields,omitempty"`
	Tagged     bool      `json:"tagged,omitempty"`     // carries its own +gengo:deepcopy tag
	Interfaces bool      `json:"interfaces,omitempty"` // carries +gengo:deepcopy:interfaces=m/obj.Object
	// Rich (with Interfaces): the tag names m/obj.Rich, an interface that declares a second method (Kind() string), which the
	// type implements by hand; a dependency that wrongly got DeepCopyObject() obj.Rich as well would not compile
	Rich bool `json:"rich,omitempty"`
}

type dcPkg struct {
	Name   string `json:"name"`
	PkgTag bool   `json:"pkgtag"` // package-level +gengo:deepcopy
	// PkgInterfaces: +gengo:deepcopy:interfaces=m/obj.Object stands in the package doc as well, so every type of the package
	// that is not an interface gets DeepCopyObject (the per-type tags are then not written)
	PkgInterfaces bool     `json:"pkginterfaces,omitempty"`
	Types         []dcType `json:"types"`
}

type c17Case struct {
	Pkgs []dcPkg `json:"pkgs"`
}

var dcScalarKinds = []string{"int", "string", "bool", "float64"}
var dcContainerKinds = []string{"ints", "strings", "bytes", "mapsi", "mapis", "mapss"}

var dcGoType = map[string]string{
	"int": "int", "string": "string", "bool": "bool", "float64": "float64", "ints": "[]int", "strings": "[]string", "bytes": "[]byte",
	"mapsi": "map[string]int", "mapis": "map[int]string", "mapss": "map[string]string", "error": "error", "any": "any", "obj": "obj.Object", "tparam": "T",
}

func genDCPkg(t *rapid.T, idx int) dcPkg {
	p := dcPkg{Name: fmt.Sprintf("p%d", idx), PkgTag: rapid.IntRange(0, 3).Draw(t, "pkgtag") > 0}
	n := rapid.IntRange(2, 7).Draw(t, "ntypes")
	var structs, scalars, maps, ifaces, generics []string
	fieldN := 0
	for i := 0; i < n; i++ {
		ty := dcType{Name: fmt.Sprintf("T%d", i)}
		k := rapid.IntRange(0, 11).Draw(t, "kind")
		switch {
		case k <= 5:
			ty.Kind = "struct"
		case k == 6:
			ty.Kind = "generic"
			if rapid.Bool().Draw(t, "genericlast") {
				ty.Name = fmt.Sprintf("Z%d", i) // sorts behind every holder: the generic is first met through an instantiation field
			}
		case k == 7 || k == 8:
			ty.Kind = "scalar"
		case k == 9 || k == 10:
			ty.Kind = "map"
		default:
			ty.Kind = "iface"
		}
		ty.Tagged = !p.PkgTag && rapid.IntRange(0, 2).Draw(t, "tagged") > 0
		if ty.Kind != "iface" && rapid.IntRange(0, 5).Draw(t, "interfaces") == 0 {
			ty.Interfaces = true
			ty.Rich = ty.Kind != "generic" && rapid.Bool().Draw(t, "rich")
			ty.Tagged = ty.Tagged || !p.PkgTag // the interfaces tag alone enables the generator as well
		}
		if ty.Kind == "struct" || ty.Kind == "generic" {
			nf := rapid.IntRange(1, 5).Draw(t, "nfields")
			for j := 0; j < nf; j++ {
				fieldN++
				f := dcField{Name: fmt.Sprintf("F%d", fieldN)}
				fk := rapid.IntRange(0, 15).Draw(t, "fieldkind")
				switch {
				case fk <= 2:
					f.Kind = rapid.SampledFrom(dcScalarKinds).Draw(t, "scalar")
				case fk <= 6:
					f.Kind = rapid.SampledFrom(dcContainerKinds).Draw(t, "container")
				case fk == 7 && len(structs) > 0:
					f.Kind, f.Ref = "struct", rapid.SampledFrom(structs).Draw(t, "sref")
				case fk == 8 && len(scalars) > 0:
					f.Kind, f.Ref = "kind", rapid.SampledFrom(scalars).Draw(t, "kref")
				case fk == 9 && len(maps) > 0:
					f.Kind, f.Ref = "labels", rapid.SampledFrom(maps).Draw(t, "mref")
				case fk == 10:
					f.Kind = "error"
				case fk == 11:
					f.Kind = rapid.SampledFrom([]string{"any", "obj"}).Draw(t, "ifk")
				case fk == 12 && len(ifaces) > 0:
					f.Kind, f.Ref = "iface", rapid.SampledFrom(ifaces).Draw(t, "iref")
				case fk == 13 && len(structs) > 0 && ty.Kind == "struct":
					f.Kind, f.Ref = "embed", rapid.SampledFrom(structs).Draw(t, "eref")
					dup := false
					for _, o := range ty.Fields {
						if o.Kind == "embed" && o.Ref == f.Ref {
							dup = true
						}
					}
					if dup {
						f.Kind, f.Ref = "int", ""
					} else {
						f.Name = f.Ref
					}
				case fk == 14 && len(generics) > 0 && ty.Kind == "struct":
					f.Kind, f.Ref = "box", rapid.SampledFrom(generics).Draw(t, "gref")
					// builtin arguments, or a defined scalar type of the package (a struct or map argument would be shared by the generic
					// DeepCopyInto's plain assignment of its T field, which is outside the stated domain)
					f.Arg = rapid.SampledFrom(append([]string{"int", "string"}, scalars...)).Draw(t, "garg")
				default:
					f.Kind = "int"
				}
				if ty.Kind == "generic" && j == 0 {
					f.Kind, f.Ref = "tparam", ""
				}
				ty.Fields = append(ty.Fields, f)
			}
		}
		switch ty.Kind {
		case "struct":
			structs = append(structs, ty.Name)
		case "generic":
			generics = append(generics, ty.Name)
		case "scalar":
			scalars = append(scalars, ty.Name)
		case "map":
			maps = append(maps, ty.Name)
		case "iface":
			ifaces = append(ifaces, ty.Name)
		}
		p.Types = append(p.Types, ty)
	}
	// a struct that depends on every earlier struct / scalar / map type at once (several local dependencies, tagged or not)
	if len(structs)+len(scalars)+len(maps) >= 2 && rapid.IntRange(0, 2).Draw(t, "fanout") == 0 {
		ty := dcType{Name: fmt.Sprintf("T%d", n), Kind: "struct", Tagged: !p.PkgTag}
		for _, r := range ifaces {
			// an interface-typed field ahead of the struct dependencies
			fieldN++
			ty.Fields = append(ty.Fields, dcField{Name: fmt.Sprintf("F%d", fieldN), Kind: "iface", Ref: r})
		}
		for _, r := range structs {
			fieldN++
			ty.Fields = append(ty.Fields, dcField{Name: fmt.Sprintf("F%d", fieldN), Kind: "struct", Ref: r})
		}
		for _, r := range scalars {
			fieldN++
			ty.Fields = append(ty.Fields, dcField{Name: fmt.Sprintf("F%d", fieldN), Kind: "kind", Ref: r})
		}
		for _, r := range maps {
			fieldN++
			ty.Fields = append(ty.Fields, dcField{Name: fmt.Sprintf("F%d", fieldN), Kind: "labels", Ref: r})
		}
		for _, r := range generics {
			// instantiations with a defined scalar type of the package first, then with a builtin type
			if len(scalars) > 0 {
				fieldN++
				ty.Fields = append(ty.Fields, dcField{Name: fmt.Sprintf("F%d", fieldN), Kind: "box", Ref: r, Arg: scalars[0]})
			}
			fieldN++
			ty.Fields = append(ty.Fields, dcField{Name: fmt.Sprintf("F%d", fieldN), Kind: "box", Ref: r, Arg: "int"})
		}
		p.Types = append(p.Types, ty)
	}
	// a tagged holder whose untagged dependencies are only reachable through it: the first one is a struct with two untagged
	// dependencies of its own, the second one (and a third) must still get their methods
	if !p.PkgTag && rapid.IntRange(0, 2).Draw(t, "depchain") == 0 {
		b := len(p.Types)
		nm := func(i int) string { return fmt.Sprintf("T%d", b+i) }
		fl := func(kind, ref string) dcField {
			fieldN++
			return dcField{Name: fmt.Sprintf("F%d", fieldN), Kind: kind, Ref: ref}
		}
		p.Types = append(p.Types,
			dcType{Name: nm(0), Kind: "scalar"},
			dcType{Name: nm(1), Kind: "map"},
			dcType{Name: nm(2), Kind: "struct", Fields: []dcField{fl("kind", nm(0)), fl("labels", nm(1)), fl("strings", "")}},
			dcType{Name: nm(3), Kind: "struct", Fields: []dcField{fl("mapss", ""), fl("int", "")}},
			dcType{Name: nm(4), Kind: "map"},
			dcType{Name: nm(5), Kind: "struct", Tagged: true, Fields: []dcField{fl("struct", nm(2)), fl("struct", nm(3)), fl("labels", nm(4))}},
		)
	}
	// without a package tag at least one struct must be tagged, otherwise nothing is generated
	if !p.PkgTag {
		any := false
		for _, ty := range p.Types {
			if ty.Tagged && ty.Kind != "iface" {
				any = true
			}
		}
		if !any {
			p.PkgTag = true
		}
	}
	if p.PkgTag && rapid.IntRange(0, 4).Draw(t, "pkginterfaces") == 0 {
		p.PkgInterfaces = true
		for i := range p.Types {
			if p.Types[i].Kind != "iface" {
				p.Types[i].Interfaces, p.Types[i].Rich = true, false
			}
		}
	}
	return p
}

func genC17(t *rapid.T) c17Case {
	c := c17Case{}
	n := rapid.IntRange(3, 8).Draw(t, "npkgs")
	for i := 0; i < n; i++ {
		c.Pkgs = append(c.Pkgs, genDCPkg(t, i))
	}
	return c
}

func (p dcPkg) typeByName(n string) *dcType {
	for i := range p.Types {
		if p.Types[i].Name == n {
			return &p.Types[i]
		}
	}
	return nil
}

func (p dcPkg) usesObj() bool {
	for _, ty := range p.Types {
		if ty.Interfaces {
			return false // the tag references m/obj by path, the source itself need not import it
		}
	}
	return false
}

func (f dcField) goType() string {
	switch f.Kind {
	case "struct", "kind", "labels", "iface":
		return f.Ref
	case "box":
		return f.Ref + "[" + f.Arg + "]"
	}
	return dcGoType[f.Kind]
}

func (p dcPkg) source() string {
	b := &strings.Builder{}
	if p.PkgTag {
		b.WriteString("// +gengo:deepcopy\n")
	}
	if p.PkgInterfaces {
		b.WriteString("// +gengo:deepcopy:interfaces=m/obj.Object\n")
	}
	fmt.Fprintf(b, "package %s\n", p.Name)
	needObj := false
	for _, ty := range p.Types {
		for _, f := range ty.Fields {
			if f.Kind == "obj" {
				needObj = true
			}
		}
	}
	if needObj {
		b.WriteString("\nimport \"m/obj\"\n")
	}
	// a concrete error and interface implementation for the tests
	b.WriteString("\ntype errT struct{ Msg string }\n\nfunc (e errT) Error() string { return e.Msg }\n\nfunc (e errT) M() {}\n")
	for _, ty := range p.Types {
		b.WriteString("\n")
		if ty.Tagged {
			b.WriteString("// +gengo:deepcopy\n")
		}
		if p.PkgInterfaces {
			// tag given at package level
		} else if ty.Interfaces && ty.Rich {
			b.WriteString("// +gengo:deepcopy:interfaces=m/obj.Rich\n")
		} else if ty.Interfaces {
			b.WriteString("// +gengo:deepcopy:interfaces=m/obj.Object\n")
		}
		switch ty.Kind {
		case "struct", "generic":
			tp := ""
			if ty.Kind == "generic" {
				tp = "[T any]"
			}
			fmt.Fprintf(b, "type %s%s struct {\n", ty.Name, tp)
			for _, f := range ty.Fields {
				if f.Kind == "embed" {
					fmt.Fprintf(b, "\t%s\n", f.Ref)
				} else {
					fmt.Fprintf(b, "\t%s %s\n", f.Name, f.goType())
				}
			}
			b.WriteString("}\n")
		case "scalar":
			fmt.Fprintf(b, "type %s int\n", ty.Name)
		case "map":
			fmt.Fprintf(b, "type %s map[string]string\n", ty.Name)
		case "iface":
			fmt.Fprintf(b, "type %s interface{ M() }\n", ty.Name)
		}
		if ty.Interfaces && ty.Rich {
			fmt.Fprintf(b, "\nfunc (%s) Kind() string { return %q }\n", ty.Name, ty.Name)
		}
	}
	return b.String()
}

// enabled: does gengo invoke the generator for this type directly
func (p dcPkg) enabled(ty *dcType) bool { return p.PkgTag || ty.Tagged }

// reachable: types for which deepcopy code must exist: enabled ones and their same-package dependencies
func (p dcPkg) generated() map[string]bool {
	out := map[string]bool{}
	var visit func(ty *dcType)
	visit = func(ty *dcType) {
		if ty == nil || out[ty.Name] || ty.Kind == "iface" {
			return
		}
		out[ty.Name] = true
		for _, f := range ty.Fields {
			switch f.Kind {
			case "struct", "kind", "labels", "embed", "box":
				visit(p.typeByName(f.Ref))
				// (a type that is only a type ARGUMENT of an instantiation is no dependency: the generic copies its T field by assignment)
			}
		}
	}
	for i := range p.Types {
		if p.enabled(&p.Types[i]) {
			visit(&p.Types[i])
		}
	}
	return out
}

type litCtx struct {
	p *dcPkg
	n int
	// empty: every slice and map is empty but not nil
	empty bool
}

func (l *litCtx) next() int { l.n++; return l.n }

// lit prints a non-trivial literal of the field's type; every container is non-empty.
func (l *litCtx) field(f dcField) string {
	k := l.next()
	if l.empty {
		switch f.Kind {
		case "ints":
			return "[]int{}"
		case "strings":
			return "[]string{}"
		case "bytes":
			return "[]byte{}"
		case "mapsi":
			return "map[string]int{}"
		case "mapis":
			return "map[int]string{}"
		case "mapss":
			return "map[string]string{}"
		case "labels":
			return f.Ref + "{}"
		}
	}
	switch f.Kind {
	case "int":
		return fmt.Sprint(k)
	case "string":
		return fmt.Sprintf("%q", fmt.Sprintf("s%d", k))
	case "bool":
		return "true"
	case "float64":
		return fmt.Sprintf("%d.5", k)
	case "ints":
		return fmt.Sprintf("[]int{%d, %d, %d}", k, k+1, k+2)
	case "strings":
		return fmt.Sprintf("[]string{%q, %q}", fmt.Sprintf("a%d", k), "b")
	case "bytes":
		return fmt.Sprintf("[]byte(%q)", fmt.Sprintf("bytes%d", k))
	case "mapsi":
		return fmt.Sprintf("map[string]int{\"k\": %d, \"l\": 2}", k)
	case "mapis":
		return fmt.Sprintf("map[int]string{1: %q, 2: \"y\"}", fmt.Sprintf("x%d", k))
	case "mapss":
		return fmt.Sprintf("map[string]string{\"k\": %q}", fmt.Sprintf("v%d", k))
	case "struct", "embed":
		return l.value(l.p.typeByName(f.Ref), "")
	case "kind":
		return fmt.Sprintf("%s(%d)", f.Ref, k)
	case "labels":
		return fmt.Sprintf("%s{\"k\": %q, \"l\": \"w\"}", f.Ref, fmt.Sprintf("v%d", k))
	case "error":
		return fmt.Sprintf("errT{Msg: %q}", fmt.Sprintf("e%d", k))
	case "any":
		return fmt.Sprint(k)
	case "obj":
		// a typed nil of a type that implements obj.Object through its generated DeepCopyObject: the copy must hold the same
		// (typed) nil, not the plain nil interface
		var impl []string
		for i := range l.p.Types {
			ty := &l.p.Types[i]
			if !ty.Interfaces || ty.Rich {
				continue
			}
			switch ty.Kind {
			case "struct":
				impl = append(impl, "(*"+ty.Name+")(nil)")
			case "map":
				impl = append(impl, ty.Name+"(nil)")
			}
		}
		if len(impl) > 0 && k%3 != 0 {
			return impl[k%len(impl)]
		}
		return "nil"
	case "iface":
		return fmt.Sprintf("errT{Msg: %q}", fmt.Sprintf("i%d", k))
	case "box":
		return l.value(l.p.typeByName(f.Ref), f.Arg)
	}
	panic("harness: field kind " + f.Kind)
}

func (l *litCtx) value(ty *dcType, arg string) string {
	switch ty.Kind {
	case "scalar":
		return fmt.Sprintf("%s(%d)", ty.Name, l.next())
	case "map":
		return fmt.Sprintf("%s{\"k\": %q, \"l\": \"w\"}", ty.Name, fmt.Sprintf("v%d", l.next()))
	}
	name := ty.Name
	if ty.Kind == "generic" {
		if arg == "" {
			arg = "int"
		}
		name += "[" + arg + "]"
	}
	var parts []string
	for _, f := range ty.Fields {
		if f.Kind == "tparam" {
			switch arg {
			case "int":
				parts = append(parts, fmt.Sprintf("%s: %d", f.Name, l.next()))
			case "string":
				parts = append(parts, fmt.Sprintf("%s: %q", f.Name, fmt.Sprintf("t%d", l.next())))
			default:
				parts = append(parts, fmt.Sprintf("%s: %s", f.Name, l.value(l.p.typeByName(arg), "")))
			}
			continue
		}
		parts = append(parts, fmt.Sprintf("%s: %s", f.Name, l.field(f)))
	}
	return name + "{" + strings.Join(parts, ", ") + "}"
}

// containers lists the selector paths (from a value of the type) of every slice/map reachable through by-value struct nesting
func (p dcPkg) containers(ty *dcType, arg string, prefix string, out *[][2]string, depth int) {
	if depth > 6 {
		return
	}
	for _, f := range ty.Fields {
		path := prefix + "." + f.Name
		switch f.Kind {
		case "ints", "strings", "bytes", "mapsi", "mapis", "mapss":
			*out = append(*out, [2]string{path, f.Kind})
		case "labels":
			*out = append(*out, [2]string{path, "mapss"})
		case "struct", "embed":
			p.containers(p.typeByName(f.Ref), "", path, out, depth+1)
		case "box":
			p.containers(p.typeByName(f.Ref), f.Arg, path, out, depth+1)
		case "tparam":
			if arg != "" && arg != "int" && arg != "string" {
				p.containers(p.typeByName(arg), "", path, out, depth+1)
			}
		}
	}
}

func mutation(path, kind string) []string {
	switch kind {
	case "ints":
		return []string{fmt.Sprintf("cp%s[0] = -999", path), fmt.Sprintf("cp%s = append(cp%s[:1], -5)", path, path)}
	case "strings":
		return []string{fmt.Sprintf("cp%s[0] = \"mutated\"", path), fmt.Sprintf("cp%s = append(cp%s[:1], \"appended\")", path, path)}
	case "bytes":
		return []string{fmt.Sprintf("cp%s[0] = 'Z'", path), fmt.Sprintf("cp%s = append(cp%s[:1], 'Y')", path, path)}
	case "mapsi":
		return []string{fmt.Sprintf("cp%s[\"k\"] = -999", path), fmt.Sprintf("cp%s[\"inserted\"] = 1", path), fmt.Sprintf("delete(cp%s, \"l\")", path)}
	case "mapis":
		return []string{fmt.Sprintf("cp%s[1] = \"mutated\"", path), fmt.Sprintf("cp%s[99] = \"inserted\"", path)}
	case "mapss":
		return []string{fmt.Sprintf("cp%s[\"k\"] = \"mutated\"", path), fmt.Sprintf("cp%s[\"inserted\"] = \"x\"", path)}
	}
	return nil
}

func (p dcPkg) testSource() string {
	b := &strings.Builder{}
	fmt.Fprintf(b, "package %s\n\nimport (\n\t\"reflect\"\n\t\"testing\"\n)\n\nvar _ = reflect.DeepEqual\n\n", p.Name)
	gen := p.generated()
	b.WriteString("func TestDeepCopy(t *testing.T) {\n")
	for i := range p.Types {
		ty := &p.Types[i]
		if !gen[ty.Name] {
			continue
		}
		name := ty.Name
		arg := ""
		if ty.Kind == "generic" {
			arg = "int"
			name += "[int]"
		}
		b.WriteString("\t{\n")
		switch ty.Kind {
		case "map":
			fmt.Fprintf(b, "\t\tvar zero %s\n\t\tif zero.DeepCopy() != nil {\n\t\t\tt.Errorf(\"VT-FAIL DeepCopy of a nil %s is not nil\")\n\t\t}\n", name, name)
			l := &litCtx{p: &p}
			fmt.Fprintf(b, "\t\torig := %s\n", l.value(ty, ""))
			l = &litCtx{p: &p}
			fmt.Fprintf(b, "\t\tsnapshot := %s\n", l.value(ty, ""))
			b.WriteString("\t\tcp := orig.DeepCopy()\n")
			fmt.Fprintf(b, "\t\tif !reflect.DeepEqual(cp, orig) {\n\t\t\tt.Errorf(\"VT-FAIL copy of %s differs: %%#v vs %%#v\", cp, orig)\n\t\t}\n", name)
			b.WriteString("\t\tcp[\"k\"] = \"mutated\"\n\t\tcp[\"inserted\"] = \"x\"\n")
			fmt.Fprintf(b, "\t\tif !reflect.DeepEqual(orig, snapshot) {\n\t\t\tt.Errorf(\"VT-FAIL mutating the copy of %s changed the original: %%#v\", orig)\n\t\t}\n", name)
		default:
			fmt.Fprintf(b, "\t\tvar zero *%s\n\t\tif zero.DeepCopy() != nil {\n\t\t\tt.Errorf(\"VT-FAIL DeepCopy of a nil *%s is not nil\")\n\t\t}\n", name, name)
			l := &litCtx{p: &p}
			fmt.Fprintf(b, "\t\torig := %s\n", l.value(ty, arg))
			l = &litCtx{p: &p}
			fmt.Fprintf(b, "\t\tsnapshot := %s\n", l.value(ty, arg))
			b.WriteString("\t\tcp := (&orig).DeepCopy()\n")
			fmt.Fprintf(b, "\t\tif cp == nil || !reflect.DeepEqual(*cp, orig) {\n\t\t\tt.Fatalf(\"VT-FAIL copy of %s differs: %%#v vs %%#v\", cp, orig)\n\t\t}\n", name)
			if ty.Kind == "struct" || ty.Kind == "generic" {
				var cs [][2]string
				p.containers(ty, arg, "", &cs, 0)
				for _, c := range cs {
					for _, m := range mutation(c[0], c[1]) {
						fmt.Fprintf(b, "\t\t%s\n", m)
					}
				}
				fmt.Fprintf(b, "\t\tif !reflect.DeepEqual(orig, snapshot) {\n\t\t\tt.Errorf(\"VT-FAIL mutating containers of the copy of %s changed the original: %%#v\", orig)\n\t\t}\n", name)
				// the same with containers that are empty but not nil: inserting into the copy must not show in the original
				if len(cs) > 0 {
					le := &litCtx{p: &p, empty: true}
					fmt.Fprintf(b, "\t\torigE := %s\n", le.value(ty, arg))
					le = &litCtx{p: &p, empty: true}
					fmt.Fprintf(b, "\t\tsnapshotE := %s\n", le.value(ty, arg))
					b.WriteString("\t\tcpE := (&origE).DeepCopy()\n\t\t_ = cpE\n")
					fmt.Fprintf(b, "\t\tif cpE == nil || !reflect.DeepEqual(*cpE, origE) {\n\t\t\tt.Fatalf(\"VT-FAIL copy of %s with empty, non-nil containers differs: %%#v vs %%#v\", cpE, origE)\n\t\t}\n", name)
					for _, c := range cs {
						path := strings.Replace(c[0], ".", "cpE.", 1)
						_ = path
						switch c[1] {
						case "mapsi":
							fmt.Fprintf(b, "\t\tcpE%s[\"inserted\"] = 1\n", c[0])
						case "mapis":
							fmt.Fprintf(b, "\t\tcpE%s[7] = \"inserted\"\n", c[0])
						case "mapss":
							fmt.Fprintf(b, "\t\tcpE%s[\"inserted\"] = \"x\"\n", c[0])
						case "ints":
							fmt.Fprintf(b, "\t\tcpE%s = append(cpE%s, 1)\n", c[0], c[0])
						}
					}
					fmt.Fprintf(b, "\t\tif !reflect.DeepEqual(origE, snapshotE) {\n\t\t\tt.Errorf(\"VT-FAIL inserting into the empty containers of the copy of %s changed the original: %%#v\", origE)\n\t\t}\n", name)
				}
			} else {
				b.WriteString("\t\t_ = snapshot\n")
			}
		}
		if ty.Interfaces {
			switch ty.Kind {
			case "map":
				b.WriteString("\t\tif o := orig.DeepCopyObject(); o == nil {\n\t\t\tt.Errorf(\"VT-FAIL DeepCopyObject returned nil\")\n\t\t}\n")
				fmt.Fprintf(b, "\t\tvar nilMap %s\n\t\tif o := nilMap.DeepCopyObject(); o != nil {\n\t\t\tt.Errorf(\"VT-FAIL DeepCopyObject of a nil %s is not nil: %%#v\", o)\n\t\t}\n", ty.Name, ty.Name)
			default:
				b.WriteString("\t\tif o := (&orig).DeepCopyObject(); o == nil {\n\t\t\tt.Errorf(\"VT-FAIL DeepCopyObject returned nil\")\n\t\t}\n")
				// the copy of nil is nil, also through DeepCopyObject
				fmt.Fprintf(b, "\t\tfunc() {\n\t\t\tdefer func() {\n\t\t\t\tif p := recover(); p != nil {\n\t\t\t\t\tt.Errorf(\"VT-FAIL DeepCopyObject of a nil *%s panics: %%v\", p)\n\t\t\t\t}\n\t\t\t}()\n\t\t\tnilPtr := &orig\n\t\t\tnilPtr = nil\n\t\t\tif o := nilPtr.DeepCopyObject(); o != nil {\n\t\t\t\tt.Errorf(\"VT-FAIL DeepCopyObject of a nil *%s is not nil: %%#v\", o)\n\t\t\t}\n\t\t}()\n", ty.Name, ty.Name)
			}
		}
		b.WriteString("\t}\n")
	}
	b.WriteString("}\n")
	return b.String()
}

func readOutputs(dir string, pkgs []dcPkg) map[string]string {
	out := map[string]string{}
	for _, p := range pkgs {
		fn := filepath.Join(dir, p.Name, "zz_generated.deepcopy.go")
		if b, err := os.ReadFile(fn); err == nil {
			out[p.Name] = string(b)
		}
	}
	return out
}

func oracleC17(c c17Case) error {
	m := modspec.Mod{Path: "m", Go: "1.21"}
	m.Pkgs = append(m.Pkgs, modspec.Pkg{Dir: "obj", Name: "obj", Other: []modspec.File{{Name: "obj.go", Data: "package obj\n\ntype Object interface {\n\tDeepCopyObject() Object\n}\n\ntype Rich interface {\n\tDeepCopyObject() Rich\n\tKind() string\n}\n"}}})
	var entries []string
	for _, p := range c.Pkgs {
		m.Pkgs = append(m.Pkgs, modspec.Pkg{Dir: p.Name, Name: p.Name, Other: []modspec.File{{Name: "types.go", Data: p.source()}, {Name: "copy_test.go", Data: p.testSource()}}})
		entries = append(entries, "./"+p.Name)
		if genRec != nil {
			one := c17Case{Pkgs: []dcPkg{p}}
			enc, _ := json.Marshal(p)
			genRec.Point("package", enc, c17NonTrivial(one), c17Features(one))
		}
	}
	dir := tempModule(&m)
	defer os.RemoveAll(dir)
	describe := func(pkg string) string {
		for _, p := range c.Pkgs {
			if p.Name == pkg {
				gen, _ := os.ReadFile(filepath.Join(dir, p.Name, "zz_generated.deepcopy.go"))
				return fmt.Sprintf("--- source ---\n%s\n--- generated ---\n%s", clip(p.source(), 2500), clip(string(gen), 3500))
			}
		}
		return ""
	}
	res := mustRun(dir, entries, []string{"deepcopy"}, nil)
	if res.Panic != "" {
		return fmt.Errorf("the deepcopy generator panics: %s\n%s", clip(res.Panic, 600), firstSources(c))
	}
	if res.Failed {
		return fmt.Errorf("Execute with the deepcopy generator fails: %s\n%s", clip(res.Err, 800), firstSources(c))
	}
	first := readOutputs(dir, c.Pkgs)
	// the first run's output must already be right: compile and run it
	failed, _ := goTest(dir)
	if len(failed) > 0 {
		names := make([]string, 0, len(failed))
		for n := range failed {
			names = append(names, n)
		}
		sort.Strings(names)
		return fmt.Errorf("package %s: the deepcopy code generated by the FIRST run does not compile or does not copy deeply (%d of %d packages fail):\n%s\n%s",
			names[0], len(failed), len(c.Pkgs), clip(failed[names[0]], 2000), describe(strings.TrimPrefix(names[0], "m/")))
	}
	// later runs see the generated methods: same bytes
	res2 := mustRun(dir, entries, []string{"deepcopy"}, nil)
	if res2.Panic != "" || res2.Failed {
		return fmt.Errorf("the second run (on the first run's output) fails: %s %s", res2.Err, res2.Panic)
	}
	second := readOutputs(dir, c.Pkgs)
	for _, p := range c.Pkgs {
		if first[p.Name] != second[p.Name] {
			return fmt.Errorf("package %s: the second run generates different code than the first:\n--- first ---\n%s\n--- second ---\n%s", p.Name, clip(first[p.Name], 2500), clip(second[p.Name], 2500))
		}
	}
	return nil
}

func firstSources(c c17Case) string {
	var b strings.Builder
	for i, p := range c.Pkgs {
		if i >= 2 {
			break
		}
		fmt.Fprintf(&b, "--- %s ---\n%s\n", p.Name, clip(p.source(), 1500))
	}
	return b.String()
}

func c17Features(c c17Case) []string {
	fs := map[string]bool{}
	for _, p := range c.Pkgs {
		if !p.PkgTag {
			fs["per-type-tags-only"] = true
		}
		for _, ty := range p.Types {
			fs["type-"+ty.Kind] = true
			if ty.Interfaces {
				fs["interfaces-tag"] = true
				fs["interfaces-tag-on-"+ty.Kind] = true
			}
			var cs [][2]string
			pp := p
			pp.containers(&ty, "int", "", &cs, 0)
			for _, cpath := range cs {
				if strings.Count(cpath[0], ".") >= 2 {
					fs["container-at-depth>=2"] = true
				}
			}
			for _, f := range ty.Fields {
				fs["field-"+f.Kind] = true
				deps := 0
				for _, f2 := range ty.Fields {
					if f2.Kind == "struct" || f2.Kind == "kind" || f2.Kind == "labels" {
						deps++
					}
				}
				if deps >= 2 {
					fs["several-local-dependencies"] = true
				}
				if !p.PkgTag && (f.Kind == "struct" || f.Kind == "kind" || f.Kind == "labels" || f.Kind == "embed") {
					if dep := p.typeByName(f.Ref); dep != nil && !dep.Tagged && (ty.Tagged) {
						fs["untagged-dependency"] = true
					}
				}
			}
		}
	}
	out := make([]string, 0, len(fs))
	for k := range fs {
		out = append(out, k)
	}
	sort.Strings(out)
	return out
}

func c17NonTrivial(c c17Case) bool {
	for _, f := range c17Features(c) {
		switch f {
		case "container-at-depth>=2", "field-labels", "field-box", "field-error", "field-iface", "field-any", "field-obj":
			return true
		}
	}
	return false
}

func TestC17(t *testing.T) {
	r := ev.Begin(t, ev.Meta{
		ID:    "C17",
		Level: "exploration",
		Rule: "batches of 3-8 packages enabled for deepcopy by package tag or by per-type tags only (tagged and untagged dependencies); type graphs of structs with scalar/string " +
			"fields, []int/[]string/[]byte, map[string]int/map[int]string/map[string]string, same-package structs by value (nesting through earlier types), embedded structs, " +
			"defined scalar and defined map types, error, any, same-package and foreign interface fields, generic structs with a bare type-parameter field and fields " +
			"instantiating them with int/string arguments, gengo:deepcopy:interfaces on a sixth of the types; the real generator runs, `go test` compiles the FIRST " +
			"run's output with a harness-written test (nil copy, DeepEqual of the copy of a literal whose every container is non-empty, then overwrite/append/insert/delete " +
			"on every slice and map reachable through by-value nesting of the copy and comparison of the original with an independently built snapshot), then a second run " +
			"must reproduce the same bytes; evaluations = batches + packages; non-trivial = container at nesting depth >= 2 | defined-map field | instantiation field | " +
			"error/interface field; distinct by JSON encoding of the package",
		Assumptions: []string{"pointer, func and channel fields, slices/maps of non-scalars and defined slice types are outside the stated domain"},
	})
	defer r.Finish()
	genRec = r
	ev.Search(r, ev.Sub[c17Case]{
		Name: "batch", Gen: genC17, Oracle: oracleC17, NonTrivial: c17NonTrivial, Classes: c17Features,
		Budget: ev.Budget{Quick: 10, Thorough: 120}, MinNonTrivial: 0.3, ShrinkTime: 120 * time.Second,
	})
}
