package gen

import (
	"encoding/json"
	"fmt"
	"os"
	"os/exec"
	"path/filepath"
	"sort"
	"strings"
	"testing"
	"time"

	"pgregory.net/rapid"

	"vt/internal/ev"
	"vt/internal/modspec"
)

// ---- C18: partialstruct output mirrors the origin struct minus omitted fields ----

type psField struct {
	Name string   `json:"name"`
	Type string   `json:"type"` // Go type text as written in package origin
	Tag  string   `json:"tag,omitempty"`
	Doc  []string `json:"doc,omitempty"`
}

type psOrigin struct {
	Name   string    `json:"name"`
	Fields []psField `json:"fields"`
}

type psDecl struct {
	Name   string   `json:"name"`   // lower-case declared name: `type <name> origin.<Origin>`
	Origin string   `json:"origin"` // origin struct name
	Omit   []string `json:"omit,omitempty"`
	// Replace: field -> generated partial struct name (+ optional new tag)
	ReplaceField string `json:"replacefield,omitempty"`
	ReplaceWith  string `json:"replacewith,omitempty"`
	ReplaceTag   string `json:"replacetag,omitempty"`
}

type c18Case struct {
	Origins   []psOrigin `json:"origins"`
	Decls     []psDecl   `json:"decls"`
	Grouped   bool       `json:"grouped,omitempty"`   // the declarations share one `type ( ... )` group
	DotImport bool       `json:"dotimport,omitempty"` // the origin package is dot-imported: `type x0 O0`
	// WithDeepCopy: the deepcopy generator runs ahead of partialstruct in the same Execute, over a struct of the same package
	// that holds a third.Cloner (a type with hand-written DeepCopy/DeepCopyInto); what one generator learns about a type must
	// not leak into the other
	WithDeepCopy bool `json:"withdeepcopy,omitempty"`
	// Rerun: the generator first runs over an earlier edition of the declarations (every declaration omits one more field);
	// then the declarations are edited to what the case says and the generator runs again over the same directory
	Rerun bool `json:"rerun,omitempty"`
}

var psTypes = []string{
	"int", "string", "bool", "float64", "[]string", "[]byte", "map[string]int", "*int", "*string", "*third.Inner", "third.Kind", "third.Inner", "error", "third.Iface", "any",
	"[]third.Inner", "map[string]third.Kind", "[2]int", "int64", "uint8",
	// containers of defined scalar types (foreign and of the origin package itself), nested containers
	"third.Flag", "[]third.Flag", "map[string][]third.Flag", "*[]third.Flag", "[]Flag8", "map[Label]Flag8", "Label", "[]*third.Inner", "map[third.Kind]*third.Inner", "[][]byte", "[3]third.Flag", "third.Cloner", "third.Cloner", "*third.Cloner",
	// aliases declared in the origin package whose element type cannot be named from outside
	"Steps", "StepIndex",
	// a fourth package whose types have the simple names of package third's
	"fourth.Kind", "[]fourth.Flag", "fourth.Inner", "map[fourth.Kind]third.Kind", "*fourth.Inner",
}

var psTags = []string{
	``, `json:"a"`, `json:"a.b"`, `json:"a,omitempty" yaml:"b.c"`, `validate:"@len[1,3]"`, `name:"50%"`, `k:"é ü"`, `x:"a b"`, `noquote`, `weird.tag`, `a:"1" b:"2"`,
	`json:"spec.replicas" protobuf:"varint,1,opt,name=replicas"`, `key:"v:w"`, `q:"it's"`, `dollar:"$x"`,
}

func genC18(t *rapid.T) c18Case {
	c := c18Case{}
	no := rapid.IntRange(1, 4).Draw(t, "norigins")
	fieldN := 0
	for i := 0; i < no; i++ {
		o := psOrigin{Name: fmt.Sprintf("O%d", i)}
		nf := rapid.IntRange(1, 7).Draw(t, "nfields")
		for j := 0; j < nf; j++ {
			fieldN++
			fname := fmt.Sprintf("F%d", fieldN)
			// a name that extends the previous field's name (ID/IDs, Name/Namespace)
			if j > 0 && rapid.IntRange(0, 5).Draw(t, "extendname") == 0 {
				fname = o.Fields[j-1].Name + rapid.SampledFrom([]string{"s", "x", "0", "_"}).Draw(t, "suffix")
			}
			f := psField{Name: fname, Type: rapid.SampledFrom(psTypes).Draw(t, "ftype"), Tag: rapid.SampledFrom(psTags).Draw(t, "tag")}
			if rapid.IntRange(0, 2).Draw(t, "doc") == 0 {
				f.Doc = []string{rapid.SampledFrom([]string{"the count", "see other.Thing", "quoted \"x\"", "uses `backquote`", "100% sure @you"}).Draw(t, "docline")}
			}
			// a field of an earlier origin struct (by value), replaceable by its partial struct
			if i > 0 && rapid.IntRange(0, 4).Draw(t, "nest") == 0 {
				f.Type = fmt.Sprintf("O%d", rapid.IntRange(0, i-1).Draw(t, "nestidx"))
			}
			o.Fields = append(o.Fields, f)
		}
		c.Origins = append(c.Origins, o)
	}
	for i, o := range c.Origins {
		d := psDecl{Name: fmt.Sprintf("x%d", i), Origin: o.Name}
		for _, f := range o.Fields {
			if rapid.IntRange(0, 3).Draw(t, "omit") == 0 {
				d.Omit = append(d.Omit, f.Name)
			}
		}
		if len(d.Omit) > 3 {
			d.Omit = d.Omit[:3]
		}
		for _, f := range o.Fields {
			if strings.HasPrefix(f.Type, "O") && d.ReplaceField == "" && rapid.Bool().Draw(t, "replace") {
				omitted := false
				for _, om := range d.Omit {
					if om == f.Name {
						omitted = true
					}
				}
				if omitted && rapid.IntRange(0, 2).Draw(t, "replaceomitted") != 0 {
					continue // (otherwise: one field named by both tags - omit wins, the field is neither declared nor copied)
				}
				d.ReplaceField = f.Name
				d.ReplaceWith = "X" + strings.TrimPrefix(f.Type, "O")
				if rapid.Bool().Draw(t, "replacetag") {
					d.ReplaceTag = `json:"replaced"`
				}
			}
		}
		c.Decls = append(c.Decls, d)
	}
	c.Grouped = len(c.Decls) >= 2 && rapid.IntRange(0, 4).Draw(t, "grouped") == 0
	c.DotImport = rapid.IntRange(0, 4).Draw(t, "dotimport") == 0
	c.WithDeepCopy = rapid.IntRange(0, 2).Draw(t, "withdeepcopy") == 0
	c.Rerun = rapid.IntRange(0, 2).Draw(t, "rerun") == 0
	return c
}

func (c c18Case) originSource() string {
	b := &strings.Builder{}
	b.WriteString("package origin\n\nimport \"m/third\"\n\nimport \"m/fourth\"\n\nvar _ third.Kind\n\nvar _ fourth.Kind\n\ntype Flag8 uint8\n\ntype Label string\n\ntype step struct{ N int }\n\ntype Steps = []step\n\ntype StepIndex = map[string]step\n")
	for _, o := range c.Origins {
		fmt.Fprintf(b, "\ntype %s struct {\n", o.Name)
		for _, f := range o.Fields {
			for _, l := range f.Doc {
				fmt.Fprintf(b, "\t// %s\n", l)
			}
			if f.Tag != "" {
				fmt.Fprintf(b, "\t%s %s `%s`\n", f.Name, f.Type, f.Tag)
			} else {
				fmt.Fprintf(b, "\t%s %s\n", f.Name, f.Type)
			}
		}
		b.WriteString("}\n")
	}
	return b.String()
}

const fourthSource = `package fourth

type Kind string

type Flag uint16

type Inner struct {
	B string
	C []int
}
`

const thirdSource = `package third

type Kind string

type Flag uint8

// Cloner has hand-written copy methods.
type Cloner struct {
	M map[string]int
}

func (in *Cloner) DeepCopy() *Cloner {
	if in == nil {
		return nil
	}
	out := new(Cloner)
	in.DeepCopyInto(out)
	return out
}

func (in *Cloner) DeepCopyInto(out *Cloner) {
	if in.M != nil {
		out.M = make(map[string]int, len(in.M))
		for k, v := range in.M {
			out.M[k] = v
		}
	}
}

type Inner struct {
	A int
	B []string
}

type Iface interface{ M() }

type Impl struct{ N int }

func (Impl) M() {}
`

func (d psDecl) docLines() []string {
	ls := []string{"+gengo:partialstruct"}
	for _, o := range d.Omit {
		ls = append(ls, "+gengo:partialstruct:omit="+o)
	}
	if d.ReplaceField != "" {
		l := "+gengo:partialstruct:replace=" + d.ReplaceField + ":" + d.ReplaceWith
		if d.ReplaceTag != "" {
			l += " " + d.ReplaceTag
		}
		ls = append(ls, l)
	}
	return ls
}

func (c c18Case) declSource() string {
	b := &strings.Builder{}
	b.WriteString("package decl\n\nimport \"m/origin\"\n")
	if c.DotImport {
		// the origin type is named by a bare identifier
		text := c.plainDeclSource()
		text = strings.Replace(text, "import \"m/origin\"", "import . \"m/origin\"", 1)
		return strings.ReplaceAll(text, " origin.O", " O")
	}
	return c.plainDeclSource()
}

func (c c18Case) plainDeclSource() string {
	b := &strings.Builder{}
	b.WriteString("package decl\n\nimport \"m/origin\"\n")
	if c.Grouped {
		b.WriteString("\ntype (\n")
		for _, d := range c.Decls {
			for _, l := range d.docLines() {
				fmt.Fprintf(b, "\t// %s\n", l)
			}
			fmt.Fprintf(b, "\t%s origin.%s\n", d.Name, d.Origin)
		}
		b.WriteString(")\n")
		return b.String()
	}
	for _, d := range c.Decls {
		b.WriteString("\n")
		for _, l := range d.docLines() {
			fmt.Fprintf(b, "// %s\n", l)
		}
		fmt.Fprintf(b, "type %s origin.%s\n", d.Name, d.Origin)
	}
	return b.String()
}

func (c c18Case) origin(n string) *psOrigin {
	for i := range c.Origins {
		if c.Origins[i].Name == n {
			return &c.Origins[i]
		}
	}
	return nil
}

const psTestHelpers = `
type errT struct{ Msg string }

func (e errT) Error() string { return e.Msg }

var counter int

// emptyMode: slices and maps are made empty but not nil
var emptyMode bool

// nilElems: the second element of every slice and one more map entry are left at their zero value (nil slices, maps, pointers as elements)
var nilElems bool

// fill sets every reachable part of v to a non-zero value.
func fill(v reflect.Value) {
	counter++
	if !v.CanSet() {
		return // fields that are not exported
	}
	switch v.Kind() {
	case reflect.Bool:
		v.SetBool(true)
	case reflect.Int, reflect.Int8, reflect.Int16, reflect.Int32, reflect.Int64:
		v.SetInt(int64(counter%100 + 1))
	case reflect.Uint, reflect.Uint8, reflect.Uint16, reflect.Uint32, reflect.Uint64:
		v.SetUint(uint64(counter%100 + 1))
	case reflect.Float32, reflect.Float64:
		v.SetFloat(float64(counter) + 0.5)
	case reflect.String:
		v.SetString(fmt.Sprintf("s%d", counter))
	case reflect.Slice:
		if emptyMode {
			v.Set(reflect.MakeSlice(v.Type(), 0, 0))
			return
		}
		s := reflect.MakeSlice(v.Type(), 2, 2)
		fill(s.Index(0))
		if !nilElems {
			fill(s.Index(1))
		}
		v.Set(s)
	case reflect.Array:
		for i := 0; i < v.Len(); i++ {
			fill(v.Index(i))
		}
	case reflect.Map:
		if emptyMode {
			v.Set(reflect.MakeMap(v.Type()))
			return
		}
		m := reflect.MakeMap(v.Type())
		k := reflect.New(v.Type().Key()).Elem()
		fill(k)
		e := reflect.New(v.Type().Elem()).Elem()
		fill(e)
		m.SetMapIndex(k, e)
		if nilElems {
			k2 := reflect.New(v.Type().Key()).Elem()
			fill(k2)
			m.SetMapIndex(k2, reflect.Zero(v.Type().Elem()))
		}
		v.Set(m)
	case reflect.Pointer:
		p := reflect.New(v.Type().Elem())
		fill(p.Elem())
		v.Set(p)
	case reflect.Struct:
		for i := 0; i < v.NumField(); i++ {
			fill(v.Field(i))
		}
	case reflect.Interface:
		switch {
		case v.Type() == reflect.TypeOf((*error)(nil)).Elem():
			v.Set(reflect.ValueOf(errT{Msg: fmt.Sprintf("e%d", counter)}))
		case v.Type() == reflect.TypeOf((*third.Iface)(nil)).Elem():
			v.Set(reflect.ValueOf(third.Impl{N: counter}))
		default:
			v.Set(reflect.ValueOf(counter))
		}
	}
}
`

func (c c18Case) testSource() string {
	b := &strings.Builder{}
	b.WriteString("package decl\n\nimport (\n\t\"fmt\"\n\t\"reflect\"\n\t\"testing\"\n\n\t\"m/origin\"\n\t\"m/third\"\n)\n\nvar _ origin.O0\n")
	b.WriteString(psTestHelpers)
	b.WriteString("\nfunc TestPartialStruct(t *testing.T) {\n")
	for _, d := range c.Decls {
		o := c.origin(d.Origin)
		gen := "X" + strings.TrimPrefix(d.Name, "x")
		omitted := map[string]bool{}
		for _, om := range d.Omit {
			omitted[om] = true
		}
		if omitted[d.ReplaceField] {
			d.ReplaceField = "" // named by an omit tag as well: omit wins, nothing of the replacement is visible
		}
		b.WriteString("\t{\n")
		fmt.Fprintf(b, "\t\txt, ot := reflect.TypeOf(%s{}), reflect.TypeOf(origin.%s{})\n", gen, o.Name)
		var want []string
		for _, f := range o.Fields {
			if !omitted[f.Name] {
				want = append(want, f.Name)
			}
		}
		fmt.Fprintf(b, "\t\twant := %#v\n", want)
		fmt.Fprintf(b, "\t\tif xt.NumField() != len(want) {\n\t\t\tt.Fatalf(\"VT-FAIL %s has %%d fields, want %%v\", xt.NumField(), want)\n\t\t}\n", gen)
		b.WriteString("\t\tfor i, name := range want {\n\t\t\txf := xt.Field(i)\n\t\t\tof, _ := ot.FieldByName(name)\n")
		fmt.Fprintf(b, "\t\t\tif xf.Name != name {\n\t\t\t\tt.Fatalf(\"VT-FAIL %s field %%d is %%s, want %%s (same order as the origin)\", i, xf.Name, name)\n\t\t\t}\n", gen)
		if d.ReplaceField != "" {
			fmt.Fprintf(b, "\t\t\tif name == %q {\n\t\t\t\tif xf.Type != reflect.TypeOf(%s{}) {\n\t\t\t\t\tt.Errorf(\"VT-FAIL %s.%%s has type %%v, want the replacement %s\", name, xf.Type)\n\t\t\t\t}\n", d.ReplaceField, d.ReplaceWith, gen, d.ReplaceWith)
			if d.ReplaceTag != "" {
				fmt.Fprintf(b, "\t\t\t\tif string(xf.Tag) != %q {\n\t\t\t\t\tt.Errorf(\"VT-FAIL %s.%%s has tag %%q, want the replacement tag\", name, xf.Tag)\n\t\t\t\t}\n", d.ReplaceTag, gen)
			} else {
				// a replace tag that names a type only leaves the origin's struct tag in place
				fmt.Fprintf(b, "\t\t\t\tif xf.Tag != of.Tag {\n\t\t\t\t\tt.Errorf(\"VT-FAIL %s.%%s (type replaced, no tag given) has tag %%q, origin has %%q\", name, xf.Tag, of.Tag)\n\t\t\t\t}\n", gen)
			}
			b.WriteString("\t\t\t\tcontinue\n\t\t\t}\n")
		}
		fmt.Fprintf(b, "\t\t\tif xf.Type != of.Type {\n\t\t\t\tt.Errorf(\"VT-FAIL %s.%%s has type %%v, origin has %%v\", name, xf.Type, of.Type)\n\t\t\t}\n", gen)
		fmt.Fprintf(b, "\t\t\tif xf.Tag != of.Tag {\n\t\t\t\tt.Errorf(\"VT-FAIL %s.%%s has tag %%q, origin has %%q\", name, xf.Tag, of.Tag)\n\t\t\t}\n\t\t}\n", gen)
		// copies
		fmt.Fprintf(b, "\t\tif (*%s)(nil).DeepCopyAs() != nil {\n\t\t\tt.Errorf(\"VT-FAIL DeepCopyAs of a nil *%s is not nil\")\n\t\t}\n", gen, gen)
		fmt.Fprintf(b, "\t\tfor mode := 0; mode < 3; mode++ {\n\t\temptyMode, nilElems = mode == 1, mode == 2\n\t\tsrc := &%s{}\n\t\tfill(reflect.ValueOf(src).Elem())\n\t\tout := src.DeepCopyAs()\n", gen)
		fmt.Fprintf(b, "\t\tif out == nil {\n\t\t\tt.Fatalf(\"VT-FAIL DeepCopyAs of a filled %s is nil\")\n\t\t}\n", gen)
		b.WriteString("\t\tsv, ov := reflect.ValueOf(src).Elem(), reflect.ValueOf(out).Elem()\n")
		b.WriteString("\t\tfor i := 0; i < ot.NumField(); i++ {\n\t\t\tname := ot.Field(i).Name\n\t\t\tretained := false\n\t\t\tfor _, w := range want {\n\t\t\t\tif w == name {\n\t\t\t\t\tretained = true\n\t\t\t\t}\n\t\t\t}\n")
		fmt.Fprintf(b, "\t\t\tif !retained {\n\t\t\t\tif !ov.Field(i).IsZero() {\n\t\t\t\t\tt.Errorf(\"VT-FAIL omitted field %%s of the copy of %s is not zero: %%#v\", name, ov.Field(i).Interface())\n\t\t\t\t}\n\t\t\t\tcontinue\n\t\t\t}\n", gen)
		if d.ReplaceField != "" {
			// the replaced field is itself a partial struct: its part of the copy is what its own DeepCopyAs gives
			fmt.Fprintf(b, "\t\t\tif name == %q {\n\t\t\t\tif wantPart := (&src.%s).DeepCopyAs(); !reflect.DeepEqual(out.%s, *wantPart) {\n\t\t\t\t\tt.Errorf(\"VT-FAIL replaced field %%s of the copy of %s is %%#v, want %%#v\", name, out.%s, *wantPart)\n\t\t\t\t}\n\t\t\t\tcontinue\n\t\t\t}\n", d.ReplaceField, d.ReplaceField, d.ReplaceField, gen, d.ReplaceField)
		}
		fmt.Fprintf(b, "\t\t\tif !reflect.DeepEqual(sv.FieldByName(name).Interface(), ov.Field(i).Interface()) {\n\t\t\t\tt.Errorf(\"VT-FAIL retained field %%s of the copy of %s is %%#v, source has %%#v\", name, ov.Field(i).Interface(), sv.FieldByName(name).Interface())\n\t\t\t}\n\t\t}\n", gen)
		b.WriteString("\t\t}\n\t\temptyMode, nilElems = false, false\n")
		b.WriteString("\t}\n")
	}
	b.WriteString("}\n")
	return b.String()
}

func oracleC18(c c18Case) error {
	m := modspec.Mod{Path: "m", Go: "1.21", Pkgs: []modspec.Pkg{
		{Dir: "third", Name: "third", Other: []modspec.File{{Name: "third.go", Data: thirdSource}}},
		{Dir: "fourth", Name: "fourth", Other: []modspec.File{{Name: "fourth.go", Data: fourthSource}}},
		{Dir: "origin", Name: "origin", Other: []modspec.File{{Name: "origin.go", Data: c.originSource()}}},
		{Dir: "decl", Name: "decl", Other: []modspec.File{{Name: "decl.go", Data: c.declSource()}, {Name: "partial_test.go", Data: c.testSource()}}},
	}}
	if c.WithDeepCopy {
		m.Pkgs[3].Other = append(m.Pkgs[3].Other, modspec.File{Name: "holder.go",
			Data: "package decl\n\nimport \"m/third\"\n\n// +gengo:deepcopy\ntype Holder struct {\n\tC third.Cloner\n\tP *third.Cloner\n\tN int\n}\n"})
	}
	dir := tempModule(&m)
	defer os.RemoveAll(dir)
	describe := func() string {
		gen, _ := os.ReadFile(filepath.Join(dir, "decl", "zz_generated.partialstruct.go"))
		build := exec.Command("go", "build", "./...")
		build.Dir = dir
		bo, _ := build.CombinedOutput()
		return fmt.Sprintf("--- origin ---\n%s\n--- decl ---\n%s\n--- generated ---\n%s\n--- go build ./... ---\n%s", clip(c.originSource(), 2500), clip(c.declSource(), 1500), clip(string(gen), 3500), clip(string(bo), 1500))
	}
	gens := []string{"partialstruct"}
	if c.WithDeepCopy {
		gens = []string{"deepcopy", "partialstruct"}
	}
	if c.Rerun {
		earlier := c
		earlier.Decls = append([]psDecl{}, c.Decls...)
		for i := range earlier.Decls {
			d := earlier.Decls[i]
			o := c.origin(d.Origin)
			for _, f := range o.Fields {
				taken := f.Name == d.ReplaceField
				for _, om := range d.Omit {
					taken = taken || om == f.Name
				}
				if !taken {
					d.Omit = append(append([]string{}, d.Omit...), f.Name)
					break
				}
			}
			earlier.Decls[i] = d
		}
		declFile := filepath.Join(dir, "decl", "decl.go")
		if err := os.WriteFile(declFile, []byte(earlier.declSource()), 0o644); err != nil {
			panic("harness: " + err.Error())
		}
		if res := mustRun(dir, []string{"./decl"}, gens, nil); res.Panic != "" || res.Failed {
			return fmt.Errorf("the run over the earlier edition of the declarations fails: %s %s\n%s", clip(res.Panic, 400), clip(res.Err, 600), describe())
		}
		if err := os.WriteFile(declFile, []byte(c.declSource()), 0o644); err != nil {
			panic("harness: " + err.Error())
		}
	}
	res := mustRun(dir, []string{"./decl"}, gens, nil)
	if res.Panic != "" {
		return fmt.Errorf("the partialstruct generator panics: %s\n%s", clip(res.Panic, 600), describe())
	}
	if res.Failed {
		return fmt.Errorf("Execute with the partialstruct generator fails: %s\n%s", clip(res.Err, 1000), describe())
	}
	failed, _ := goTest(dir)
	if out, ok := failed["m/decl"]; ok {
		return fmt.Errorf("the generated partial structs do not compile or do not mirror their origins:\n%s\n%s", clip(out, 2500), describe())
	}
	if len(failed) > 0 {
		for k, v := range failed {
			panic("harness: package " + k + " fails: " + v)
		}
	}
	return nil
}

// negative cases: not a struct / not defined from another named type
type c18Neg struct {
	Decl string `json:"decl"` // the declaration text after the tag line
	// Via: how the generator is enabled for the declaration: "" (bare tag on the declaration) | sub (only a gengo:partialstruct:omit= tag
	// on the declaration) | pkg (tag in the package doc) | global (Globals of the run)
	Via string `json:"via,omitempty"`
}

var c18Negatives = []string{
	"type x int", "type x []string", "type x map[string]int", "type x struct{ A int }", "type x struct{}", "type x func()", "type x *origin.O", "type x []origin.O",
	"type x interface{ M() }", "type x origin.K", "type x = origin.O",
	// struct literals that mention named types: still not "defined from another named type"
	"type x struct{ Meta origin.O }", "type x struct {\n\tA int\n\tB struct{ M origin.O }\n}", "type x struct{ K origin.K; O *origin.O }", "type x [2]origin.O", "type x map[origin.K]origin.O",
}

func oracleC18Neg(c c18Neg) error {
	m := modspec.Mod{Path: "m", Go: "1.21", Pkgs: []modspec.Pkg{
		{Dir: "origin", Name: "origin", Other: []modspec.File{{Name: "origin.go", Data: "package origin\n\ntype O struct{ A int }\n\ntype K int\n"}}},
		{Dir: "decl", Name: "decl", Other: []modspec.File{{Name: "decl.go", Data: map[string]string{
			"":       "package decl\n\nimport \"m/origin\"\n\nvar _ origin.O\n\n// +gengo:partialstruct\n",
			"sub":    "package decl\n\nimport \"m/origin\"\n\nvar _ origin.O\n\n// +gengo:partialstruct:omit=A\n",
			"pkg":    "// +gengo:partialstruct\npackage decl\n\nimport \"m/origin\"\n\nvar _ origin.O\n\n// x is what the package tag enables\n",
			"global": "package decl\n\nimport \"m/origin\"\n\nvar _ origin.O\n\n// x is what the global tag enables\n",
		}[c.Via] + c.Decl + "\n"}}},
	}}
	dir := tempModule(&m)
	defer os.RemoveAll(dir)
	var globals map[string][]string
	if c.Via == "global" {
		globals = map[string][]string{"gengo:partialstruct": {""}}
	}
	res := mustRun(dir, []string{"./decl"}, []string{"partialstruct"}, globals)
	if res.Panic != "" {
		return fmt.Errorf("`%s`: the generator panics instead of reporting an error: %s", c.Decl, clip(res.Panic, 400))
	}
	_, statErr := os.Stat(filepath.Join(dir, "decl", "zz_generated.partialstruct.go"))
	if strings.Contains(c.Decl, " = ") {
		// an alias is not handed to GenerateType at all: nothing may be generated, an error is not required
		if statErr == nil {
			return fmt.Errorf("`%s`: code was generated for an alias declaration", c.Decl)
		}
		return nil
	}
	if !res.Failed {
		return fmt.Errorf("`%s` is not a struct defined from another named type, yet Execute returned nil", c.Decl)
	}
	if statErr == nil {
		return fmt.Errorf("`%s`: Execute reported %q but still wrote zz_generated.partialstruct.go", c.Decl, res.Err)
	}
	return nil
}

func c18Features(c c18Case) []string {
	fs := map[string]bool{}
	for _, d := range c.Decls {
		if len(d.Omit) > 0 {
			fs["omit"] = true
		}
		if d.ReplaceField != "" {
			fs["replace"] = true
			if d.ReplaceTag != "" {
				fs["replace-with-tag"] = true
			}
		}
	}
	for _, o := range c.Origins {
		for _, f := range o.Fields {
			if strings.Contains(f.Type, "third.") {
				fs["foreign-typed-field"] = true
			}
			if strings.Contains(f.Type, "Flag") {
				fs["container-of-defined-uint8"] = true
			}
			if strings.ContainsAny(f.Tag, ".:") && f.Tag != "" {
				fs["tag-with-dot-or-colon"] = true
			}
			if strings.Contains(f.Tag, ".") {
				fs["tag-with-dot"] = true
			}
			if f.Type == "error" || f.Type == "any" || f.Type == "third.Iface" {
				fs["interface-field"] = true
			}
			if strings.HasPrefix(f.Type, "*") {
				fs["pointer-field"] = true
			}
		}
	}
	if c.Grouped {
		fs["grouped-declaration"] = true
	}
	if c.DotImport {
		fs["dot-imported-origin"] = true
	}
	if c.WithDeepCopy {
		fs["deepcopy-generator-in-the-same-run"] = true
	}
	if c.Rerun {
		fs["rerun-after-editing-the-declarations"] = true
	}
	out := make([]string, 0, len(fs))
	for k := range fs {
		out = append(out, k)
	}
	sort.Strings(out)
	return out
}

func c18NonTrivial(c c18Case) bool {
	fs := map[string]bool{}
	for _, f := range c18Features(c) {
		fs[f] = true
	}
	return fs["omit"] && (fs["foreign-typed-field"] || fs["tag-with-dot-or-colon"])
}

func TestC18(t *testing.T) {
	r := ev.Begin(t, ev.Meta{
		ID:    "C18",
		Level: "exploration",
		Rule: "modules with a package origin of 1-4 structs (1-7 exported fields of scalar, slice, map, array, pointer, foreign named (third package: string kind, struct, " +
			"interface), error, any, earlier-origin-struct types; backquote-free tags with dots, colons, brackets, blanks, @, %, $, apostrophes, Unicode; field docs) and a " +
			"declaring package with one `type xN origin.ON` per origin (ungrouped, one time in five grouped) carrying gengo:partialstruct, 0-3 omit tags and optionally a " +
			"replace tag naming another generated partial struct (with/without a new tag); the real generator runs, `go test` compiles the result with a harness-written " +
			"test: reflect over XN vs origin.ON (fields = origin minus omitted, order, reflect type identity, tag), DeepCopyAs of nil is nil, DeepCopyAs of a reflect-filled " +
			"source equals it on every retained field and is zero on every omitted one. negative sub: 11 declarations that are not structs defined from a named type must " +
			"make Execute fail without writing a file. non-trivial = an omitted field and (foreign-typed field | tag with dot/colon); distinct by JSON encoding",
		Assumptions: []string{"embedded origin fields, same-package field types of the declaring package and tags containing a backquote are outside the stated domain",
			"samepackage sub: an origin declared in the declaring package itself (type view0 User0) with builtin field types; unexported fields are mirrored there (observed and relied on by callers); their values cannot be set by the test, only their presence, type and tag are asserted"},
	})
	defer r.Finish()
	genRec = r
	ev.Search(r, ev.Sub[c18Case]{
		Name: "modules", Gen: genC18, Oracle: oracleC18, NonTrivial: c18NonTrivial, Classes: c18Features,
		Budget: ev.Budget{Quick: 25, Thorough: 300}, MinNonTrivial: 0.2, ShrinkTime: 90 * time.Second,
	})
	ev.Search(r, ev.Sub[c18Same]{
		Name: "samepackage", Gen: genC18Same, Oracle: oracleC18Same,
		NonTrivial: func(c c18Same) bool {
			for _, f := range c.Fields {
				if f.Name[0] == 'f' {
					return true
				}
			}
			return len(c.Omit) > 0
		},
		Budget: ev.Budget{Quick: 12, Thorough: 120}, MinNonTrivial: 0.2, ShrinkTime: 60 * time.Second,
	})
	if r.Shard == 0 || r.Replaying() {
		ev.Enumerate(r, "negative", func(yield func(c18Neg) bool) {
			for _, via := range []string{"", "sub", "pkg", "global"} {
				for _, d := range c18Negatives {
					if !yield(c18Neg{Decl: d, Via: via}) {
						return
					}
				}
			}
		}, oracleC18Neg, nil, nil)
	}
	_ = json.Marshal
}

// ---- origins declared in the declaring package itself (`type view0 User0`): unexported fields are mirrored too ----

type c18Same struct {
	Fields []psField `json:"fields"` // names F<n> (exported) or f<n> (unexported), builtin types
	Omit   []string  `json:"omit,omitempty"`
}

var psBuiltinTypes = []string{"int", "string", "bool", "[]string", "map[string]int", "*int", "[]byte", "float64", "[2]int", "error", "any"}

func genC18Same(t *rapid.T) c18Same {
	var c c18Same
	n := rapid.IntRange(1, 6).Draw(t, "nfields")
	for i := 0; i < n; i++ {
		name := fmt.Sprintf("F%d", i)
		if rapid.IntRange(0, 2).Draw(t, "unexported") == 0 {
			name = fmt.Sprintf("f%d", i)
		}
		f := psField{Name: name, Type: rapid.SampledFrom(psBuiltinTypes).Draw(t, "ftype"), Tag: rapid.SampledFrom(psTags).Draw(t, "tag")}
		c.Fields = append(c.Fields, f)
		if rapid.IntRange(0, 3).Draw(t, "omit") == 0 && len(c.Omit) < 3 {
			c.Omit = append(c.Omit, name)
		}
	}
	return c
}

func oracleC18Same(c c18Same) error {
	src := &strings.Builder{}
	src.WriteString("package decl\n\ntype User0 struct {\n")
	for _, f := range c.Fields {
		if f.Tag != "" {
			fmt.Fprintf(src, "\t%s %s `%s`\n", f.Name, f.Type, f.Tag)
		} else {
			fmt.Fprintf(src, "\t%s %s\n", f.Name, f.Type)
		}
	}
	src.WriteString("}\n\n// +gengo:partialstruct\n")
	omitted := map[string]bool{}
	for _, o := range c.Omit {
		fmt.Fprintf(src, "// +gengo:partialstruct:omit=%s\n", o)
		omitted[o] = true
	}
	src.WriteString("type view0 User0\n")
	var want []string
	for _, f := range c.Fields {
		if !omitted[f.Name] {
			want = append(want, f.Name)
		}
	}
	ts := &strings.Builder{}
	ts.WriteString("package decl\n\nimport (\n\t\"fmt\"\n\t\"reflect\"\n\t\"testing\"\n)\n\nvar _ = fmt.Sprint\n")
	helpers := psTestHelpers
	helpers = strings.Replace(helpers, "\t\tcase v.Type() == reflect.TypeOf((*third.Iface)(nil)).Elem():\n\t\t\tv.Set(reflect.ValueOf(third.Impl{N: counter}))\n", "", 1)
	if strings.Contains(helpers, "third.") {
		panic("harness: the test helpers still mention package third")
	}
	ts.WriteString(helpers)
	ts.WriteString("\nfunc TestSamePackage(t *testing.T) {\n")
	ts.WriteString("\txt, ot := reflect.TypeOf(View0{}), reflect.TypeOf(User0{})\n")
	fmt.Fprintf(ts, "\twant := %#v\n", want)
	ts.WriteString("\tif xt.NumField() != len(want) {\n\t\tvar got []string\n\t\tfor i := 0; i < xt.NumField(); i++ {\n\t\t\tgot = append(got, xt.Field(i).Name)\n\t\t}\n\t\tt.Fatalf(\"VT-FAIL View0 has the fields %v, want %v (the origin's fields that are not omitted, unexported ones included)\", got, want)\n\t}\n")
	ts.WriteString("\tfor i, name := range want {\n\t\txf := xt.Field(i)\n\t\tof, _ := ot.FieldByName(name)\n\t\tif xf.Name != name || xf.Type != of.Type || xf.Tag != of.Tag {\n\t\t\tt.Errorf(\"VT-FAIL View0 field %d is %s %v %q, origin has %s %v %q\", i, xf.Name, xf.Type, xf.Tag, name, of.Type, of.Tag)\n\t\t}\n\t}\n")
	ts.WriteString("\tif (*View0)(nil).DeepCopyAs() != nil {\n\t\tt.Errorf(\"VT-FAIL DeepCopyAs of a nil *View0 is not nil\")\n\t}\n")
	ts.WriteString("\tsrc := &View0{}\n\tfill(reflect.ValueOf(src).Elem())\n\tout := src.DeepCopyAs()\n\tif out == nil {\n\t\tt.Fatalf(\"VT-FAIL DeepCopyAs of a filled View0 is nil\")\n\t}\n")
	ts.WriteString("\tsv, ov := reflect.ValueOf(src).Elem(), reflect.ValueOf(out).Elem()\n\tfor i := 0; i < ot.NumField(); i++ {\n\t\tname := ot.Field(i).Name\n\t\tif !ot.Field(i).IsExported() {\n\t\t\tcontinue\n\t\t}\n\t\tretained := false\n\t\tfor _, w := range want {\n\t\t\tretained = retained || w == name\n\t\t}\n")
	ts.WriteString("\t\tif !retained {\n\t\t\tif !ov.Field(i).IsZero() {\n\t\t\t\tt.Errorf(\"VT-FAIL omitted field %s of the copy is not zero\", name)\n\t\t\t}\n\t\t\tcontinue\n\t\t}\n\t\tif !reflect.DeepEqual(sv.FieldByName(name).Interface(), ov.Field(i).Interface()) {\n\t\t\tt.Errorf(\"VT-FAIL retained field %s of the copy is %#v, source has %#v\", name, ov.Field(i).Interface(), sv.FieldByName(name).Interface())\n\t\t}\n\t}\n}\n")
	m := modspec.Mod{Path: "m", Go: "1.21", Pkgs: []modspec.Pkg{
		{Dir: "decl", Name: "decl", Other: []modspec.File{{Name: "decl.go", Data: src.String()}, {Name: "same_test.go", Data: ts.String()}}},
	}}
	dir := tempModule(&m)
	defer os.RemoveAll(dir)
	describe := func() string {
		gen, _ := os.ReadFile(filepath.Join(dir, "decl", "zz_generated.partialstruct.go"))
		return fmt.Sprintf("--- decl ---\n%s\n--- generated ---\n%s", clip(src.String(), 1500), clip(string(gen), 3000))
	}
	res := mustRun(dir, []string{"./decl"}, []string{"partialstruct"}, nil)
	if res.Panic != "" {
		return fmt.Errorf("the partialstruct generator panics: %s\n%s", clip(res.Panic, 600), describe())
	}
	if res.Failed {
		return fmt.Errorf("Execute with the partialstruct generator fails: %s\n%s", clip(res.Err, 1000), describe())
	}
	failed, _ := goTest(dir)
	if out, ok := failed["m/decl"]; ok {
		return fmt.Errorf("the partial struct of an origin of the same package does not compile or does not mirror it:\n%s\n%s", clip(out, 2500), describe())
	}
	return nil
}
