package gen

import (
	"bytes"
	"fmt"
	"os"
	"os/exec"
	"path/filepath"
	"regexp"
	"strings"
	"testing"

	"vt/internal/ev"
	"vt/internal/modspec"
	"vt/internal/script"
)

// genRec lets oracles account for the packages of a batch individually.
var genRec *ev.Recorder

func TestMain(m *testing.M) {
	script.InitEnv()
	script.ChildMain()
	os.Exit(m.Run())
}

func tempModule(m *modspec.Mod) string {
	dir, err := os.MkdirTemp("", "vtgen")
	if err != nil {
		panic("harness: " + err.Error())
	}
	if real, err := filepath.EvalSymlinks(dir); err == nil {
		dir = real
	}
	if err := m.Write(dir); err != nil {
		os.RemoveAll(dir)
		panic("harness: " + err.Error())
	}
	return dir
}

var failLine = regexp.MustCompile(`(?m)^(FAIL|ok)\s+(\S+)`)

// goTest runs `go test ./...` in dir and returns the output of every failing package (build failures included), keyed by import path.
func goTest(dir string) (failed map[string]string, all string) {
	cmd := exec.Command("go", "test", "-count=1", "-vet=off", "./...")
	cmd.Dir = dir
	var out bytes.Buffer
	cmd.Stdout = &out
	cmd.Stderr = &out
	err := cmd.Run()
	all = out.String()
	failed = map[string]string{}
	if err == nil {
		return failed, all
	}
	if strings.Contains(all, "toolchain not available") || strings.Contains(all, "cannot find GOROOT") || strings.Contains(all, "go: cannot find main module") {
		panic("harness: go test could not run: " + all)
	}
	// compiler errors come in "# <pkg> [<pkg>.test]" sections, test failures end in a "FAIL <pkg>" line
	build := map[string]string{}
	var cur strings.Builder
	curBuild := ""
	for _, line := range strings.SplitAfter(all, "\n") {
		if strings.HasPrefix(line, "# ") {
			fs := strings.Fields(line)
			if len(fs) >= 2 {
				curBuild = fs[1]
			}
			continue
		}
		if m := failLine.FindStringSubmatch(line); m != nil {
			if m[1] == "FAIL" {
				pkg := m[2]
				failed[pkg] += build[pkg] + cur.String() + line
			}
			cur.Reset()
			curBuild = ""
			continue
		}
		if curBuild != "" {
			build[curBuild] += line
			continue
		}
		cur.WriteString(line)
	}
	if len(failed) == 0 {
		failed["?"] = all
	}
	return failed, all
}

func clip(s string, n int) string {
	if len(s) > n {
		return s[:n] + "\n...(clipped)"
	}
	return s
}

func mustRun(dir string, entries []string, real []string, globals map[string][]string) script.RunResult {
	res := script.Run(script.RunSpec{Dir: dir, Entrypoints: entries, Globals: globals, Base: "zz_generated", Real: real})
	if res.LoadErr != "" {
		panic(fmt.Sprintf("harness: synthetic module does not load: %s", res.LoadErr))
	}
	return res
}
