package lit

import (
	"fmt"
	"go/ast"
	goscanner "go/scanner"
	"go/token"
	"go/types"
	htmltemplate "html/template"
	"os"
	"path/filepath"
	"reflect"
	"strings"
	"sync"
	"testing"
	textscanner "text/scanner"
	texttemplate "text/template"
	"time"

	"golang.org/x/tools/go/packages"
	"pgregory.net/rapid"

	"vt/internal/ev"
	"vt/internal/fx/alpha"
	betav1 "vt/internal/fx/beta/v1"
	"vt/internal/fx/delta"
	gammav1 "vt/internal/fx/gamma/v1"
	lcodec "vt/internal/fx/left/codec"
	mvmodel "vt/internal/fx/multivendor/model"
	kit1 "vt/internal/fx/one/go-kit"
	rcodec "vt/internal/fx/right/codec"
	kit2 "vt/internal/fx/two/go-kit"
	yamlv3 "vt/internal/fx/yaml.v3"
	"vt/internal/script"
)

func TestMain(m *testing.M) {
	script.InitEnv()
	os.Exit(m.Run())
}

var fxPaths = map[string]string{
	"alpha": "vt/internal/fx/alpha",
	"beta":  "vt/internal/fx/beta/v1",
	"gamma": "vt/internal/fx/gamma/v1",
	"delta": "vt/internal/fx/delta",
	"left":  "vt/internal/fx/left/codec",
	"right": "vt/internal/fx/right/codec",
	"mv":    "vt/internal/fx/multivendor/model",
	"yaml":  "vt/internal/fx/yaml.v3",
	// pairs of standard-library packages with the same last path element (loaded through fixture stdmix); type expressions only
	"ttpl":  "text/template",
	"htpl":  "html/template",
	"tscan": "text/scanner",
	"gscan": "go/scanner",
	"time":  "time",
	// twin packages whose directory name is not an identifier and normalises to the same import name
	"kit1": "vt/internal/fx/one/go-kit",
	"kit2": "vt/internal/fx/two/go-kit",
}

// fxStd: fixture keys that are standard-library packages (never a target package, never a source of values)
var fxStd = map[string]bool{"ttpl": true, "htpl": true, "tscan": true, "gscan": true, "time": true}

// fxRep: one type per fixture package (for blank declarations that keep harness-side imports used)
var fxRep = map[string]string{"alpha": "Int", "beta": "Kind", "gamma": "Level", "delta": "Mixed", "left": "Opt", "right": "Opt", "mv": "Item",
	"yaml": "Node", "ttpl": "Template", "htpl": "Template", "tscan": "Position", "gscan": "ErrorList", "time": "Duration", "kit1": "Opt", "kit2": "Opt"}

// fxImportedBy: the fixture packages that (transitively) import the key; a type that mentions one of them cannot be written
// inside the key package (import cycle)
var fxImportedBy = map[string][]string{
	"alpha": {"beta", "delta"},
	"beta":  {"delta"},
	"gamma": {"delta"},
	"left":  {"delta"},
	"right": {"delta"},
}

// ownTargetPossible: can a type that mentions the given fixture packages be written inside package own?
func ownTargetPossible(own string, mentioned func(pkg string) bool) bool {
	for _, importer := range fxImportedBy[own] {
		if mentioned(importer) {
			return false
		}
	}
	return true
}

// harness-side import aliases used to spell types in probe files
var fxAlias = map[string]string{"alpha": "hx_alpha", "beta": "hx_beta", "gamma": "hx_gamma", "delta": "hx_delta", "left": "hx_left", "right": "hx_right", "mv": "hx_mv",
	"yaml": "hx_yaml", "ttpl": "hx_ttpl", "htpl": "hx_htpl", "tscan": "hx_tscan", "gscan": "hx_gscan", "time": "hx_time", "kit1": "hx_kit1", "kit2": "hx_kit2"}

type fixtures struct {
	fset  *token.FileSet
	pkgs  map[string]*types.Package // by import path
	files map[string][]*ast.File    // syntax of the fixture packages
}

var (
	fxOnce sync.Once
	fx     *fixtures
	fxErr  error
)

func loadFixtures() *fixtures {
	fxOnce.Do(func() {
		root := ev.Root()
		cfg := &packages.Config{
			Mode: packages.NeedName | packages.NeedFiles | packages.NeedCompiledGoFiles | packages.NeedImports | packages.NeedTypes | packages.NeedTypesSizes |
				packages.NeedSyntax | packages.NeedTypesInfo | packages.NeedDeps | packages.NeedModule,
			Dir:  filepath.Join(root, "harness"),
			Fset: token.NewFileSet(),
			Env:  append(os.Environ(), "GOFLAGS=-mod=mod"),
		}
		ps, err := packages.Load(cfg, "vt/internal/fx/...")
		if err != nil {
			fxErr = err
			return
		}
		f := &fixtures{fset: cfg.Fset, pkgs: map[string]*types.Package{}, files: map[string][]*ast.File{}}
		var visit func(p *packages.Package)
		visit = func(p *packages.Package) {
			if _, ok := f.pkgs[p.PkgPath]; ok {
				return
			}
			if len(p.Errors) > 0 {
				fxErr = fmt.Errorf("fixture %s: %v", p.PkgPath, p.Errors)
			}
			f.pkgs[p.PkgPath] = p.Types
			f.files[p.PkgPath] = p.Syntax
			for _, ip := range p.Imports {
				visit(ip)
			}
		}
		for _, p := range ps {
			visit(p)
		}
		for _, path := range fxPaths {
			if f.pkgs[path] == nil {
				fxErr = fmt.Errorf("fixture package %s not loaded", path)
			}
		}
		fx = f
	})
	if fxErr != nil {
		panic("harness: cannot load fixtures: " + fxErr.Error())
	}
	return fx
}

type mapImporter map[string]*types.Package

func (m mapImporter) Import(path string) (*types.Package, error) {
	if p, ok := m[path]; ok && p != nil {
		return p, nil
	}
	return nil, fmt.Errorf("package %q is not a fixture", path)
}

// ---- type expressions ----

type tf struct {
	Name string `json:"name"`
	T    *tn    `json:"t"`
	Tag  string `json:"tag,omitempty"`
	Emb  bool   `json:"emb,omitempty"`
}

// tn is a closed type expression.
//
// K: basic | error | any | named | inst | ptr | slice | array | map | chan | struct
type tn struct {
	K      string `json:"k"`
	Name   string `json:"name,omitempty"`
	Pkg    string `json:"pkg,omitempty"` // alpha | beta | gamma
	Args   []*tn  `json:"args,omitempty"`
	Elem   *tn    `json:"elem,omitempty"`
	Key    *tn    `json:"key,omitempty"`
	Len    int    `json:"len,omitempty"`
	Fields []tf   `json:"fields,omitempty"`
}

// spell prints the type with the given qualifier for fixture packages (harness's own printer).
func (n *tn) spell(qual func(pkg string) string) string {
	switch n.K {
	case "basic", "error", "any":
		return n.Name
	case "named":
		return qual(n.Pkg) + n.Name
	case "inst":
		args := make([]string, len(n.Args))
		for i, a := range n.Args {
			args[i] = a.spell(qual)
		}
		return qual(n.Pkg) + n.Name + "[" + strings.Join(args, ", ") + "]"
	case "ptr":
		return "*" + n.Elem.spell(qual)
	case "slice":
		return "[]" + n.Elem.spell(qual)
	case "array":
		return fmt.Sprintf("[%d]%s", n.Len, n.Elem.spell(qual))
	case "map":
		return "map[" + n.Key.spell(qual) + "]" + n.Elem.spell(qual)
	case "chan":
		return "chan " + n.Elem.spell(qual)
	case "struct":
		var b strings.Builder
		b.WriteString("struct {")
		for i, f := range n.Fields {
			if i > 0 {
				b.WriteString("; ")
			} else {
				b.WriteString(" ")
			}
			if !f.Emb {
				b.WriteString(f.Name + " ")
			}
			b.WriteString(f.T.spell(qual))
			if f.Tag != "" {
				b.WriteString(" " + "`" + f.Tag + "`")
			}
		}
		if len(n.Fields) > 0 {
			b.WriteString(" ")
		}
		b.WriteString("}")
		return b.String()
	}
	panic("harness: unknown type node " + n.K)
}

func fullQual(pkg string) string  { return fxPaths[pkg] + "." }
func aliasQual(pkg string) string { return fxAlias[pkg] + "." }

func (n *tn) key() string { return n.spell(fullQual) }

func (n *tn) walk(f func(*tn, int), d int) {
	f(n, d)
	for _, a := range n.Args {
		a.walk(f, d+1)
	}
	if n.Elem != nil {
		n.Elem.walk(f, d+1)
	}
	if n.Key != nil {
		n.Key.walk(f, d+1)
	}
	for _, fl := range n.Fields {
		fl.T.walk(f, d+1)
	}
}

// toTypes builds the go/types type over the loaded fixtures.
func (n *tn) toTypes() types.Type {
	f := loadFixtures()
	switch n.K {
	case "basic", "error", "any":
		return types.Universe.Lookup(n.Name).Type()
	case "named":
		o := f.pkgs[fxPaths[n.Pkg]].Scope().Lookup(n.Name)
		if o == nil {
			panic("harness: no fixture type " + n.Pkg + "." + n.Name)
		}
		return o.Type()
	case "inst":
		o := f.pkgs[fxPaths[n.Pkg]].Scope().Lookup(n.Name)
		if o == nil {
			panic("harness: no fixture type " + n.Pkg + "." + n.Name)
		}
		args := make([]types.Type, len(n.Args))
		for i, a := range n.Args {
			args[i] = a.toTypes()
		}
		t, err := types.Instantiate(nil, o.Type(), args, true)
		if err != nil {
			panic("harness: cannot instantiate " + n.key() + ": " + err.Error())
		}
		return t
	case "ptr":
		return types.NewPointer(n.Elem.toTypes())
	case "slice":
		return types.NewSlice(n.Elem.toTypes())
	case "array":
		return types.NewArray(n.Elem.toTypes(), int64(n.Len))
	case "map":
		return types.NewMap(n.Key.toTypes(), n.Elem.toTypes())
	case "chan":
		return types.NewChan(types.SendRecv, n.Elem.toTypes())
	case "struct":
		vars := make([]*types.Var, len(n.Fields))
		tags := make([]string, len(n.Fields))
		for i, fl := range n.Fields {
			vars[i] = types.NewField(token.NoPos, nil, fl.Name, fl.T.toTypes(), fl.Emb)
			tags[i] = fl.Tag
		}
		return types.NewStruct(vars, tags)
	}
	panic("harness: unknown type node " + n.K)
}

var basicReflect = map[string]reflect.Type{
	"bool": reflect.TypeOf(false), "int": reflect.TypeOf(int(0)), "int8": reflect.TypeOf(int8(0)), "int16": reflect.TypeOf(int16(0)), "int32": reflect.TypeOf(int32(0)),
	"int64": reflect.TypeOf(int64(0)), "uint": reflect.TypeOf(uint(0)), "uint8": reflect.TypeOf(uint8(0)), "uint16": reflect.TypeOf(uint16(0)), "uint32": reflect.TypeOf(uint32(0)),
	"uint64": reflect.TypeOf(uint64(0)), "uintptr": reflect.TypeOf(uintptr(0)), "float32": reflect.TypeOf(float32(0)), "float64": reflect.TypeOf(float64(0)),
	"string": reflect.TypeOf(""), "byte": reflect.TypeOf(byte(0)), "rune": reflect.TypeOf(rune(0)),
	"error": reflect.TypeOf((*error)(nil)).Elem(), "any": reflect.TypeOf((*any)(nil)).Elem(),
}

func nm(pkg, name string) *tn { return &tn{K: "named", Pkg: pkg, Name: name} }
func bs(name string) *tn      { return &tn{K: "basic", Name: name} }
func inst(pkg, name string, args ...*tn) *tn {
	return &tn{K: "inst", Pkg: pkg, Name: name, Args: args}
}

type regEntry struct {
	n  *tn
	rt reflect.Type
}

func rtOf[T any]() reflect.Type { return reflect.TypeOf((*T)(nil)).Elem() }

// the named fixture types and the pre-instantiated generics known to both worlds
var registry = func() []regEntry {
	r := []regEntry{
		{nm("alpha", "Bool"), rtOf[alpha.Bool]()}, {nm("alpha", "Int"), rtOf[alpha.Int]()}, {nm("alpha", "Int8"), rtOf[alpha.Int8]()}, {nm("alpha", "Int16"), rtOf[alpha.Int16]()},
		{nm("alpha", "Int32"), rtOf[alpha.Int32]()}, {nm("alpha", "Int64"), rtOf[alpha.Int64]()}, {nm("alpha", "Uint"), rtOf[alpha.Uint]()}, {nm("alpha", "Uint8"), rtOf[alpha.Uint8]()},
		{nm("alpha", "Uint16"), rtOf[alpha.Uint16]()}, {nm("alpha", "Uint32"), rtOf[alpha.Uint32]()}, {nm("alpha", "Uint64"), rtOf[alpha.Uint64]()}, {nm("alpha", "Uintptr"), rtOf[alpha.Uintptr]()},
		{nm("alpha", "Float32"), rtOf[alpha.Float32]()}, {nm("alpha", "Float64"), rtOf[alpha.Float64]()}, {nm("alpha", "String"), rtOf[alpha.String]()}, {nm("alpha", "Rune"), rtOf[alpha.Rune]()},
		{nm("alpha", "Byte"), rtOf[alpha.Byte]()}, {nm("alpha", "Strings"), rtOf[alpha.Strings]()}, {nm("alpha", "IntMap"), rtOf[alpha.IntMap]()}, {nm("alpha", "Arr"), rtOf[alpha.Arr]()},
		{nm("alpha", "Matrix"), rtOf[alpha.Matrix]()}, {nm("alpha", "Point"), rtOf[alpha.Point]()}, {nm("alpha", "Same"), rtOf[alpha.Same]()}, {nm("alpha", "Named"), rtOf[alpha.Named]()},
		{nm("alpha", "Embedded"), rtOf[alpha.Embedded]()}, {nm("alpha", "Wide"), rtOf[alpha.Wide]()}, {nm("alpha", "PointRef"), rtOf[alpha.PointRef]()}, {nm("alpha", "Größe"), rtOf[alpha.Größe]()},
		{nm("alpha", "Stage"), rtOf[alpha.Stage]()}, {nm("alpha", "Errno"), rtOf[alpha.Errno]()}, {nm("alpha", "Digits"), rtOf[alpha.Digits]()}, {nm("alpha", "Ratio"), rtOf[alpha.Ratio]()},
		{nm("alpha", "Flag"), rtOf[alpha.Flag]()}, {nm("alpha", "Label"), rtOf[alpha.Label]()},
		{nm("beta", "Kind"), rtOf[betav1.Kind]()}, {nm("beta", "Same"), rtOf[betav1.Same]()}, {nm("beta", "Spec"), rtOf[betav1.Spec]()},
		{nm("gamma", "Same"), rtOf[gammav1.Same]()}, {nm("gamma", "Level"), rtOf[gammav1.Level]()}, {nm("gamma", "Status"), rtOf[gammav1.Status]()},
		{nm("delta", "Mixed"), rtOf[delta.Mixed]()}, {nm("delta", "Either"), rtOf[delta.Either]()},
		{nm("left", "Opt"), rtOf[lcodec.Opt]()}, {nm("left", "Mode"), rtOf[lcodec.Mode]()}, {nm("right", "Opt"), rtOf[rcodec.Opt]()}, {nm("right", "Level"), rtOf[rcodec.Level]()},
		{nm("mv", "Item"), rtOf[mvmodel.Item]()}, {nm("mv", "Code"), rtOf[mvmodel.Code]()},
		{nm("yaml", "Node"), rtOf[yamlv3.Node]()}, {nm("yaml", "Kind"), rtOf[yamlv3.Kind]()},
		{nm("time", "Time"), rtOf[time.Time]()}, {nm("time", "Duration"), rtOf[time.Duration]()},
		{nm("kit1", "Opt"), rtOf[kit1.Opt]()}, {nm("kit2", "Opt"), rtOf[kit2.Opt]()}, {nm("kit1", "Level"), rtOf[kit1.Level]()}, {nm("kit2", "Level"), rtOf[kit2.Level]()},
		{nm("ttpl", "Template"), rtOf[texttemplate.Template]()}, {nm("htpl", "Template"), rtOf[htmltemplate.Template]()}, {nm("htpl", "HTML"), rtOf[htmltemplate.HTML]()},
		{nm("tscan", "Position"), rtOf[textscanner.Position]()}, {nm("tscan", "Scanner"), rtOf[textscanner.Scanner]()},
		{nm("gscan", "ErrorList"), rtOf[goscanner.ErrorList]()}, {nm("gscan", "Error"), rtOf[goscanner.Error]()},
		// instantiations
		{inst("alpha", "Box", nm("yaml", "Node")), rtOf[alpha.Box[yamlv3.Node]]()},
		{inst("alpha", "Box", nm("time", "Time")), rtOf[alpha.Box[time.Time]]()},
		{inst("alpha", "Pair", nm("time", "Duration"), nm("time", "Time")), rtOf[alpha.Pair[time.Duration, time.Time]]()},
		{inst("alpha", "Pair", nm("kit1", "Level"), nm("kit2", "Opt")), rtOf[alpha.Pair[kit1.Level, kit2.Opt]]()},
		{inst("alpha", "Pair", nm("yaml", "Kind"), nm("htpl", "Template")), rtOf[alpha.Pair[yamlv3.Kind, htmltemplate.Template]]()},
		{inst("alpha", "Pair", bs("string"), nm("ttpl", "Template")), rtOf[alpha.Pair[string, texttemplate.Template]]()},
		{inst("alpha", "Triple", nm("yaml", "Node"), inst("alpha", "Box", nm("yaml", "Kind")), nm("ttpl", "Template")), rtOf[alpha.Triple[yamlv3.Node, alpha.Box[yamlv3.Kind], texttemplate.Template]]()},
		{inst("beta", "List", inst("alpha", "Pair", nm("yaml", "Kind"), nm("yaml", "Node"))), rtOf[betav1.List[alpha.Pair[yamlv3.Kind, yamlv3.Node]]]()},
		{inst("alpha", "Box", bs("int")), rtOf[alpha.Box[int]]()},
		{inst("alpha", "Box", bs("string")), rtOf[alpha.Box[string]]()},
		{inst("alpha", "Box", nm("alpha", "Point")), rtOf[alpha.Box[alpha.Point]]()},
		{inst("alpha", "Box", nm("alpha", "Int")), rtOf[alpha.Box[alpha.Int]]()},
		{inst("alpha", "Box", nm("beta", "Kind")), rtOf[alpha.Box[betav1.Kind]]()},
		{inst("alpha", "Pair", bs("string"), bs("int")), rtOf[alpha.Pair[string, int]]()},
		{inst("alpha", "Pair", nm("alpha", "Größe"), bs("int")), rtOf[alpha.Pair[alpha.Größe, int]]()},
		{inst("alpha", "Triple", inst("alpha", "Box", nm("alpha", "Größe")), nm("alpha", "Größe"), nm("beta", "Kind")), rtOf[alpha.Triple[alpha.Box[alpha.Größe], alpha.Größe, betav1.Kind]]()},
		{inst("alpha", "Pair", nm("alpha", "Int"), inst("alpha", "Box", bs("int"))), rtOf[alpha.Pair[alpha.Int, alpha.Box[int]]]()},
		{inst("alpha", "Pair", bs("string"), nm("gamma", "Level")), rtOf[alpha.Pair[string, gammav1.Level]]()},
		{inst("beta", "List", nm("alpha", "Point")), rtOf[betav1.List[alpha.Point]]()},
		{inst("gamma", "List", inst("alpha", "Box", inst("alpha", "Pair", bs("string"), nm("alpha", "Int")))), rtOf[gammav1.List[alpha.Box[alpha.Pair[string, alpha.Int]]]]()},
		{inst("alpha", "Triple", inst("alpha", "Pair", bs("string"), bs("int")), inst("alpha", "Box", bs("int")), bs("string")), rtOf[alpha.Triple[alpha.Pair[string, int], alpha.Box[int], string]]()},
		{inst("gamma", "M", nm("alpha", "Int"), inst("alpha", "Triple", inst("alpha", "Box", inst("alpha", "Pair", bs("string"), bs("int"))), nm("beta", "Kind"), bs("int"))),
			rtOf[gammav1.M[alpha.Int, alpha.Triple[alpha.Box[alpha.Pair[string, int]], betav1.Kind, int]]]()},
		{inst("beta", "List", inst("gamma", "List", inst("alpha", "Box", bs("int")))), rtOf[betav1.List[gammav1.List[alpha.Box[int]]]]()},
	}
	return r
}()

var registryInsts = func() []*tn {
	var out []*tn
	for _, e := range registry {
		if e.n.K == "inst" {
			out = append(out, e.n)
		}
	}
	return out
}()

var registryByKey = func() map[string]reflect.Type {
	m := map[string]reflect.Type{}
	for _, e := range registry {
		m[e.n.key()] = e.rt
	}
	return m
}()

// toReflect builds the reflect type, when the expression can be expressed with the compiled fixtures.
func (n *tn) toReflect() (rt reflect.Type, ok bool) {
	defer func() {
		if p := recover(); p != nil {
			rt, ok = nil, false
		}
	}()
	switch n.K {
	case "basic", "error", "any":
		rt, ok = basicReflect[n.Name]
		return
	case "named", "inst":
		rt, ok = registryByKey[n.key()]
		return
	case "ptr", "slice", "array", "chan":
		e, ok := n.Elem.toReflect()
		if !ok {
			return nil, false
		}
		switch n.K {
		case "ptr":
			return reflect.PointerTo(e), true
		case "slice":
			return reflect.SliceOf(e), true
		case "array":
			return reflect.ArrayOf(n.Len, e), true
		default:
			return reflect.ChanOf(reflect.BothDir, e), true
		}
	case "map":
		k, ok1 := n.Key.toReflect()
		e, ok2 := n.Elem.toReflect()
		if !ok1 || !ok2 {
			return nil, false
		}
		return reflect.MapOf(k, e), true
	case "struct":
		var fs []reflect.StructField
		for _, fl := range n.Fields {
			if fl.Emb {
				return nil, false // reflect.StructOf cannot build every embedded field
			}
			ft, ok := fl.T.toReflect()
			if !ok {
				return nil, false
			}
			fs = append(fs, reflect.StructField{Name: fl.Name, Type: ft, Tag: reflect.StructTag(fl.Tag)})
		}
		return reflect.StructOf(fs), true
	}
	return nil, false
}

// ---- generators ----

var scalarBasics = []string{"bool", "int", "int8", "int16", "int32", "int64", "uint", "uint8", "uint16", "uint32", "uint64", "uintptr", "float32", "float64", "string", "byte", "rune"}
var namedScalars = []*tn{nm("alpha", "Bool"), nm("alpha", "Int"), nm("alpha", "Int8"), nm("alpha", "Int64"), nm("alpha", "Uint16"), nm("alpha", "Uintptr"), nm("alpha", "Float32"), nm("alpha", "Größe"),
	nm("alpha", "Stage"), nm("alpha", "Errno"), nm("alpha", "Digits"), nm("alpha", "Ratio"), nm("alpha", "Flag"), nm("alpha", "Label"),
	nm("alpha", "Float64"), nm("alpha", "String"), nm("alpha", "Rune"), nm("alpha", "Byte"), nm("beta", "Kind"), nm("gamma", "Level"), nm("left", "Mode"), nm("right", "Level"), nm("mv", "Code")}
var namedComposite = []*tn{nm("alpha", "Wide"), nm("alpha", "Strings"), nm("alpha", "IntMap"), nm("alpha", "Arr"), nm("alpha", "Point"), nm("alpha", "Same"), nm("alpha", "Named"), nm("alpha", "Embedded"),
	nm("beta", "Same"), nm("beta", "Spec"), nm("gamma", "Same"), nm("gamma", "Status"), nm("alpha", "Matrix"), nm("delta", "Mixed"), nm("delta", "Either"), nm("left", "Opt"), nm("right", "Opt"), nm("mv", "Item")}

// typeOnlyNamed: named types used in type expressions only (C11), never as values: a package whose last path element has a dot,
// and standard-library packages that compete for one import name
var typeOnlyNamed = []*tn{nm("time", "Time"), nm("time", "Duration"), nm("kit1", "Opt"), nm("kit2", "Opt"), nm("kit1", "Level"), nm("kit2", "Level"), nm("yaml", "Node"), nm("yaml", "Kind"), nm("yaml", "Node"), nm("ttpl", "Template"), nm("htpl", "Template"), nm("htpl", "HTML"), nm("tscan", "Position"), nm("tscan", "Scanner"),
	nm("gscan", "ErrorList"), nm("gscan", "Error")}

var generics = []struct {
	pkg, name string
	arity     int
	firstComp bool // first parameter must be comparable
}{{"alpha", "Box", 1, false}, {"alpha", "Pair", 2, true}, {"alpha", "Triple", 3, false}, {"beta", "List", 1, false}, {"gamma", "List", 1, false}, {"gamma", "M", 2, true}}

func genComparableArg(t *rapid.T) *tn {
	if rapid.Bool().Draw(t, "cmpnamed") {
		return rapid.SampledFrom(namedScalars).Draw(t, "cmpn")
	}
	return bs(rapid.SampledFrom([]string{"string", "int", "uint8", "bool", "int64"}).Draw(t, "cmpb"))
}

// genInst draws a generic instantiation with named/basic arguments, nested up to `levels`.
func genInst(t *rapid.T, levels int) *tn {
	g := rapid.SampledFrom(generics).Draw(t, "generic")
	n := &tn{K: "inst", Pkg: g.pkg, Name: g.name}
	for i := 0; i < g.arity; i++ {
		switch {
		case i == 0 && g.firstComp:
			n.Args = append(n.Args, genComparableArg(t))
		case levels > 1 && rapid.IntRange(0, 2).Draw(t, "nestinst") == 0:
			n.Args = append(n.Args, genInst(t, levels-1))
		case rapid.IntRange(0, 5).Draw(t, "argtypeonly") == 0:
			n.Args = append(n.Args, rapid.SampledFrom(typeOnlyNamed).Draw(t, "argto"))
		case rapid.Bool().Draw(t, "argnamed"):
			n.Args = append(n.Args, rapid.SampledFrom(append(append([]*tn{}, namedScalars...), namedComposite...)).Draw(t, "argn"))
		default:
			n.Args = append(n.Args, bs(rapid.SampledFrom([]string{"int", "string", "bool", "float64", "byte", "error", "any"}).Draw(t, "argb")))
		}
	}
	for _, a := range n.Args {
		if a.Name == "error" {
			a.K = "error"
		}
		if a.Name == "any" {
			a.K = "any"
		}
	}
	return n
}

func genKeyType(t *rapid.T) *tn {
	switch rapid.IntRange(0, 5).Draw(t, "keykind") {
	case 0, 1:
		return bs(rapid.SampledFrom([]string{"string", "int", "uint8", "bool", "int64", "float64", "rune"}).Draw(t, "keyb"))
	case 2:
		return rapid.SampledFrom(namedScalars).Draw(t, "keyn")
	case 3:
		return nm("alpha", "Point")
	case 4:
		return &tn{K: "array", Len: 2, Elem: bs("int")}
	default:
		return &tn{K: "ptr", Elem: nm("alpha", "Point")}
	}
}

var structTags = []string{`json:"a"`, `json:"a,omitempty" yaml:"b"`, `name:"x.y"`, `k:"v:w"`, `a:"1" b:"2"`, `validate:"@len[1,3]"`,
	// tags are part of the identity of a struct type exactly as written: odd blanks, free text, non-ASCII
	`json:"a"  yaml:"b"`, "json:\"a\"\tyaml:\"b\"", ` json:"a" `, `doc:"two  blanks"`, ` `, `free text, not key:"value" pairs`, `x:"é中"`, `q:"a\"b"`, `esc:"a\\nb"`}

// genType draws a closed type expression.
func genType(t *rapid.T, depth int) *tn {
	if depth <= 0 {
		if rapid.IntRange(0, 7).Draw(t, "leaftypeonly") == 0 {
			return rapid.SampledFrom(typeOnlyNamed).Draw(t, "tonamed")
		}
		switch rapid.IntRange(0, 5).Draw(t, "leaf") {
		case 0, 1:
			return bs(rapid.SampledFrom(scalarBasics).Draw(t, "basic"))
		case 2:
			return &tn{K: "error", Name: "error"}
		case 3:
			return &tn{K: "any", Name: "any"}
		case 4:
			return rapid.SampledFrom(namedScalars).Draw(t, "nscalar")
		default:
			return rapid.SampledFrom(namedComposite).Draw(t, "ncomp")
		}
	}
	switch rapid.IntRange(0, 11).Draw(t, "kind") {
	case 0:
		return genType(t, 0)
	case 11:
		// twin anonymous structs in one expression: same field names and tags, different types only behind a pointer
		// (anything that keys struct literals by a lossy description of the type confuses them)
		pointee := func(label string) *tn {
			return rapid.SampledFrom([]*tn{bs("int"), bs("string"), bs("bool"), nm("alpha", "Point"), nm("beta", "Kind"), nm("gamma", "Status"), nm("left", "Opt"), nm("right", "Opt"), nm("mv", "Item")}).Draw(t, label)
		}
		wrap := rapid.SampledFrom([]string{"ptr", "sliceptr", "mapptr", "ptrptr"}).Draw(t, "twinwrap")
		mk := func(e *tn) *tn {
			var ft *tn
			switch wrap {
			case "ptr":
				ft = &tn{K: "ptr", Elem: e}
			case "sliceptr":
				ft = &tn{K: "slice", Elem: &tn{K: "ptr", Elem: e}}
			case "mapptr":
				ft = &tn{K: "map", Key: bs("string"), Elem: &tn{K: "ptr", Elem: e}}
			default:
				ft = &tn{K: "ptr", Elem: &tn{K: "ptr", Elem: e}}
			}
			n := &tn{K: "struct", Fields: []tf{{Name: "V", T: ft}}}
			if rapid.Bool().Draw(t, "twintag") {
				n.Fields[0].Tag = `json:"v"`
			}
			if rapid.Bool().Draw(t, "twinextra") {
				n.Fields = append(n.Fields, tf{Name: "N", T: bs("int")})
			}
			return n
		}
		a := mk(pointee("twina"))
		b := mk(pointee("twinb"))
		b.Fields[0].Tag = a.Fields[0].Tag
		if len(a.Fields) != len(b.Fields) {
			b.Fields = append(b.Fields[:1], a.Fields[1:]...)
		}
		if rapid.Bool().Draw(t, "twinshape") {
			return &tn{K: "struct", Fields: []tf{{Name: "A", T: a}, {Name: "B", T: b}}}
		}
		return &tn{K: "map", Key: bs("string"), Elem: &tn{K: "struct", Fields: []tf{{Name: "A", T: &tn{K: "slice", Elem: a}}, {Name: "B", T: &tn{K: "ptr", Elem: b}}}}}
	case 1, 2:
		if rapid.IntRange(0, 2).Draw(t, "compiledinst") == 0 {
			// an instantiation that is compiled into the harness, so that the reflect route sees it too
			return rapid.SampledFrom(registryInsts).Draw(t, "reginst")
		}
		return genInst(t, rapid.IntRange(1, 3).Draw(t, "instlevels"))
	case 3:
		if rapid.IntRange(0, 3).Draw(t, "ptrtonamedptr") == 0 {
			return &tn{K: "ptr", Elem: nm("alpha", "PointRef")} // a pointer to a defined pointer type
		}
		return &tn{K: "ptr", Elem: genType(t, depth-1)}
	case 4:
		return &tn{K: "slice", Elem: genType(t, depth-1)}
	case 5:
		return &tn{K: "array", Len: rapid.IntRange(0, 4).Draw(t, "len"), Elem: genType(t, depth-1)}
	case 6, 7:
		return &tn{K: "map", Key: genKeyType(t), Elem: genType(t, depth-1)}
	case 8:
		return &tn{K: "chan", Elem: genType(t, depth-1)}
	default:
		n := &tn{K: "struct"}
		k := rapid.IntRange(0, 4).Draw(t, "nfields")
		for i := 0; i < k; i++ {
			f := tf{Name: fmt.Sprintf("F%d", i), T: genType(t, depth-1)}
			if rapid.IntRange(0, 2).Draw(t, "tag") == 0 {
				f.Tag = rapid.SampledFrom(structTags).Draw(t, "tagv")
			}
			if i == 0 && rapid.IntRange(0, 3).Draw(t, "embed") == 0 {
				e := rapid.SampledFrom([]*tn{nm("alpha", "Point"), nm("beta", "Spec"), nm("gamma", "Status"), {K: "ptr", Elem: nm("alpha", "Named")}, inst("alpha", "Box", bs("int"))}).Draw(t, "embt")
				f = tf{Name: embeddedName(e), T: e, Emb: true, Tag: f.Tag}
			}
			n.Fields = append(n.Fields, f)
		}
		return n
	}
}

func embeddedName(e *tn) string {
	if e.K == "ptr" {
		return e.Elem.Name
	}
	return e.Name
}
