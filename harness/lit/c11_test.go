package lit

import (
	"bytes"
	"fmt"
	"go/ast"
	"go/parser"
	"go/token"
	"go/types"
	"regexp"
	"sort"
	"strings"
	"testing"

	"github.com/octohelm/gengo/pkg/gengo"
	"github.com/octohelm/gengo/pkg/gengo/snippet"
	"github.com/octohelm/gengo/pkg/namer"
	gengotypes "github.com/octohelm/gengo/pkg/types"
	"pgregory.net/rapid"

	"vt/internal/ev"
)

// ---- C11: type literals denote the type they were rendered from ----

type c11Case struct {
	T *tn `json:"t"`
	// Target: own (a package named in the type) | other | clash (another package whose tracker already holds clashing import names)
	Target string `json:"target"`
	// Via: types (go/types type) | reflect (reflect type, when expressible) | format (%T through Sprintf)
	Via string `json:"via"`
	// OwnPkg: which fixture package is the target when Target == own
	OwnPkg string `json:"ownpkg,omitempty"`
	// Reuse: the one snippet value is first rendered somewhere else ("other": an unrelated package, "clash": a package whose
	// tracker holds clashing names, "pkg:<fixture>": one of the packages the type mentions) and then where the case says
	Reuse string `json:"reuse,omitempty"`
}

func genC11(t *rapid.T) c11Case {
	c := c11Case{T: genType(t, rapid.IntRange(0, 4).Draw(t, "depth"))}
	c.Target = rapid.SampledFrom([]string{"own", "other", "other", "clash"}).Draw(t, "target")
	c.Via = rapid.SampledFrom([]string{"types", "types", "reflect", "format"}).Draw(t, "via")
	if c.Via == "reflect" {
		if _, ok := c.T.toReflect(); !ok {
			c.Via = "types"
		}
	}
	var pkgs []string
	seen := map[string]bool{}
	c.T.walk(func(n *tn, d int) {
		if n.Pkg != "" && !seen[n.Pkg] {
			seen[n.Pkg] = true
			pkgs = append(pkgs, n.Pkg)
		}
	}, 0)
	if c.Target == "own" {
		if len(pkgs) == 0 {
			c.Target = "other"
		} else {
			c.OwnPkg = pkgs[rapid.IntRange(0, len(pkgs)-1).Draw(t, "ownpkg")]
			if fxStd[c.OwnPkg] {
				// a standard-library package is never the target of generated code
				c.OwnPkg = ""
				c.Target = "other"
			}
			// beta/v1 imports alpha: a type that mentions beta cannot be written inside package alpha (import cycle)
			if !ownTargetPossible(c.OwnPkg, func(p string) bool { return seen[p] }) {
				// the importing package is always a possible target
				for _, p := range []string{"delta", "beta"} {
					if seen[p] {
						c.OwnPkg = p
						break
					}
				}
			}
		}
	}
	if rapid.IntRange(0, 3).Draw(t, "reuse") == 0 {
		opts := []string{"other", "clash"}
		for _, p := range pkgs {
			opts = append(opts, "pkg:"+p)
		}
		c.Reuse = rapid.SampledFrom(opts).Draw(t, "reusewhere")
	}
	return c
}

var clashSeeds = []string{"example.com/x/alpha", "example.com/y/v1", "example.com/betav1", "other.org/fx/beta/v1", "example.com/z/gamma/v1", "example.com/gammav1", "example.com/fxalpha"}

func fullQualifier(p *types.Package) string { return p.Path() }

// renderType renders the type for a target package path and returns the text and the tracker.
func renderType(c c11Case, targetPath string) (string, namer.ImportTracker, error) {
	tracker := namer.NewDefaultImportTracker()
	if c.Target == "clash" {
		for _, p := range clashSeeds {
			tracker.AddType(gengotypes.Ref(p, "Seed"))
		}
	}
	buf := &bytes.Buffer{}
	w := gengo.NewSnippetWriter(buf, namer.NameSystems{"raw": namer.NewRawNamer(targetPath, tracker)})
	var arg any
	switch c.Via {
	case "reflect":
		rt, ok := c.T.toReflect()
		if !ok {
			panic("harness: reflect type not expressible")
		}
		arg = rt
	default:
		arg = c.T.toTypes()
	}
	var sn snippet.Snippet
	if c.Via == "format" {
		sn = snippet.Sprintf("%T", arg)
	} else {
		sn = snippet.ID(arg)
	}
	if c.Reuse != "" {
		warmTracker := namer.NewDefaultImportTracker()
		warmTarget := "example.com/warmup/elsewhere"
		switch {
		case c.Reuse == "clash":
			for _, p := range clashSeeds {
				warmTracker.AddType(gengotypes.Ref(p, "Seed"))
			}
		case strings.HasPrefix(c.Reuse, "pkg:"):
			warmTarget = fxPaths[strings.TrimPrefix(c.Reuse, "pkg:")]
		}
		warm := gengo.NewSnippetWriter(&bytes.Buffer{}, namer.NameSystems{"raw": namer.NewRawNamer(warmTarget, warmTracker)})
		if p := ev.Panics(func() { warm.Render(sn) }); p != nil {
			return "", nil, fmt.Errorf("rendering %s (via %s) panics: %v", c.T.key(), c.Via, p)
		}
	}
	if p := ev.Panics(func() { w.Render(sn) }); p != nil {
		return "", nil, fmt.Errorf("rendering %s (via %s) panics: %v", c.T.key(), c.Via, p)
	}
	return buf.String(), tracker, nil
}

func oracleC11(c c11Case) error {
	f := loadFixtures()
	targetPath, targetName := "example.com/probe/target", "target"
	if c.Target == "own" {
		targetPath = fxPaths[c.OwnPkg]
		targetName = f.pkgs[targetPath].Name()
	}
	text, tracker, err := renderType(c, targetPath)
	if err != nil {
		return err
	}
	// probe file
	var b strings.Builder
	fmt.Fprintf(&b, "package %s\n\nimport (\n", targetName)
	imports := tracker.Imports()
	paths := make([]string, 0, len(imports))
	for p := range imports {
		paths = append(paths, p)
	}
	sort.Strings(paths)
	fixture := map[string]bool{}
	for _, p := range fxPaths {
		fixture[p] = true
	}
	for _, p := range paths {
		if fixture[p] {
			fmt.Fprintf(&b, "\t%s %q\n", imports[p], p)
		}
	}
	fmt.Fprintf(&b, ")\n\nvar ProbeX %s\n", text)
	fset := token.NewFileSet()
	pf, err := parser.ParseFile(fset, "probe.go", b.String(), 0)
	if err != nil {
		return fmt.Errorf("%s rendered (target %s, via %s) as %q, which does not parse: %v", c.T.key(), c.Target, c.Via, text, err)
	}
	files := []*ast.File{pf}
	cfgFset := fset
	if c.Target == "own" {
		// the fixture's own files are checked together with the probe
		files = append(append([]*ast.File{}, f.files[targetPath]...), pf)
		cfgFset = f.fset
		// the probe must be parsed in the fixtures' file set
		pf2, err := parser.ParseFile(f.fset, fmt.Sprintf("probe_%p.go", &b), b.String(), 0)
		if err != nil {
			panic("harness: " + err.Error())
		}
		files[len(files)-1] = pf2
	}
	var terrs []string
	conf := types.Config{Importer: mapImporter(f.pkgs), Error: func(err error) {
		if !(strings.Contains(err.Error(), "not used") && strings.Contains(err.Error(), "hx_")) {
			terrs = append(terrs, err.Error())
		}
	}}
	pkg, _ := conf.Check(targetPath, cfgFset, files, nil)
	if len(terrs) > 0 {
		return fmt.Errorf("%s rendered (target %s, via %s) as %q, which does not type-check with the registered imports %v: %s", c.T.key(), c.Target, c.Via, text, imports, terrs[0])
	}
	x := pkg.Scope().Lookup("ProbeX")
	if x == nil {
		panic("harness: ProbeX missing")
	}
	got := types.TypeString(x.Type(), fullQualifier)
	want := types.TypeString(c.T.toTypes(), fullQualifier)
	if c.Target != "own" {
		// the probe sees the very package objects the original was built from
		if !types.Identical(x.Type(), c.T.toTypes()) {
			return fmt.Errorf("%s rendered (target %s, via %s) as %q denotes %s, which is not identical to %s", c.T.key(), c.Target, c.Via, text, got, want)
		}
	} else if normAliases(got) != normAliases(want) {
		return fmt.Errorf("%s rendered (target %s, via %s) as %q denotes %s, want %s", c.T.key(), c.Target, c.Via, text, got, want)
	}
	// local types unqualified, foreign ones under their import name
	var bad error
	c.T.walk(func(n *tn, d int) {
		if n.Pkg == "" || bad != nil {
			return
		}
		p := fxPaths[n.Pkg]
		if p == targetPath {
			if _, ok := imports[p]; ok {
				bad = fmt.Errorf("the target package %s itself was registered as an import", p)
			}
			return
		}
		name, ok := imports[p]
		if !ok {
			bad = fmt.Errorf("package %s is used but not registered as an import", p)
			return
		}
		if !strings.Contains(text, name+"."+n.Name) {
			bad = fmt.Errorf("type %s.%s does not appear under its import name %q", p, n.Name, name)
		}
	}, 0)
	if bad != nil {
		return fmt.Errorf("%s rendered (target %s, via %s) as %q: %w", c.T.key(), c.Target, c.Via, text, bad)
	}
	// rendering again gives the same text
	text2, _, err := renderType(c, targetPath)
	if err != nil || text2 != text {
		return fmt.Errorf("%s rendered twice gives %q and %q (%v)", c.T.key(), text, text2, err)
	}
	return nil
}

var aliasRe = regexp.MustCompile(`\b(byte|rune)\b`)

// normAliases spells the predeclared aliases byte and rune as the types they denote.
func normAliases(s string) string {
	s = strings.NewReplacer("interface {}", "any", "interface{}", "any").Replace(s)
	return aliasRe.ReplaceAllStringFunc(s, func(m string) string {
		if m == "byte" {
			return "uint8"
		}
		return "int32"
	})
}

func c11Shape(c c11Case) (depth int, foreign, generic, hasStruct, hasError, nestedInst bool) {
	c.T.walk(func(n *tn, d int) {
		if d > depth {
			depth = d
		}
		if n.Pkg != "" && (c.Target != "own" || n.Pkg != c.OwnPkg) {
			foreign = true
		}
		if n.K == "inst" {
			generic = true
			for _, a := range n.Args {
				if a.K == "inst" {
					nestedInst = true
				}
			}
		}
		if n.K == "struct" {
			hasStruct = true
		}
		if n.K == "error" {
			hasError = true
		}
	}, 0)
	return
}

func c11NonTrivial(c c11Case) bool {
	depth, foreign, generic, hasStruct, _, _ := c11Shape(c)
	return depth >= 2 && (foreign || generic || hasStruct)
}

func c11Classes(c c11Case) []string {
	depth, foreign, generic, hasStruct, hasError, nested := c11Shape(c)
	cl := []string{"target-" + c.Target, "via-" + c.Via, fmt.Sprintf("depth-%d", min(depth, 5))}
	if foreign {
		cl = append(cl, "foreign-named")
	}
	if generic {
		cl = append(cl, "generic-instantiation")
	}
	if nested {
		cl = append(cl, "nested-instantiation")
	}
	if hasStruct {
		cl = append(cl, "struct")
	}
	if hasError {
		cl = append(cl, "error")
	}
	if c.Reuse != "" {
		cl = append(cl, "snippet-value-rendered-elsewhere-first")
	}
	return cl
}

func TestC11(t *testing.T) {
	r := ev.Begin(t, ev.Meta{
		ID:    "C11",
		Level: "exploration",
		Rule: "closed type expressions of depth <= 4 (generic arguments nested up to 3 levels) over predeclared types, error, any, 43 fixture named types in three packages (two " +
			"of them named v1, one simple name declared in all three), generic instantiations with named/basic arguments, pointers, slices, arrays, maps (basic, named, " +
			"struct, array, pointer keys), bidirectional channels, structs with tags and embedded fields; each built as a go/types type over the loaded fixtures and, when " +
			"expressible, as a reflect type; rendered with snippet.ID or %T into the type's own package, another package, or a package whose tracker already holds 7 " +
			"clashing import names; the text is type-checked as `var X <text>` inside the target package (own package: together with the fixture's files) and the fully " +
			"qualified TypeString must equal the original's; non-trivial = depth >= 2 and (foreign named | generic instantiation | struct); distinct by JSON encoding",
		Assumptions: []string{"identity of re-checked types is compared through fully qualified go/types.TypeString (named types are identified by path, name and arguments)"},
	})
	defer r.Finish()
	ev.Search(r, ev.Sub[c11Case]{
		Name: "types", Gen: genC11, Oracle: oracleC11, NonTrivial: c11NonTrivial, Classes: c11Classes,
		Budget: ev.Budget{Quick: 30000, Thorough: 250000}, MinNonTrivial: 0.2,
	})
}

// FuzzC11 lets the coverage-guided fuzzer drive the type generator.
func FuzzC11(f *testing.F) {
	f.Fuzz(rapid.MakeFuzz(ev.FuzzProp("C11", ev.Sub[c11Case]{Name: "types", Gen: genC11, Oracle: oracleC11})))
}
