// Package dumpval prints a value in a canonical, address-free text form. The same source file is compiled into the
// harness and copied verbatim into the programs that the C10 compiler cross-check generates, so both sides print alike.
package dumpval

import (
	"fmt"
	"reflect"
	"sort"
	"strconv"
	"strings"
)

// Dump prints v deeply: nil and empty slices/maps print alike, map entries are sorted by their printed key.
func Dump(v reflect.Value) string {
	var b strings.Builder
	dump(&b, v)
	return b.String()
}

func dump(b *strings.Builder, v reflect.Value) {
	switch v.Kind() {
	case reflect.Bool:
		b.WriteString(strconv.FormatBool(v.Bool()))
	case reflect.Int, reflect.Int8, reflect.Int16, reflect.Int32, reflect.Int64:
		b.WriteString(strconv.FormatInt(v.Int(), 10))
	case reflect.Uint, reflect.Uint8, reflect.Uint16, reflect.Uint32, reflect.Uint64, reflect.Uintptr:
		b.WriteString(strconv.FormatUint(v.Uint(), 10))
	case reflect.Float32, reflect.Float64:
		f := v.Float()
		if f == 0 {
			f = 0 // -0 and +0 are equal values
		}
		b.WriteString(strconv.FormatFloat(f, 'x', -1, 64))
	case reflect.String:
		b.WriteString(strconv.QuoteToASCII(v.String()))
	case reflect.Pointer:
		if v.IsNil() {
			b.WriteString("nil")
			return
		}
		b.WriteString("&")
		dump(b, v.Elem())
	case reflect.Slice, reflect.Array:
		b.WriteString("[")
		for i := 0; i < v.Len(); i++ {
			if i > 0 {
				b.WriteString(",")
			}
			dump(b, v.Index(i))
		}
		b.WriteString("]")
	case reflect.Map:
		var entries []string
		for _, k := range v.MapKeys() {
			var e strings.Builder
			dump(&e, k)
			e.WriteString(":")
			dump(&e, v.MapIndex(k))
			entries = append(entries, e.String())
		}
		sort.Strings(entries)
		b.WriteString("{" + strings.Join(entries, ",") + "}")
	case reflect.Struct:
		b.WriteString(v.Type().String() + "{")
		for i := 0; i < v.NumField(); i++ {
			if i > 0 {
				b.WriteString(",")
			}
			b.WriteString(v.Type().Field(i).Name + ":")
			dump(b, v.Field(i))
		}
		b.WriteString("}")
	default:
		b.WriteString(fmt.Sprintf("<%s>", v.Kind()))
	}
}
