package lit

import (
	"bytes"
	_ "embed"
	"fmt"
	"go/ast"
	"go/constant"
	"go/parser"
	"go/token"
	"go/types"
	"math"
	"os"
	"os/exec"
	"path/filepath"
	"reflect"
	"regexp"
	"sort"
	"strings"
	"testing"

	"github.com/octohelm/gengo/pkg/gengo"
	"github.com/octohelm/gengo/pkg/gengo/snippet"
	"github.com/octohelm/gengo/pkg/namer"
	gengotypes "github.com/octohelm/gengo/pkg/types"
	"pgregory.net/rapid"

	"vt/internal/ev"
	"vt/lit/dumpval"
)

// ---- C10: value literals evaluate back to the value they were rendered from ----

// vn is a value, shaped after its type.
type vn struct {
	B     *bool   `json:"b,omitempty"`
	I     *int64  `json:"i,omitempty"`
	U     *uint64 `json:"u,omitempty"`
	F     *uint64 `json:"f,omitempty"` // float bits (float64 bits; for float32 the float32 value widened)
	S     []byte  `json:"s,omitempty"` // string bytes (may be invalid UTF-8)
	IsStr bool    `json:"isstr,omitempty"`
	Nil   bool    `json:"nil,omitempty"`
	Elems []*vn   `json:"elems,omitempty"` // slice/array elements, struct fields in declaration order, map values
	Keys  []*vn   `json:"keys,omitempty"`  // map keys, parallel to Elems
	Ptr   *vn     `json:"ptr,omitempty"`
	// Shared (non-nil pointers): siblings of the same pointer type that are marked Shared hold the very same Go pointer (the
	// first one's): aliasing inside one value
	Shared bool `json:"shared,omitempty"`
}

type c10Case struct {
	T      *tn    `json:"t"`
	V      *vn    `json:"v"`
	Target string `json:"target"` // other | own:<pkg> | clash
	Via    string `json:"via"`    // value | format
}

// ---- value type domain ----

var c10Insts = func() []*tn {
	var out []*tn
	for _, e := range registry {
		typeOnly := false
		e.n.walk(func(n *tn, d int) {
			if fxStd[n.Pkg] || n.Pkg == "kit1" || n.Pkg == "kit2" {
				typeOnly = true // used in type expressions only (C11)
			}
		}, 0)
		if e.n.K == "inst" && !typeOnly {
			out = append(out, e.n)
		}
	}
	return out
}()

var c10Scalars = []string{"bool", "int", "int8", "int16", "int32", "int64", "uint", "uint8", "uint16", "uint32", "uint64", "uintptr", "float32", "float64", "string", "byte", "rune"}

func genValueType(t *rapid.T, depth int, allowPtr bool) *tn {
	if depth <= 0 {
		switch rapid.IntRange(0, 3).Draw(t, "vleaf") {
		case 0, 1:
			return bs(rapid.SampledFrom(c10Scalars).Draw(t, "vbasic"))
		case 2:
			return rapid.SampledFrom(namedScalars).Draw(t, "vnscalar")
		default:
			return rapid.SampledFrom(namedComposite).Draw(t, "vncomp")
		}
	}
	k := rapid.IntRange(0, 10).Draw(t, "vkind")
	switch {
	case k == 0:
		return genValueType(t, 0, false)
	case k == 1:
		return rapid.SampledFrom(c10Insts).Draw(t, "vinst")
	case k <= 3 && allowPtr:
		return &tn{K: "ptr", Elem: genValueType(t, depth-1, false)}
	case k <= 5:
		return &tn{K: "slice", Elem: genValueType(t, depth-1, true)}
	case k == 6:
		if rapid.IntRange(0, 7).Draw(t, "longarray") == 0 {
			return &tn{K: "array", Len: rapid.SampledFrom([]int{10, 16, 20, 30, 40}).Draw(t, "vlonglen"), Elem: bs(rapid.SampledFrom([]string{"int", "uint8", "float64", "int16", "string"}).Draw(t, "vlongelem"))}
		}
		return &tn{K: "array", Len: rapid.IntRange(0, 3).Draw(t, "vlen"), Elem: genValueType(t, depth-1, true)}
	case k <= 8:
		return &tn{K: "map", Key: genKeyTypeForValues(t), Elem: genValueType(t, depth-1, true)}
	default:
		n := &tn{K: "struct"}
		for i := 0; i < rapid.IntRange(0, 3).Draw(t, "vnfields"); i++ {
			n.Fields = append(n.Fields, tf{Name: fmt.Sprintf("F%d", i), T: genValueType(t, depth-1, true)})
		}
		return n
	}
}

func genKeyTypeForValues(t *rapid.T) *tn {
	switch rapid.IntRange(0, 5).Draw(t, "vkeykind") {
	case 0, 1:
		return bs(rapid.SampledFrom([]string{"string", "int", "uint8", "bool", "int64", "float64", "rune"}).Draw(t, "vkeyb"))
	case 2:
		return rapid.SampledFrom(namedScalars).Draw(t, "vkeyn")
	case 3:
		return nm("alpha", "Point")
	case 4:
		return &tn{K: "array", Len: 2, Elem: bs("int")}
	default:
		return nm("alpha", "Same")
	}
}

// ---- value generation driven by the reflect type ----

var strPool = []string{"", "a", "A", "Key", "key", "KEY", "Content-Type", "content-type", "hello world", "quote\"d", "back`tick", "new\nline", "tab\t", "nul\x00", "\xff\xfe invalid", "é中🙂", "%v @x 'y'", "\\back\\slash", "'", "//c", " "}

func genLeafInt(t *rapid.T, bits int) int64 {
	min, max := int64(math.MinInt64), int64(math.MaxInt64)
	if bits < 64 {
		min, max = -(1 << (bits - 1)), (1<<(bits-1))-1
	}
	switch rapid.IntRange(0, 5).Draw(t, "intleaf") {
	case 0:
		return 0
	case 1:
		return min
	case 2:
		return max
	case 3:
		return rapid.Int64Range(-3, 3).Draw(t, "small")
	default:
		return rapid.Int64Range(min, max).Draw(t, "int")
	}
}

func genLeafUint(t *rapid.T, bits int) uint64 {
	max := uint64(math.MaxUint64)
	if bits < 64 {
		max = (1 << bits) - 1
	}
	switch rapid.IntRange(0, 3).Draw(t, "uintleaf") {
	case 0:
		return 0
	case 1:
		return max
	default:
		return rapid.Uint64Range(0, max).Draw(t, "uint")
	}
}

func genLeafFloat(t *rapid.T, is32 bool) float64 {
	pool := []float64{0, math.Copysign(0, -1), 1, -1.5, 0.1, 1e21, 1e-7, 123456789.125, math.MaxFloat64, math.SmallestNonzeroFloat64, -math.MaxFloat64, 1 << 53, 0.30000000000000004}
	if is32 {
		pool = []float64{0, 1, -1.5, float64(float32(0.1)), float64(math.MaxFloat32), float64(math.SmallestNonzeroFloat32), 16777216, float64(float32(1e-7)), float64(float32(3.4e38))}
	}
	if rapid.IntRange(0, 2).Draw(t, "floatpool") > 0 {
		return rapid.SampledFrom(pool).Draw(t, "fpool")
	}
	var f float64
	if is32 {
		f = float64(rapid.Float32().Draw(t, "f32"))
	} else {
		f = rapid.Float64().Draw(t, "f64")
	}
	if math.IsNaN(f) || math.IsInf(f, 0) {
		return 2.5
	}
	return f
}

func genValue(t *rapid.T, rt reflect.Type, depth int) *vn {
	switch rt.Kind() {
	case reflect.Bool:
		b := rapid.Bool().Draw(t, "bool")
		return &vn{B: &b}
	case reflect.Int, reflect.Int64:
		i := genLeafInt(t, 64)
		return &vn{I: &i}
	case reflect.Int8:
		i := genLeafInt(t, 8)
		return &vn{I: &i}
	case reflect.Int16:
		i := genLeafInt(t, 16)
		return &vn{I: &i}
	case reflect.Int32:
		var i int64
		if rapid.Bool().Draw(t, "runeish") {
			i = int64(rapid.SampledFrom([]rune{'a', 'A', '\'', '\\', 0, '\n', 'é', 0x10FFFF, 0xD800, '"', '中', 0x7f}).Draw(t, "rune"))
		} else {
			i = genLeafInt(t, 32)
		}
		return &vn{I: &i}
	case reflect.Uint, reflect.Uint64, reflect.Uintptr:
		u := genLeafUint(t, 64)
		return &vn{U: &u}
	case reflect.Uint8:
		u := genLeafUint(t, 8)
		return &vn{U: &u}
	case reflect.Uint16:
		u := genLeafUint(t, 16)
		return &vn{U: &u}
	case reflect.Uint32:
		u := genLeafUint(t, 32)
		return &vn{U: &u}
	case reflect.Float32:
		f := math.Float64bits(genLeafFloat(t, true))
		return &vn{F: &f}
	case reflect.Float64:
		f := math.Float64bits(genLeafFloat(t, false))
		return &vn{F: &f}
	case reflect.String:
		s := rapid.SampledFrom(strPool).Draw(t, "str")
		if rapid.IntRange(0, 4).Draw(t, "anystr") == 0 {
			s = rapid.String().Draw(t, "rstr")
		}
		// long strings (past any line-wrapping width) with escapes at every offset
		if rapid.IntRange(0, 15).Draw(t, "longstr") == 0 {
			s = strings.Repeat("a", rapid.IntRange(40, 300).Draw(t, "pad")) + rapid.SampledFrom([]string{"\\", "\\\\\\", "\"", "\n", "é", "\x00\\"}).Draw(t, "esc") + strings.Repeat(rapid.SampledFrom([]string{"b", "\\", "b\\"}).Draw(t, "tailunit"), rapid.IntRange(0, 150).Draw(t, "tail"))
		}
		return &vn{S: []byte(s), IsStr: true}
	case reflect.Pointer:
		if rapid.IntRange(0, 4).Draw(t, "nilptr") == 0 {
			return &vn{Nil: true}
		}
		return &vn{Ptr: genValue(t, rt.Elem(), depth-1), Shared: rapid.IntRange(0, 2).Draw(t, "sharedptr") == 0}
	case reflect.Slice:
		if rapid.IntRange(0, 5).Draw(t, "nilslice") == 0 {
			return &vn{Nil: true}
		}
		n := rapid.IntRange(0, 3).Draw(t, "slen")
		if depth <= 0 {
			n = rapid.IntRange(0, 1).Draw(t, "slen0")
		}
		switch rt.Elem().Kind() {
		case reflect.Bool, reflect.String, reflect.Int, reflect.Int8, reflect.Int16, reflect.Int32, reflect.Int64, reflect.Uint, reflect.Uint8, reflect.Uint16, reflect.Uint32, reflect.Uint64,
			reflect.Uintptr, reflect.Float32, reflect.Float64:
			// long sequences of scalars (whatever lays them out in rows or wraps them): lengths around the round numbers
			if rapid.IntRange(0, 5).Draw(t, "longslice") == 0 {
				n = rapid.SampledFrom([]int{8, 9, 10, 11, 16, 19, 20, 21, 30, 32, 40, 64, 100}).Draw(t, "longlen")
			}
		}
		v := &vn{Elems: []*vn{}}
		for i := 0; i < n; i++ {
			v.Elems = append(v.Elems, genValue(t, rt.Elem(), depth-1))
		}
		return v
	case reflect.Array:
		v := &vn{Elems: []*vn{}}
		for i := 0; i < rt.Len(); i++ {
			v.Elems = append(v.Elems, genValue(t, rt.Elem(), depth-1))
		}
		return v
	case reflect.Map:
		if rapid.IntRange(0, 5).Draw(t, "nilmap") == 0 {
			return &vn{Nil: true}
		}
		n := rapid.IntRange(0, 4).Draw(t, "mlen")
		if depth <= 0 {
			n = rapid.IntRange(0, 1).Draw(t, "mlen0")
		}
		v := &vn{Elems: []*vn{}, Keys: []*vn{}}
		for i := 0; i < n; i++ {
			v.Keys = append(v.Keys, genValue(t, rt.Key(), 0))
			v.Elems = append(v.Elems, genValue(t, rt.Elem(), depth-1))
		}
		return v
	case reflect.Struct:
		v := &vn{Elems: []*vn{}}
		zero := rapid.IntRange(0, 4).Draw(t, "zerostruct") == 0
		for i := 0; i < rt.NumField(); i++ {
			if zero {
				v.Elems = append(v.Elems, zeroVN(rt.Field(i).Type))
			} else {
				v.Elems = append(v.Elems, genValue(t, rt.Field(i).Type, depth-1))
			}
		}
		return v
	}
	panic("harness: unsupported kind in the value domain: " + rt.String())
}

func zeroVN(rt reflect.Type) *vn {
	switch rt.Kind() {
	case reflect.Bool:
		b := false
		return &vn{B: &b}
	case reflect.Int, reflect.Int8, reflect.Int16, reflect.Int32, reflect.Int64:
		i := int64(0)
		return &vn{I: &i}
	case reflect.Uint, reflect.Uint8, reflect.Uint16, reflect.Uint32, reflect.Uint64, reflect.Uintptr:
		u := uint64(0)
		return &vn{U: &u}
	case reflect.Float32, reflect.Float64:
		f := uint64(0)
		return &vn{F: &f}
	case reflect.String:
		return &vn{IsStr: true}
	case reflect.Pointer, reflect.Slice, reflect.Map:
		return &vn{Nil: true}
	case reflect.Array:
		v := &vn{Elems: []*vn{}}
		for i := 0; i < rt.Len(); i++ {
			v.Elems = append(v.Elems, zeroVN(rt.Elem()))
		}
		return v
	case reflect.Struct:
		v := &vn{Elems: []*vn{}}
		for i := 0; i < rt.NumField(); i++ {
			v.Elems = append(v.Elems, zeroVN(rt.Field(i).Type))
		}
		return v
	}
	panic("harness: unsupported kind " + rt.String())
}

// build materialises the value.
func build(rt reflect.Type, v *vn) reflect.Value {
	out := reflect.New(rt).Elem()
	switch rt.Kind() {
	case reflect.Bool:
		out.SetBool(v.B != nil && *v.B)
	case reflect.Int, reflect.Int8, reflect.Int16, reflect.Int32, reflect.Int64:
		if v.I != nil {
			out.SetInt(*v.I)
		}
	case reflect.Uint, reflect.Uint8, reflect.Uint16, reflect.Uint32, reflect.Uint64, reflect.Uintptr:
		if v.U != nil {
			out.SetUint(*v.U)
		}
	case reflect.Float32, reflect.Float64:
		if v.F != nil {
			out.SetFloat(math.Float64frombits(*v.F))
		}
	case reflect.String:
		out.SetString(string(v.S))
	case reflect.Pointer:
		if !v.Nil && v.Ptr != nil {
			p := reflect.New(rt.Elem())
			p.Elem().Set(build(rt.Elem(), v.Ptr))
			out.Set(p)
		}
	case reflect.Slice:
		if !v.Nil {
			child := sharing()
			s := reflect.MakeSlice(rt, 0, len(v.Elems))
			for _, e := range v.Elems {
				s = reflect.Append(s, child(rt.Elem(), e))
			}
			out.Set(s)
		}
	case reflect.Array:
		child := sharing()
		for i := 0; i < rt.Len() && i < len(v.Elems); i++ {
			out.Index(i).Set(child(rt.Elem(), v.Elems[i]))
		}
	case reflect.Map:
		if !v.Nil {
			child := sharing()
			m := reflect.MakeMap(rt)
			for i := range v.Keys {
				if i < len(v.Elems) {
					m.SetMapIndex(build(rt.Key(), v.Keys[i]), child(rt.Elem(), v.Elems[i]))
				}
			}
			out.Set(m)
		}
	case reflect.Struct:
		child := sharing()
		for i := 0; i < rt.NumField() && i < len(v.Elems); i++ {
			out.Field(i).Set(child(rt.Field(i).Type, v.Elems[i]))
		}
	}
	return out
}

// sharing returns a builder for the children of one container: pointer children marked Shared get the same Go pointer per type.
func sharing() func(rt reflect.Type, v *vn) reflect.Value {
	first := map[reflect.Type]reflect.Value{}
	return func(rt reflect.Type, v *vn) reflect.Value {
		if rt.Kind() == reflect.Pointer && v != nil && v.Shared && !v.Nil && v.Ptr != nil {
			if p, ok := first[rt]; ok {
				return p
			}
			p := build(rt, v)
			first[rt] = p
			return p
		}
		return build(rt, v)
	}
}

func genC10(t *rapid.T) c10Case {
	c := c10Case{T: genValueType(t, rapid.IntRange(0, 4).Draw(t, "vdepth"), true)}
	if rapid.IntRange(0, 19).Draw(t, "vcompete") == 0 {
		// containers whose entries decide which of two packages with the same natural import name is mentioned first
		e := rapid.SampledFrom([]*tn{nm("delta", "Mixed"), nm("delta", "Either"), {K: "ptr", Elem: nm("delta", "Either")}}).Draw(t, "vcompelem")
		if rapid.Bool().Draw(t, "vcompmap") {
			c.T = &tn{K: "map", Key: genKeyTypeForValues(t), Elem: e}
		} else {
			c.T = &tn{K: "slice", Elem: e}
		}
	}
	rt, ok := c.T.toReflect()
	if !ok {
		panic("harness: value type without reflect form: " + c.T.key())
	}
	c.V = genValue(t, rt, 3)
	c.Target = rapid.SampledFrom([]string{"other", "other", "own:alpha", "own:beta", "own:gamma", "own:delta", "own:left", "clash"}).Draw(t, "vtarget")
	c.Via = rapid.SampledFrom([]string{"value", "value", "format"}).Draw(t, "vvia")
	// a value that mentions a package which imports the target cannot be written inside the target (import cycle)
	if strings.HasPrefix(c.Target, "own:") && !ownTargetPossible(strings.TrimPrefix(c.Target, "own:"), func(p string) bool { return mentions(c.T, p) }) {
		c.Target = "other"
	}
	return c
}

func mentions(n *tn, pkg string) bool {
	found := false
	n.walk(func(x *tn, d int) {
		if x.Pkg == pkg {
			found = true
		}
	}, 0)
	return found
}

// ---- evaluation of the rendered literal ----

type evaluator struct {
	info *types.Info
}

func (e *evaluator) eval(x ast.Expr, rt reflect.Type) (reflect.Value, error) {
	out := reflect.New(rt).Elem()
	if tv, ok := e.info.Types[x]; ok && tv.Value != nil {
		return constTo(tv.Value, rt)
	}
	switch n := x.(type) {
	case *ast.ParenExpr:
		return e.eval(n.X, rt)
	case *ast.Ident:
		if n.Name == "nil" {
			return out, nil
		}
		return out, fmt.Errorf("cannot evaluate identifier %s", n.Name)
	case *ast.UnaryExpr:
		if n.Op == token.AND && rt.Kind() == reflect.Pointer {
			v, err := e.eval(n.X, rt.Elem())
			if err != nil {
				return out, err
			}
			p := reflect.New(rt.Elem())
			p.Elem().Set(v)
			return p, nil
		}
		return out, fmt.Errorf("cannot evaluate unary %s for %s", n.Op, rt)
	case *ast.CallExpr:
		// func(v K) *K { return &v }(arg)
		if fl, ok := n.Fun.(*ast.FuncLit); ok && len(n.Args) == 1 && rt.Kind() == reflect.Pointer && fl.Type.Params != nil && len(fl.Type.Params.List) == 1 {
			v, err := e.eval(n.Args[0], rt.Elem())
			if err != nil {
				return out, err
			}
			p := reflect.New(rt.Elem())
			p.Elem().Set(v)
			return p, nil
		}
		// conversion T(x)
		if len(n.Args) == 1 {
			if tv, ok := e.info.Types[n.Fun]; ok && tv.IsType() {
				return e.eval(n.Args[0], rt)
			}
		}
		return out, fmt.Errorf("cannot evaluate call expression for %s", rt)
	case *ast.CompositeLit:
		switch rt.Kind() {
		case reflect.Struct:
			for _, el := range n.Elts {
				kv, ok := el.(*ast.KeyValueExpr)
				if !ok {
					return out, fmt.Errorf("positional struct literal")
				}
				name := kv.Key.(*ast.Ident).Name
				sf, ok := rt.FieldByName(name)
				if !ok {
					return out, fmt.Errorf("no field %s in %s", name, rt)
				}
				v, err := e.eval(kv.Value, sf.Type)
				if err != nil {
					return out, err
				}
				out.FieldByIndex(sf.Index).Set(v)
			}
			return out, nil
		case reflect.Slice:
			s := reflect.MakeSlice(rt, 0, len(n.Elts))
			for _, el := range n.Elts {
				if _, isKV := el.(*ast.KeyValueExpr); isKV {
					return out, fmt.Errorf("keyed slice literal")
				}
				v, err := e.eval(el, rt.Elem())
				if err != nil {
					return out, err
				}
				s = reflect.Append(s, v)
			}
			return s, nil
		case reflect.Array:
			for i, el := range n.Elts {
				if _, isKV := el.(*ast.KeyValueExpr); isKV {
					return out, fmt.Errorf("keyed array literal")
				}
				if i >= rt.Len() {
					return out, fmt.Errorf("too many array elements")
				}
				v, err := e.eval(el, rt.Elem())
				if err != nil {
					return out, err
				}
				out.Index(i).Set(v)
			}
			return out, nil
		case reflect.Map:
			m := reflect.MakeMap(rt)
			for _, el := range n.Elts {
				kv, ok := el.(*ast.KeyValueExpr)
				if !ok {
					return out, fmt.Errorf("map literal without key")
				}
				k, err := e.eval(kv.Key, rt.Key())
				if err != nil {
					return out, err
				}
				v, err := e.eval(kv.Value, rt.Elem())
				if err != nil {
					return out, err
				}
				m.SetMapIndex(k, v)
			}
			return m, nil
		}
		return out, fmt.Errorf("composite literal for kind %s", rt.Kind())
	}
	return out, fmt.Errorf("cannot evaluate %T for %s", x, rt)
}

func constTo(c constant.Value, rt reflect.Type) (reflect.Value, error) {
	out := reflect.New(rt).Elem()
	switch rt.Kind() {
	case reflect.Bool:
		if c.Kind() != constant.Bool {
			return out, fmt.Errorf("constant %s for bool", c)
		}
		out.SetBool(constant.BoolVal(c))
	case reflect.Int, reflect.Int8, reflect.Int16, reflect.Int32, reflect.Int64:
		i, ok := constant.Int64Val(constant.ToInt(c))
		if !ok {
			return out, fmt.Errorf("constant %s does not fit int64", c)
		}
		if out.OverflowInt(i) {
			return out, fmt.Errorf("constant %s overflows %s", c, rt)
		}
		out.SetInt(i)
	case reflect.Uint, reflect.Uint8, reflect.Uint16, reflect.Uint32, reflect.Uint64, reflect.Uintptr:
		u, ok := constant.Uint64Val(constant.ToInt(c))
		if !ok {
			return out, fmt.Errorf("constant %s does not fit uint64", c)
		}
		if out.OverflowUint(u) {
			return out, fmt.Errorf("constant %s overflows %s", c, rt)
		}
		out.SetUint(u)
	case reflect.Float32:
		f, _ := constant.Float32Val(constant.ToFloat(c))
		out.SetFloat(float64(f))
	case reflect.Float64:
		f, _ := constant.Float64Val(constant.ToFloat(c))
		out.SetFloat(f)
	case reflect.String:
		if c.Kind() != constant.String {
			return out, fmt.Errorf("constant %s for string", c)
		}
		out.SetString(constant.StringVal(c))
	case reflect.Slice:
		// []byte("text") and conversions to defined byte-slice types
		if c.Kind() == constant.String && rt.Elem().Kind() == reflect.Uint8 {
			b := []byte(constant.StringVal(c))
			out.Set(reflect.MakeSlice(rt, len(b), len(b)))
			for i := range b {
				out.Index(i).SetUint(uint64(b[i]))
			}
			return out, nil
		}
		return out, fmt.Errorf("constant %s for kind %s", c, rt.Kind())
	default:
		return out, fmt.Errorf("constant %s for kind %s", c, rt.Kind())
	}
	return out, nil
}

// same compares two values deeply; nil and empty slices/maps are identified.
func same(a, b reflect.Value, path string) error {
	if a.Kind() != b.Kind() {
		return fmt.Errorf("%s: kinds differ", path)
	}
	switch a.Kind() {
	case reflect.Pointer:
		if a.IsNil() != b.IsNil() {
			return fmt.Errorf("%s: nil-ness of the pointer differs (original nil=%v)", path, a.IsNil())
		}
		if a.IsNil() {
			return nil
		}
		return same(a.Elem(), b.Elem(), path+".*")
	case reflect.Slice, reflect.Array:
		if a.Len() != b.Len() {
			return fmt.Errorf("%s: length %d vs %d", path, a.Len(), b.Len())
		}
		for i := 0; i < a.Len(); i++ {
			if err := same(a.Index(i), b.Index(i), fmt.Sprintf("%s[%d]", path, i)); err != nil {
				return err
			}
		}
		return nil
	case reflect.Map:
		if a.Len() != b.Len() {
			return fmt.Errorf("%s: %d vs %d map entries", path, a.Len(), b.Len())
		}
		for _, k := range a.MapKeys() {
			bv := b.MapIndex(k)
			if !bv.IsValid() {
				return fmt.Errorf("%s: key %v missing", path, k)
			}
			if err := same(a.MapIndex(k), bv, fmt.Sprintf("%s[%v]", path, k)); err != nil {
				return err
			}
		}
		return nil
	case reflect.Struct:
		for i := 0; i < a.NumField(); i++ {
			if err := same(a.Field(i), b.Field(i), path+"."+a.Type().Field(i).Name); err != nil {
				return err
			}
		}
		return nil
	case reflect.Float32, reflect.Float64:
		if a.Float() != b.Float() {
			return fmt.Errorf("%s: %v vs %v", path, a.Float(), b.Float())
		}
		return nil
	default:
		if !a.Equal(b) {
			return fmt.Errorf("%s: %#v vs %#v", path, a.Interface(), b.Interface())
		}
		return nil
	}
}

func renderValue(c c10Case, rv reflect.Value, targetPath string) (string, namer.ImportTracker, error) {
	return renderSnippet(c, valueSnippet(c, rv), targetPath)
}

func valueSnippet(c c10Case, rv reflect.Value) snippet.Snippet {
	if c.Via == "format" {
		return snippet.Sprintf("%v", rv.Interface())
	}
	return snippet.Value(rv.Interface())
}

// renderSnippet renders sn through a fresh writer (own tracker) whose file belongs to targetPath.
func renderSnippet(c c10Case, sn snippet.Snippet, targetPath string) (string, namer.ImportTracker, error) {
	tracker := namer.NewDefaultImportTracker()
	if c.Target == "clash" {
		for _, p := range clashSeeds {
			tracker.AddType(gengotypes.Ref(p, "Seed"))
		}
	}
	buf := &bytes.Buffer{}
	w := gengo.NewSnippetWriter(buf, namer.NameSystems{"raw": namer.NewRawNamer(targetPath, tracker)})
	if p := ev.Panics(func() { w.Render(sn) }); p != nil {
		return "", nil, fmt.Errorf("rendering a %s panics: %v", c.T.key(), p)
	}
	return buf.String(), tracker, nil
}

func oracleC10(c c10Case) error {
	f := loadFixtures()
	rt, ok := c.T.toReflect()
	if !ok {
		panic("harness: value type without reflect form")
	}
	orig := build(rt, c.V)
	targetPath := "example.com/probe/target"
	if strings.HasPrefix(c.Target, "own:") {
		targetPath = fxPaths[strings.TrimPrefix(c.Target, "own:")]
	}
	text, tracker, err := renderValue(c, orig, targetPath)
	if err != nil {
		return fmt.Errorf("%w (value %#v)", err, orig.Interface())
	}
	// deterministic text (map iteration order is random per rendering: several renderings)
	for round := 0; round < 4; round++ {
		text2, _, err := renderValue(c, orig, targetPath)
		if err != nil || text2 != text {
			return fmt.Errorf("a %s renders as %q and then as %q (%v)", c.T.key(), text, text2, err)
		}
	}
	// one snippet value rendered into two files: the second file (this target) must get the same text and imports as from a fresh snippet
	{
		shared := valueSnippet(c, orig)
		firstTarget := "example.com/probe/first"
		for _, k := range []string{"alpha", "beta", "gamma", "left", "delta"} {
			if mentions(c.T, k) && fxPaths[k] != targetPath {
				firstTarget = fxPaths[k] // the first file lies in a package the value mentions: its types are local there
				break
			}
		}
		if _, _, err := renderSnippet(c, shared, firstTarget); err != nil {
			return err
		}
		text3, tracker3, err := renderSnippet(c, shared, targetPath)
		if err != nil {
			return err
		}
		if text3 != text || !reflect.DeepEqual(tracker3.Imports(), tracker.Imports()) {
			return fmt.Errorf("a %s snippet rendered into a file of %s after it was rendered into a file of %s gives %q with imports %v; a fresh snippet gives %q with imports %v",
				c.T.key(), targetPath, firstTarget, text3, tracker3.Imports(), text, tracker.Imports())
		}
	}
	// probe: package <target>, the tracker's imports, the harness's own aliases, var V <T> = <literal>
	ownPkg := ""
	if strings.HasPrefix(c.Target, "own:") {
		ownPkg = strings.TrimPrefix(c.Target, "own:")
	}
	qual := func(pkg string) string {
		if pkg == ownPkg {
			return ""
		}
		return fxAlias[pkg] + "."
	}
	var b strings.Builder
	pkgName := "target"
	if ownPkg != "" {
		pkgName = f.pkgs[targetPath].Name()
	}
	fmt.Fprintf(&b, "package %s\n\nimport (\n", pkgName)
	imports := tracker.Imports()
	paths := make([]string, 0, len(imports))
	for p := range imports {
		paths = append(paths, p)
	}
	sort.Strings(paths)
	fixture := map[string]bool{}
	for _, p := range fxPaths {
		fixture[p] = true
	}
	for _, p := range paths {
		if fixture[p] {
			fmt.Fprintf(&b, "\t%s %q\n", imports[p], p)
		}
	}
	for k, p := range fxPaths {
		if k != ownPkg {
			fmt.Fprintf(&b, "\t%s %q\n", fxAlias[k], p)
		}
	}
	fmt.Fprintf(&b, ")\n\nvar ProbeV %s = %s\n", c.T.spell(qual), text)
	fset := f.fset
	pf, err := parser.ParseFile(fset, fmt.Sprintf("probe_%p.go", &b), b.String(), 0)
	if err != nil {
		return fmt.Errorf("a %s (value %#v) renders as %q, which does not parse: %v", c.T.key(), orig.Interface(), text, err)
	}
	files := []*ast.File{pf}
	if ownPkg != "" {
		files = append(append([]*ast.File{}, f.files[targetPath]...), pf)
	}
	info := &types.Info{Types: map[ast.Expr]types.TypeAndValue{}}
	var terrs []string
	conf := types.Config{Importer: mapImporter(f.pkgs), Error: func(err error) {
		if !(strings.Contains(err.Error(), "not used") && strings.Contains(err.Error(), "hx_")) {
			terrs = append(terrs, err.Error())
		}
	}}
	_, _ = conf.Check(targetPath, fset, files, info)
	if len(terrs) > 0 {
		return fmt.Errorf("a %s (value %#v) renders as %q, which does not compile as `var V %s = ...` with the registered imports %v: %s", c.T.key(), orig.Interface(), text, c.T.spell(qual), imports, terrs[0])
	}
	// find the initialiser expression
	var init ast.Expr
	for _, d := range pf.Decls {
		if gd, ok := d.(*ast.GenDecl); ok && gd.Tok == token.VAR {
			init = gd.Specs[0].(*ast.ValueSpec).Values[0]
		}
	}
	e := &evaluator{info: info}
	got, err := e.eval(init, rt)
	if err != nil {
		panic(fmt.Sprintf("harness: cannot evaluate the literal %q: %v", text, err))
	}
	if err := same(orig, got, "V"); err != nil {
		return fmt.Errorf("a %s (value %#v) renders as %q, which evaluates to a different value: %v", c.T.key(), orig.Interface(), text, err)
	}
	return nil
}

func c10Features(c c10Case) []string {
	fs := map[string]bool{}
	rt, _ := c.T.toReflect()
	var walk func(rt reflect.Type, v *vn, inStruct bool)
	walk = func(rt reflect.Type, v *vn, inStruct bool) {
		if v == nil {
			return
		}
		switch rt.Kind() {
		case reflect.Pointer:
			if v.Nil {
				fs["nil-pointer"] = true
				return
			}
			fs["pointer"] = true
			switch rt.Elem().Kind() {
			case reflect.Struct:
				fs["pointer-to-struct"] = true
			case reflect.Slice, reflect.Map, reflect.Array:
				fs["pointer-to-container"] = true
			default:
				if rt.Elem().PkgPath() != "" {
					fs["pointer-to-named-scalar"] = true
				} else {
					fs["pointer-to-scalar"] = true
				}
			}
			walk(rt.Elem(), v.Ptr, false)
		case reflect.Slice, reflect.Array:
			for _, e := range v.Elems {
				walk(rt.Elem(), e, false)
			}
		case reflect.Map:
			if len(v.Keys) >= 2 {
				fs["map-2+-keys"] = true
			}
			if rt.Key().Kind() != reflect.String {
				fs["non-string-map-key"] = true
			}
			for i := range v.Keys {
				walk(rt.Key(), v.Keys[i], false)
				walk(rt.Elem(), v.Elems[i], false)
			}
		case reflect.Struct:
			if inStruct {
				fs["nested-struct"] = true
			}
			for i := 0; i < rt.NumField() && i < len(v.Elems); i++ {
				walk(rt.Field(i).Type, v.Elems[i], true)
			}
		case reflect.String:
			s := string(v.S)
			if strings.ContainsAny(s, "\"`\n\\\x00") || !strings.EqualFold(s, strings.ToValidUTF8(s, "")) {
				fs["string-needs-escapes"] = true
			}
		case reflect.Float32, reflect.Float64:
			fs["float"] = true
		}
		if rt.PkgPath() != "" && rt.Kind() != reflect.Struct && rt.Kind() != reflect.Slice && rt.Kind() != reflect.Map && rt.Kind() != reflect.Array {
			fs["named-scalar"] = true
		}
	}
	if rt != nil {
		walk(rt, c.V, false)
	}
	fs["target-"+strings.SplitN(c.Target, ":", 2)[0]] = true
	out := make([]string, 0, len(fs))
	for k := range fs {
		out = append(out, k)
	}
	sort.Strings(out)
	return out
}

func c10NonTrivial(c c10Case) bool {
	for _, f := range c10Features(c) {
		switch f {
		case "pointer", "map-2+-keys", "nested-struct", "named-scalar", "string-needs-escapes":
			return true
		}
	}
	return false
}

// ---- compiler cross-check: batches of literals compiled and run by the real toolchain ----

//go:embed dumpval/dump.go
var dumpSource string

type c10Batch struct {
	Cases []c10Case `json:"cases"`
}

func genC10Batch(t *rapid.T) c10Batch {
	var b c10Batch
	n := rapid.IntRange(40, 120).Draw(t, "batchsize")
	for i := 0; i < n; i++ {
		c := genC10(t)
		// the program lives in its own package: own-package targets are covered by the in-process sub
		if strings.HasPrefix(c.Target, "own:") {
			c.Target = "other"
		}
		b.Cases = append(b.Cases, c)
	}
	return b
}

func copyTree(src, dst string) error {
	return filepath.Walk(src, func(p string, info os.FileInfo, err error) error {
		if err != nil {
			return err
		}
		rel, _ := filepath.Rel(src, p)
		if info.IsDir() {
			return os.MkdirAll(filepath.Join(dst, rel), 0o755)
		}
		b, err := os.ReadFile(p)
		if err != nil {
			return err
		}
		return os.WriteFile(filepath.Join(dst, rel), b, 0o644)
	})
}

func oracleC10Batch(b c10Batch) error {
	dir, err := os.MkdirTemp("", "vtc10")
	if err != nil {
		panic("harness: " + err.Error())
	}
	defer os.RemoveAll(dir)
	// a module named vt with the fixture packages copied in (they are internal to module vt)
	if err := os.WriteFile(filepath.Join(dir, "go.mod"), []byte("module vt\n\ngo 1.24\n"), 0o644); err != nil {
		panic("harness: " + err.Error())
	}
	if err := copyTree(filepath.Join(ev.Root(), "harness", "internal", "fx"), filepath.Join(dir, "internal", "fx")); err != nil {
		panic("harness: " + err.Error())
	}
	_ = os.MkdirAll(filepath.Join(dir, "internal", "dumpval"), 0o755)
	if err := os.WriteFile(filepath.Join(dir, "internal", "dumpval", "dump.go"), []byte(dumpSource), 0o644); err != nil {
		panic("harness: " + err.Error())
	}
	var prog strings.Builder
	prog.WriteString("package main\n\nimport (\n\t\"fmt\"\n\t\"reflect\"\n\n\t\"vt/internal/dumpval\"\n")
	for k, p := range fxPaths {
		fmt.Fprintf(&prog, "\t%s %q\n", fxAlias[k], p)
	}
	// every case renders with its own tracker; import names are made unique per case by a prefix
	var decls strings.Builder
	var mainBody strings.Builder
	want := make([]string, len(b.Cases))
	for i, c := range b.Cases {
		rt, ok := c.T.toReflect()
		if !ok {
			panic("harness: value type without reflect form")
		}
		orig := build(rt, c.V)
		want[i] = dumpval.Dump(orig)
		text, tracker, err := renderValue(c, orig, "example.com/probe/target")
		if err != nil {
			return fmt.Errorf("case %d: %w", i, err)
		}
		// rewrite the tracker's import names to per-case unique aliases
		imports := tracker.Imports()
		paths := make([]string, 0, len(imports))
		for p := range imports {
			paths = append(paths, p)
		}
		sort.Slice(paths, func(x, y int) bool { return len(imports[paths[x]]) > len(imports[paths[y]]) })
		for _, p := range paths {
			if _, isFx := func() map[string]bool {
				m := map[string]bool{}
				for _, fp := range fxPaths {
					m[fp] = true
				}
				return m
			}()[p]; !isFx {
				continue
			}
			alias := fmt.Sprintf("c%d_%s", i, imports[p])
			fmt.Fprintf(&prog, "\t%s %q\n", alias, p)
			text = qualifierRe(imports[p]).ReplaceAllString(text, "${1}"+alias+".")
		}
		fmt.Fprintf(&decls, "var v%d %s = %s\n\n", i, c.T.spell(aliasQual), text)
		fmt.Fprintf(&mainBody, "\tfmt.Println(%d, dumpval.Dump(reflect.ValueOf(&v%d).Elem()))\n", i, i)
	}
	prog.WriteString(")\n\nvar _ = reflect.ValueOf\n\nvar (\n")
	for k := range fxPaths {
		fmt.Fprintf(&prog, "\t_ %s.%s\n", fxAlias[k], fxRep[k])
	}
	prog.WriteString(")\n\n")
	prog.WriteString(decls.String())
	prog.WriteString("func main() {\n" + mainBody.String() + "}\n")
	_ = os.MkdirAll(filepath.Join(dir, "cmd", "probe"), 0o755)
	if err := os.WriteFile(filepath.Join(dir, "cmd", "probe", "main.go"), []byte(prog.String()), 0o644); err != nil {
		panic("harness: " + err.Error())
	}
	cmd := exec.Command("go", "run", "./cmd/probe")
	cmd.Dir = dir
	out, err := cmd.CombinedOutput()
	if err != nil {
		o := string(out)
		if strings.Contains(o, "imported and not used") && !strings.Contains(o, "cannot use") {
			panic("harness: unused import in the generated program: " + clipS(o, 800))
		}
		// find the first case named by a compiler error (v<i> or the line of its declaration)
		return fmt.Errorf("the Go compiler rejects a program made of %d rendered literals: %s", len(b.Cases), clipS(o, 1500))
	}
	lines := strings.Split(strings.TrimSpace(string(out)), "\n")
	if len(lines) != len(b.Cases) {
		panic(fmt.Sprintf("harness: program printed %d lines for %d cases", len(lines), len(b.Cases)))
	}
	for i, l := range lines {
		got := strings.TrimPrefix(l, fmt.Sprintf("%d ", i))
		if got != want[i] {
			return fmt.Errorf("case %d (a %s): compiled and run, the literal evaluates to %s, the original is %s", i, b.Cases[i].T.key(), clipS(got, 600), clipS(want[i], 600))
		}
	}
	return nil
}

func qualifierRe(name string) *regexp.Regexp {
	return regexp.MustCompile(`(^|[^A-Za-z0-9_.])` + regexp.QuoteMeta(name) + `\.`)
}

func clipS(s string, n int) string {
	if len(s) > n {
		return s[:n] + "...(clipped)"
	}
	return s
}

func TestC10(t *testing.T) {
	r := ev.Begin(t, ev.Meta{
		ID:    "C10",
		Level: "exploration",
		Rule: "values of types from a grammar (depth <= 4) over all predeclared bool/integer/uintptr/float/string types, named versions of them, named slices/maps/arrays/" +
			"structs of three fixture packages (nested structs, embedded struct, pointer fields to scalar / named scalar / struct, maps of structs), 13 pre-instantiated " +
			"generics, single-level pointers, slices, arrays, maps with string/int/bool/float/rune/named/struct/array keys and anonymous structs; leaves are edge-biased " +
			"(min/max integers, +-0, subnormals, max float, 1e21, strings with quotes, backquotes, newlines, NUL, invalid UTF-8, runes incl. quote, backslash, surrogate), " +
			"a fifth of the structs are all-zero, pointers/slices/maps are sometimes nil; the literal rendered by snippet.Value or %v for another package, the type's own " +
			"package or a tracker with clashing names is type-checked as `var V <T as spelled by the harness> = <literal>` with the registered imports and evaluated by an " +
			"AST evaluator (constants through go/constant) to a value that must be deeply equal (nil == empty); non-trivial = pointer | map with >=2 keys | nested struct | " +
			"named scalar | string needing escapes; distinct by JSON encoding",
		Assumptions: []string{
			"the literal is evaluated in-process by a harness evaluator over go/types information, not by compiling it",
			"non-finite floats, complex numbers, interfaces, channels and funcs are outside the domain",
		},
	})
	defer r.Finish()
	ev.Search(r, ev.Sub[c10Case]{
		Name: "values", Gen: genC10, Oracle: oracleC10, NonTrivial: c10NonTrivial, Classes: c10Features,
		Budget: ev.Budget{Quick: 15000, Thorough: 150000}, MinNonTrivial: 0.3,
	})
	// the real compiler as second judge (also validates the in-process evaluator): one batch in quick, several in thorough
	ev.Search(r, ev.Sub[c10Batch]{
		Name: "compiled", Gen: genC10Batch, Oracle: oracleC10Batch,
		NonTrivial: func(b c10Batch) bool { return len(b.Cases) >= 40 },
		Budget:     ev.Budget{Quick: 1, Thorough: 6}, ShrinkTime: 60e9,
	})
}

// FuzzC10 lets the coverage-guided fuzzer drive the value generator.
func FuzzC10(f *testing.F) {
	f.Fuzz(rapid.MakeFuzz(ev.FuzzProp("C10", ev.Sub[c10Case]{Name: "values", Gen: genC10, Oracle: oracleC10})))
}
