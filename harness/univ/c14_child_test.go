package univ

import (
	"bufio"
	"encoding/json"
	"fmt"
	"go/constant"
	"go/token"
	"go/types"
	"os"
	"os/exec"
	"runtime/debug"
	"sort"
	"strings"
	"time"

	gengotypes "github.com/octohelm/gengo/pkg/types"

	"vt/internal/ev"
)

// ---- supervised child for C14: ResultsOf is called for every function of a loaded universe in a separate
// process, because unbounded recursion ends in a fatal stack overflow that cannot be recovered in-process ----

type c14Exp struct {
	Kind string `json:"kind"` // int | float | string | bool | nil
	Val  string `json:"val,omitempty"`
}

type c14Job struct {
	Dir      string   `json:"dir"`
	Patterns []string `json:"patterns"`
	Closure  bool     `json:"closure"` // visit every package of the import closure, not only the local ones
	Start    int      `json:"start"`
	// Literal: for literal-only functions "pkgpath.name" -> per result position -> expected alternatives in source order
	Literal map[string][][]c14Exp `json:"literal,omitempty"`
	// Possible: "pkgpath.name" -> per result position -> the only integer constants that can reach that position
	Possible map[string][][]string `json:"possible,omitempty"`
	Progress string                `json:"progress"`
	Out      string                `json:"out"`
}

type c14Line struct {
	Idx     int    `json:"idx"`
	Name    string `json:"name"`
	N       int    `json:"n"`
	HasBody bool   `json:"hasbody"`
	Alts    int    `json:"alts"`
	Err     string `json:"err,omitempty"`
	Done    bool   `json:"done,omitempty"`
	Total   int    `json:"total,omitempty"`
}

const c14ChildEnv = "VT_C14_CHILD"

func childMain() {
	f := os.Getenv(c14ChildEnv)
	if f == "" {
		return
	}
	debug.SetMaxStack(64 << 20)
	b, err := os.ReadFile(f)
	if err != nil {
		fmt.Fprintln(os.Stderr, "child:", err)
		os.Exit(97)
	}
	var job c14Job
	if err := json.Unmarshal(b, &job); err != nil {
		fmt.Fprintln(os.Stderr, "child:", err)
		os.Exit(97)
	}
	u, err := load(job.Dir, job.Patterns...)
	if err != nil {
		fmt.Fprintln(os.Stderr, "child: load:", err)
		os.Exit(97)
	}
	funcs := enumerateFuncs(u, job.Closure)
	prog, err := os.OpenFile(job.Progress, os.O_CREATE|os.O_WRONLY|os.O_APPEND, 0o644)
	if err != nil {
		fmt.Fprintln(os.Stderr, "child:", err)
		os.Exit(97)
	}
	out, err := os.OpenFile(job.Out, os.O_CREATE|os.O_WRONLY|os.O_APPEND, 0o644)
	if err != nil {
		fmt.Fprintln(os.Stderr, "child:", err)
		os.Exit(97)
	}
	w := bufio.NewWriter(out)
	enc := json.NewEncoder(w)
	first := map[int]string{} // the first answer per function, for the sweep after everything was asked once
	for i, fn := range funcs {
		if i < job.Start {
			continue
		}
		name := funcName(fn)
		fmt.Fprintf(prog, "BEGIN %d %s\n", i, name)
		line := c14Line{Idx: i, Name: name, N: fn.Type().(*types.Signature).Results().Len()}
		p := u.Package(fn.Pkg().Path())
		if p == nil {
			line.Err = "Universe.Package is nil for the function's package"
		} else {
			var alts int
			var hasBody bool
			if e := ev.Guard(func() error {
				var err error
				alts, hasBody, err = checkResults(p, fn, job.Literal[name])
				if err == nil {
					err = checkPossible(p, fn, job.Possible[name])
				}
				return err
			}); e != nil {
				line.Err = e.Error()
			}
			line.Alts, line.HasBody = alts, hasBody
			if line.Err == "" {
				_ = ev.Guard(func() error {
					r, n := p.ResultsOf(fn)
					first[i] = fmt.Sprintf("%s (n=%d)", r, n)
					return nil
				})
			}
		}
		_ = enc.Encode(line)
		w.Flush() // a crash in the next call must not lose this line
	}
	// "the answer is the same on every call": ask again after every function of every package has been asked (what other
	// packages were asked in between must not matter)
	for i, fn := range funcs {
		was, ok := first[i]
		if !ok {
			continue
		}
		name := funcName(fn)
		fmt.Fprintf(prog, "BEGIN %d %s\n", i, name)
		p := u.Package(fn.Pkg().Path())
		if e := ev.Guard(func() error {
			r, n := p.ResultsOf(fn)
			if now := fmt.Sprintf("%s (n=%d)", r, n); now != was {
				return fmt.Errorf("asked again after all other functions were asked, ResultsOf answers %s; the first answer was %s", now, was)
			}
			return nil
		}); e != nil {
			_ = enc.Encode(c14Line{Idx: i, Name: name, N: fn.Type().(*types.Signature).Results().Len(), Err: e.Error()})
			w.Flush()
		}
	}
	// ... and whatever was asked before: a fresh universe of the same packages, asked in the opposite order, gives the same answers
	if job.Start == 0 {
		fmt.Fprintf(prog, "BEGIN %d %s\n", len(funcs), "(second universe)")
		u2, err := load(job.Dir, job.Patterns...)
		if err != nil {
			fmt.Fprintln(os.Stderr, "child: second load:", err)
			os.Exit(97)
		}
		funcs2 := enumerateFuncs(u2, job.Closure)
		if len(funcs2) == len(funcs) {
			for i := len(funcs2) - 1; i >= 0; i-- {
				was, ok := first[i]
				fn := funcs2[i]
				if !ok || funcName(fn) != funcName(funcs[i]) {
					continue
				}
				name := funcName(fn)
				fmt.Fprintf(prog, "BEGIN %d %s\n", i, name)
				p := u2.Package(fn.Pkg().Path())
				if e := ev.Guard(func() error {
					r, n := p.ResultsOf(fn)
					if now := fmt.Sprintf("%s (n=%d)", r, n); now != was {
						return fmt.Errorf("a fresh universe asked in the opposite order answers %s; the first universe (asked in order) answered %s", now, was)
					}
					return nil
				}); e != nil {
					_ = enc.Encode(c14Line{Idx: i, Name: name, N: fn.Type().(*types.Signature).Results().Len(), Err: e.Error()})
					w.Flush()
				}
			}
		}
	}
	_ = enc.Encode(c14Line{Done: true, Total: len(funcs)})
	w.Flush()
	out.Close()
	os.Exit(0)
}

func funcName(fn *types.Func) string {
	sig := fn.Type().(*types.Signature)
	if r := sig.Recv(); r != nil {
		return fmt.Sprintf("%s.(%s).%s", fn.Pkg().Path(), types.TypeString(r.Type(), func(*types.Package) string { return "" }), fn.Name())
	}
	return fn.Pkg().Path() + "." + fn.Name()
}

// enumerateFuncs lists functions, methods and interface methods of the local packages (or the whole closure) in a fixed order.
func enumerateFuncs(u *gengotypes.Universe, closure bool) []*types.Func {
	var roots []string
	for pp := range u.LocalPkgPaths() {
		roots = append(roots, pp)
	}
	sort.Strings(roots)
	var pkgs []gengotypes.Package
	if closure {
		_, err := walkUniverse(u, roots, func(p gengotypes.Package) error { pkgs = append(pkgs, p); return nil })
		if err != nil {
			fmt.Fprintln(os.Stderr, "child:", err)
			os.Exit(97)
		}
	} else {
		for _, r := range roots {
			pkgs = append(pkgs, u.Package(r))
		}
	}
	sort.Slice(pkgs, func(i, j int) bool { return pkgs[i].Pkg().Path() < pkgs[j].Pkg().Path() })
	var out []*types.Func
	for _, p := range pkgs {
		scope := p.Pkg().Scope()
		for _, n := range scope.Names() {
			switch o := scope.Lookup(n).(type) {
			case *types.Func:
				out = append(out, o)
			case *types.TypeName:
				if o.IsAlias() {
					continue
				}
				named, ok := o.Type().(*types.Named)
				if !ok {
					continue
				}
				for i := 0; i < named.NumMethods(); i++ {
					out = append(out, named.Method(i))
				}
				if it, ok := named.Underlying().(*types.Interface); ok {
					for i := 0; i < it.NumExplicitMethods(); i++ {
						out = append(out, it.ExplicitMethod(i))
					}
				}
			}
		}
	}
	return out
}

func nilable(t types.Type) bool {
	switch u := t.Underlying().(type) {
	case *types.Pointer, *types.Slice, *types.Map, *types.Chan, *types.Signature, *types.Interface:
		return true
	case *types.Basic:
		return u.Kind() == types.UnsafePointer || u.Kind() == types.UntypedNil
	}
	if _, ok := t.(*types.TypeParam); ok {
		return true
	}
	return false
}

// checkResults is the oracle for one function.
// constantFits: can a constant of this kind be a value of the declared result type at all (kind against the type's underlying
// basic kind; interfaces and type parameters take any constant; ranges are not checked)
func constantFits(v constant.Value, want types.Type) bool {
	u := want.Underlying()
	if _, ok := u.(*types.Interface); ok {
		return true
	}
	b, ok := u.(*types.Basic)
	if !ok {
		return false
	}
	switch v.Kind() {
	case constant.Bool:
		return b.Info()&types.IsBoolean != 0
	case constant.String:
		return b.Info()&types.IsString != 0
	case constant.Int:
		return b.Info()&types.IsNumeric != 0
	case constant.Float:
		return b.Info()&(types.IsFloat|types.IsComplex) != 0 || (b.Info()&types.IsInteger != 0 && constant.ToInt(v).Kind() == constant.Int)
	case constant.Complex:
		return b.Info()&types.IsComplex != 0 || (b.Info()&types.IsNumeric != 0 && constant.ToFloat(v).Kind() == constant.Float)
	}
	return true
}

func checkResults(p gengotypes.Package, fn *types.Func, literal [][]c14Exp) (alts int, hasBody bool, err error) {
	sig := fn.Type().(*types.Signature)
	declared := sig.Results()
	results, n := p.ResultsOf(fn)
	if n != declared.Len() {
		return 0, false, fmt.Errorf("ResultsOf reports %d results, the function declares %d", n, declared.Len())
	}
	if declared.Len() == 0 {
		return 0, true, nil
	}
	if len(results) != declared.Len() {
		return 0, false, fmt.Errorf("ResultsOf returns %d lists for %d declared results: %s", len(results), declared.Len(), results)
	}
	for i, list := range results {
		if len(list) == 0 {
			return alts, false, fmt.Errorf("result %d has no alternative at all: %s", i, results)
		}
		want := declared.At(i).Type()
		for _, r := range list {
			alts++
			if r.Expr != nil {
				hasBody = true
			}
			if r.Value != nil {
				if r.Value.Kind() == constant.Unknown {
					return alts, hasBody, fmt.Errorf("result %d: alternative has an unknown constant value: %s", i, results)
				}
				if !constantFits(r.Value, want) {
					return alts, hasBody, fmt.Errorf("result %d (declared %s): the constant alternative %s cannot be a value of that type: %s", i, want, r.Value, results)
				}
				continue
			}
			if r.Type == nil {
				return alts, hasBody, fmt.Errorf("result %d: alternative with neither a value nor a type: %s", i, results)
			}
			if b, ok := r.Type.(*types.Basic); ok {
				if b.Kind() == types.Invalid {
					return alts, hasBody, fmt.Errorf("result %d: alternative has the invalid type: %s", i, results)
				}
				if b.Kind() == types.UntypedNil {
					if !nilable(want) {
						return alts, hasBody, fmt.Errorf("result %d: alternative nil is not assignable to %s", i, want)
					}
					continue
				}
			}
			if !types.AssignableTo(r.Type, want) {
				return alts, hasBody, fmt.Errorf("result %d (declared %s): alternative of type %s is not assignable to it: %s", i, want, r.Type, results)
			}
		}
	}
	// the answer is the same on every call
	again, n2 := p.ResultsOf(fn)
	if n2 != n || again.String() != results.String() {
		return alts, hasBody, fmt.Errorf("second call answers %s (n=%d), first call %s (n=%d)", again, n2, results, n)
	}
	// literal-only functions: exactly the listed values in source order
	if literal != nil {
		if len(literal) != len(results) {
			return alts, hasBody, fmt.Errorf("harness: expectation has %d positions, function %d", len(literal), len(results))
		}
		for i := range literal {
			if len(results[i]) != len(literal[i]) {
				return alts, hasBody, fmt.Errorf("literal-only function, result %d: %d alternatives %s, the return statements list %d values %v", i, len(results[i]), results[i], len(literal[i]), literal[i])
			}
			for j, exp := range literal[i] {
				got := results[i][j]
				if exp.Kind == "nil" {
					if got.Value != nil {
						return alts, hasBody, fmt.Errorf("literal-only function, result %d alternative %d: got value %s, want nil", i, j, got.Value)
					}
					if b, ok := got.Type.(*types.Basic); !ok || b.Kind() != types.UntypedNil {
						// a typed nil of the declared type is as good
						if got.Type == nil || !nilable(got.Type) {
							return alts, hasBody, fmt.Errorf("literal-only function, result %d alternative %d: got %s, want nil", i, j, got)
						}
					}
					continue
				}
				var want constant.Value
				switch exp.Kind {
				case "int":
					want = constant.MakeFromLiteral(exp.Val, token.INT, 0)
				case "float":
					want = constant.MakeFromLiteral(exp.Val, token.FLOAT, 0)
				case "string":
					want = constant.MakeString(exp.Val)
				case "bool":
					want = constant.MakeBool(exp.Val == "true")
				}
				if got.Value == nil || got.Value.Kind() == constant.Unknown {
					return alts, hasBody, fmt.Errorf("literal-only function, result %d alternative %d: got %s, want the constant %s", i, j, got, want)
				}
				gv := got.Value
				if want.Kind() == constant.Float || gv.Kind() == constant.Float {
					gv, want = constant.ToFloat(gv), constant.ToFloat(want)
				}
				if gv.Kind() != want.Kind() || !constant.Compare(gv, token.EQL, want) {
					return alts, hasBody, fmt.Errorf("literal-only function, result %d alternative %d: got %s, want %s (all: %s)", i, j, got.Value, want, results[i])
				}
			}
		}
	}
	return alts, hasBody, nil
}

// checkPossible: every constant alternative must be one of the constants that can reach the position.
func checkPossible(p gengotypes.Package, fn *types.Func, possible [][]string) error {
	if possible == nil {
		return nil
	}
	results, _ := p.ResultsOf(fn)
	if len(results) != len(possible) {
		return fmt.Errorf("harness: possible-set expectation has %d positions, function %d", len(possible), len(results))
	}
	for i, list := range results {
		for _, r := range list {
			if r.Value == nil {
				continue
			}
			ok := false
			for _, v := range possible[i] {
				if r.Value.ExactString() == v {
					ok = true
				}
			}
			if !ok {
				return fmt.Errorf("result %d: the constant %s is reported, but only %v can ever reach that position (all results: %s)", i, r.Value.ExactString(), possible[i], results)
			}
		}
	}
	return nil
}

type c14Crash struct {
	Idx    int
	Name   string
	Stderr string
	Exit   int
}

// superviseC14 runs the child until all functions are visited. It returns the per-function lines, the crashes and a harness error.
func superviseC14(job c14Job, scratch string, limit time.Duration, maxCrashes int) (lines []c14Line, crashes []c14Crash, total int, err error) {
	job.Progress = scratch + "/progress"
	job.Out = scratch + "/out"
	jobFile := scratch + "/job.json"
	for {
		_ = os.Remove(job.Progress)
		_ = os.Remove(job.Out)
		b, _ := json.Marshal(job)
		if e := os.WriteFile(jobFile, b, 0o644); e != nil {
			return nil, nil, 0, e
		}
		cmd := exec.Command(os.Args[0], "-test.run", "^$")
		cmd.Env = append(os.Environ(), c14ChildEnv+"="+jobFile, "VT_OUT=")
		var eb strings.Builder
		cmd.Stderr = &limitedWriter{b: &eb, max: 6000}
		if e := cmd.Start(); e != nil {
			return nil, nil, 0, e
		}
		done := make(chan error, 1)
		go func() { done <- cmd.Wait() }()
		var werr error
		timedOut := false
		select {
		case werr = <-done:
		case <-time.After(limit):
			_ = cmd.Process.Kill()
			<-done
			timedOut = true
		}
		// collect what the child managed to write
		finished := false
		if ob, e := os.ReadFile(job.Out); e == nil {
			sc := bufio.NewScanner(strings.NewReader(string(ob)))
			sc.Buffer(make([]byte, 1<<20), 1<<24)
			for sc.Scan() {
				var l c14Line
				if json.Unmarshal(sc.Bytes(), &l) != nil {
					continue
				}
				if l.Done {
					finished = true
					total = l.Total
					continue
				}
				lines = append(lines, l)
			}
		}
		if finished && werr == nil {
			return lines, crashes, total, nil
		}
		if timedOut {
			return lines, crashes, total, fmt.Errorf("child exceeded %v (last progress: %s)", limit, lastProgress(job.Progress))
		}
		exit := -1
		if ee, ok := werr.(*exec.ExitError); ok {
			exit = ee.ExitCode()
		}
		if exit == 97 {
			return lines, crashes, total, fmt.Errorf("child role failed: %s", eb.String())
		}
		lp := lastProgress(job.Progress)
		var idx int
		var name string
		if _, e := fmt.Sscanf(lp, "BEGIN %d %s", &idx, &name); e != nil {
			return lines, crashes, total, fmt.Errorf("child died (exit %d) before reporting progress: %s", exit, eb.String())
		}
		crashes = append(crashes, c14Crash{Idx: idx, Name: name, Stderr: firstLines(eb.String(), 6), Exit: exit})
		if len(crashes) >= maxCrashes {
			return lines, crashes, total, nil
		}
		job.Start = idx + 1
	}
}

type limitedWriter struct {
	b   *strings.Builder
	max int
}

func (w *limitedWriter) Write(p []byte) (int, error) {
	if w.b.Len() < w.max {
		k := w.max - w.b.Len()
		if k > len(p) {
			k = len(p)
		}
		w.b.Write(p[:k])
	}
	return len(p), nil
}

func lastProgress(file string) string {
	b, err := os.ReadFile(file)
	if err != nil {
		return ""
	}
	ls := strings.Split(strings.TrimSpace(string(b)), "\n")
	return ls[len(ls)-1]
}

func firstLines(s string, n int) string {
	ls := strings.Split(s, "\n")
	if len(ls) > n {
		ls = ls[:n]
	}
	return strings.Join(ls, "\n")
}
