package univ

func childMain() {}
