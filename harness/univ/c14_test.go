package univ

import (
	"encoding/json"
	"fmt"
	"os"
	"sort"
	"strings"
	"testing"
	"time"

	"pgregory.net/rapid"

	"vt/internal/ev"
	"vt/internal/modspec"
)

// ---- C14: ResultsOf terminates and reports only possible results, one set per result ----

// A generated function: shape decides the signature, Body is a list of statement templates referring to other functions by index.
type c14Func struct {
	Name  string `json:"name"`
	Shape string `json:"shape"` // int | err | terr | anyerr | named | two | lit
	Recv  string `json:"recv,omitempty"`
	Body  string `json:"body"`
	Sig   string `json:"sig"`
	// Lit: expectation for literal-only functions
	Lit [][]c14Exp `json:"lit,omitempty"`
	// Possible: for (a, b int) functions built from constant assignments: the constants that can reach each position
	Possible [][]string `json:"possible,omitempty"`
}

type c14Case struct {
	P        []c14Func `json:"p"`
	Q        []c14Func `json:"q"`
	Features []string  `json:"features"`
}

const c14Prelude = `
type T struct{ V int }

type E struct{ Code int }

func (E) Error() string { return "e" }

type I interface {
	Get() (T, error)
	One() int
	Err() error
}

type Impl struct{}

func (Impl) Get() (T, error) { return T{V: 1}, nil }
func (Impl) One() int        { return 1 }
func (Impl) Err() error      { return E{Code: 2} }

type R struct{}

func cond() bool { return true }
func sel() int   { return 1 }

func with(fn func() error) error { return fn() }

func with2(fn func() (int, error)) error {
	_, err := fn()
	return err
}

func with0(fn func()) error {
	fn()
	return nil
}

func withT(fn func() (T, error)) (T, error) { return fn() }

func withTE(fn func() (T, error)) error {
	_, err := fn()
	return err
}

// package-level variables initialised from one multi-value call
var pkgT, pkgErr = Impl{}.Get()

func firstErr(errs ...error) error {
	for _, e := range errs {
		if e != nil {
			return e
		}
	}
	return nil
}

func withAny(fn func() (int, string, error)) (any, error) {
	a, _, err := fn()
	return a, err
}

// curried calls: the func literal that is finally called is reached through (mutually) recursive constructors
func attempt(n int) func() error {
	if n > 0 {
		return attempt(n - 1)
	}
	return func() error { return E{Code: 7} }
}

func retry() error { return attempt(3)() }

func onEven(n int) func() error {
	if n == 0 {
		return func() error { return nil }
	}
	return onOdd(n - 1)
}

func onOdd(n int) func() error {
	if n == 0 {
		return func() error { return E{Code: 8} }
	}
	return onEven(n - 1)
}

func parity() (any, error) {
	err := onEven(4)()
	return 1, err
}

// one generic struct, two instances in one function, the same field assigned through selectors on both
type Cell[X any] struct {
	Val X
	N   int
}

func label() string {
	var a Cell[string]
	var b Cell[int]
	a.Val = "total"
	b.Val = 3
	return a.Val
}

func count() (int, error) {
	a := Cell[string]{}
	b := &Cell[int]{}
	b.Val = 4
	a.Val = "x"
	b.N, a.N = 5, 6
	return b.Val, nil
}
`

var c14Sigs = map[string]string{
	"int":    "() int",
	"err":    "() error",
	"terr":   "() (T, error)",
	"anyerr": "() (any, error)",
	"named":  "() (v int, err error)",
	"two":    "() (a int, b string)",
	"pair":   "() (a, b int)",
}

type c14Gen struct {
	t     *rapid.T
	funcs []c14Func // signature known up front so that calls can go anywhere (recursion included)
	q     bool      // generating package q (no cross-package calls)
	qfns  []c14Func
	feats map[string]bool
	self  int
}

func (g *c14Gen) call(shape string) (string, bool) {
	var cands []int
	for i, f := range g.funcs {
		if f.Shape == shape {
			cands = append(cands, i)
		}
	}
	if len(cands) == 0 {
		return "", false
	}
	i := cands[rapid.IntRange(0, len(cands)-1).Draw(g.t, "callee")]
	if i == g.self {
		g.feats["self-recursion"] = true
	} else if i < g.self {
		g.feats["call-earlier"] = true
	} else {
		g.feats["call-later-(mutual-recursion-possible)"] = true
	}
	f := g.funcs[i]
	if f.Recv != "" {
		g.feats["method-call"] = true
		if strings.HasPrefix(f.Recv, "*") {
			return "(&R{})." + f.Name + "()", true
		}
		return "R{}." + f.Name + "()", true
	}
	return f.Name + "()", true
}

func (g *c14Gen) qcall(shape string) (string, bool) {
	if g.q {
		return "", false
	}
	for _, f := range g.qfns {
		if f.Shape == shape && f.Recv == "" && rapid.Bool().Draw(g.t, "useq") {
			g.feats["cross-package-call"] = true
			return "q." + f.Name + "()", true
		}
	}
	return "", false
}

func (g *c14Gen) intLit() string {
	return rapid.SampledFrom([]string{"0", "1", "42", "-7"}).Draw(g.t, "int")
}

// ret produces statements that end in a return for the given shape
func (g *c14Gen) ret(shape string) string {
	pick := rapid.IntRange(0, 9).Draw(g.t, "ret-"+shape)
	or := func(s string, ok bool, fallback string) string {
		if ok {
			return s
		}
		return fallback
	}
	// interface-typed locals swapped or rotated by one tuple assignment before one of them is returned
	if (shape == "err" || shape == "anyerr") && rapid.IntRange(0, 13).Draw(g.t, "swap") == 0 {
		g.feats["tuple-swap-of-interface-locals"] = true
		typ, vals, tail := "error", []string{"E{Code: 1}", "nil", "Impl{}.Err()"}, ""
		if shape == "anyerr" {
			typ, vals, tail = "any", []string{"1", "\"s\"", "T{}"}, ", nil"
		}
		if rapid.Bool().Draw(g.t, "rotate3") {
			return "{\nvar sw1, sw2, sw3 " + typ + " = " + strings.Join(vals, ", ") + "\nsw1, sw2, sw3 = sw2, sw3, sw1\n_ = sw3\nreturn " + rapid.SampledFrom([]string{"sw1", "sw2"}).Draw(g.t, "swret") + tail + "\n}"
		}
		return "{\nvar sw1, sw2 " + typ + " = " + strings.Join(vals[:2], ", ") + "\nsw1, sw2 = sw2, sw1\nreturn " + rapid.SampledFrom([]string{"sw1", "sw2"}).Draw(g.t, "swret") + tail + "\n}"
	}
	switch shape {
	case "int":
		switch pick {
		case 0, 1:
			return "return " + g.intLit()
		case 2, 3:
			c, ok := g.call("int")
			return or("return "+c, ok, "return 2")
		case 4:
			c, ok := g.call("int")
			g.feats["assignment-before-return"] = true
			return or("x := "+c+"\nreturn x", ok, "x := 3\nreturn x")
		case 5:
			g.feats["method-call"] = true
			return "return Impl{}.One()"
		case 6:
			g.feats["interface-method-call"] = true
			return "var i I = Impl{}\nreturn i.One()"
		case 7:
			c, ok := g.qcall("int")
			return or("return "+c, ok, "return 4")
		case 8:
			g.feats["closure-returns-ignored"] = true
			return "f := func() int { return 99 }\n_ = f\nreturn 5"
		default:
			c, ok := g.call("named")
			g.feats["assignment-before-return"] = true
			return or("x, _ := "+c+"\nreturn x", ok, "return 6")
		}
	case "err":
		switch pick {
		case 0:
			if rapid.Bool().Draw(g.t, "pkgvar") {
				g.feats["package-level-tuple-initializer"] = true
				return "_ = pkgT\nreturn pkgErr"
			}
			return "return nil"
		case 1:
			return "return E{Code: " + g.intLit() + "}"
		case 2, 3:
			c, ok := g.call("err")
			return or("return "+c, ok, "return nil")
		case 4:
			g.feats["closure-argument-equal-results"] = true
			return "return with(func() error { return E{Code: 7} })"
		case 5:
			g.feats["closure-argument-more-results"] = true
			if rapid.Bool().Draw(g.t, "forwarding") {
				// the closure forwards a multi-value call instead of spelling its results out
				g.feats["closure-forwards-multi-value-call"] = true
				c, ok := g.call("terr")
				return or("return withTE(func() (T, error) { return "+c+" })", ok, "return withTE(func() (T, error) { return Impl{}.Get() })")
			}
			return "return with2(func() (int, error) { return 1, E{Code: 8} })"
		case 6:
			if rapid.Bool().Draw(g.t, "variadic") {
				// errors handed to a variadic ...error parameter, spelled out or spread from a slice built before the call
				g.feats["variadic-error-arguments"] = true
				c, ok := g.call("err")
				c = or(c, ok, "E{Code: 4}")
				if rapid.Bool().Draw(g.t, "spread") {
					g.feats["spread-call"] = true
					return "errs := []error{E{Code: 6}}\nerrs = append(errs, " + c + ")\nreturn firstErr(errs...)"
				}
				return "return firstErr(E{Code: 6}, " + c + ")"
			}
			g.feats["closure-argument-fewer-results"] = true
			return "return with0(func() {})"
		case 7:
			c, ok := g.call("terr")
			g.feats["assignment-before-return"] = true
			return or("_, err := "+c+"\nreturn err", ok, "return E{}")
		case 8:
			g.feats["interface-method-call"] = true
			return "var i I = Impl{}\nreturn i.Err()"
		default:
			c, ok := g.qcall("err")
			if !ok {
				c, ok = g.call("err")
				return or("return with(func() error { return "+c+" })", ok, "return nil")
			}
			return "return " + c
		}
	case "terr":
		switch pick {
		case 0:
			return "return T{}, nil"
		case 1:
			return "return T{V: " + g.intLit() + "}, E{}"
		case 2, 3:
			c, ok := g.call("terr")
			g.feats["multi-value-forwarding"] = true
			return or("return "+c, ok, "return T{}, nil")
		case 4, 5:
			c, ok := g.call("terr")
			g.feats["assignment-before-return"] = true
			return or("v, err := "+c+"\nif err != nil {\nreturn T{}, err\n}\nreturn v, nil", ok, "return T{V: 2}, nil")
		case 6:
			g.feats["method-call"] = true
			g.feats["multi-value-forwarding"] = true
			return "return Impl{}.Get()"
		case 7:
			g.feats["interface-method-call"] = true
			return "var i I = Impl{}\nreturn i.Get()"
		case 8:
			g.feats["closure-argument-equal-results"] = true
			return "return withT(func() (T, error) { return T{}, E{Code: 9} })"
		default:
			c, ok := g.call("err")
			return or("return T{}, "+c, ok, "return T{}, E{}")
		}
	case "anyerr":
		switch pick {
		case 0:
			return "return nil, nil"
		case 1:
			return "return 1, nil"
		case 2:
			return "return \"s\", E{}"
		case 3, 4:
			c, ok := g.call("anyerr")
			g.feats["multi-value-forwarding"] = true
			return or("return "+c, ok, "return nil, nil")
		case 5:
			c, ok := g.call("terr")
			g.feats["assignment-before-return"] = true
			return or("v, err := "+c+"\nreturn v, err", ok, "return T{}, nil")
		case 6:
			c, ok := g.qcall("anyerr")
			return or("return "+c, ok, "return 2.5, nil")
		case 7:
			g.feats["closure-argument-more-results"] = true
			return "return withAny(func() (int, string, error) { return 1, \"x\", E{Code: 3} })"
		case 8:
			c, ok := g.call("int")
			return or("return "+c+", nil", ok, "return true, nil")
		default:
			c, ok := g.call("err")
			return or("return T{}, "+c, ok, "return T{}, nil")
		}
	case "named":
		g.feats["named-results"] = true
		switch pick {
		case 0, 1:
			return "return " + g.intLit() + ", nil"
		case 2, 3:
			c, ok := g.call("err")
			g.feats["bare-return"] = true
			return or("v = "+g.intLit()+"\nerr = "+c+"\nreturn", ok, "v = 1\nreturn")
		case 4, 5:
			c, ok := g.call("named")
			g.feats["bare-return"] = true
			return or("v, err = "+c+"\nreturn", ok, "v, err = 2, nil\nreturn")
		case 6:
			c, ok := g.call("named")
			g.feats["multi-value-forwarding"] = true
			return or("return "+c, ok, "return 3, nil")
		case 7:
			c, ok := g.call("int")
			g.feats["bare-return"] = true
			return or("v = "+c+"\nreturn", ok, "return")
		case 8:
			g.feats["bare-return"] = true
			return "err = E{Code: 5}\nreturn"
		default:
			// a closure argument with its own named result and a bare return, assigning the captured outer results
			g.feats["bare-return"] = true
			g.feats["closure-with-named-results-in-function-with-named-results"] = true
			c, ok := g.call("named")
			return or("err = with(func() (err error) {\nv, err = "+c+"\nreturn\n})\nreturn", ok, "err = with(func() (err error) {\nv, err = Impl{}.One(), Impl{}.Err()\nreturn\n})\nreturn")
		}
	default: // two
		g.feats["named-results"] = true
		switch pick {
		case 0, 1, 2:
			return "return " + g.intLit() + ", \"a\""
		case 3, 4, 5:
			c, ok := g.call("two")
			g.feats["multi-value-forwarding"] = true
			return or("return "+c, ok, "return 1, \"b\"")
		case 6, 7:
			g.feats["bare-return"] = true
			return "a, b = 2, \"c\"\nreturn"
		default:
			c, ok := g.call("int")
			return or("return "+c+", \"d\"", ok, "return 0, \"\"")
		}
	}
}

func (g *c14Gen) body(shape string) string {
	var b strings.Builder
	switch rapid.IntRange(0, 5).Draw(g.t, "flow") {
	case 0:
		g.feats["if"] = true
		fmt.Fprintf(&b, "if cond() {\n%s\n}\n", g.ret(shape))
	case 1:
		g.feats["switch"] = true
		fmt.Fprintf(&b, "switch sel() {\ncase 1:\n%s\ncase 2, 3:\n%s\n}\n", g.ret(shape), g.ret(shape))
	case 2:
		g.feats["for"] = true
		fmt.Fprintf(&b, "for i := 0; i < 2; i++ {\nif cond() {\n%s\n}\n}\n", g.ret(shape))
	case 3:
		g.feats["if"] = true
		fmt.Fprintf(&b, "if cond() {\nif sel() > 0 {\n%s\n}\n%s\n}\n", g.ret(shape), g.ret(shape))
	}
	b.WriteString(g.ret(shape))
	b.WriteString("\n")
	return b.String()
}

// literal-only functions
type c14LitOp struct {
	text string
	exp  c14Exp
	typ  string // int float string bool nilable
}

var c14LitOps = []c14LitOp{
	{"1", c14Exp{"int", "1"}, "int"}, {"-2", c14Exp{"int", "-2"}, "int"}, {"1 + 2*3", c14Exp{"int", "7"}, "int"}, {"(3)", c14Exp{"int", "3"}, "int"},
	{"- -1", c14Exp{"int", "1"}, "int"}, {"-(-2)", c14Exp{"int", "2"}, "int"}, {"+ +3", c14Exp{"int", "3"}, "int"}, {"- +4", c14Exp{"int", "-4"}, "int"}, {"^ ^5", c14Exp{"int", "5"}, "int"},
	{"1 << 4", c14Exp{"int", "16"}, "int"}, {"'x'", c14Exp{"int", "120"}, "int"}, {"10 % 4", c14Exp{"int", "2"}, "int"}, {"^0", c14Exp{"int", "-1"}, "int"},
	{"7 / 2", c14Exp{"int", "3"}, "int"}, {"-9 / 4", c14Exp{"int", "-2"}, "int"}, {"1 / 2", c14Exp{"int", "0"}, "int"}, {"'a' / 2", c14Exp{"int", "48"}, "int"}, {"-7 % 3", c14Exp{"int", "-1"}, "int"},
	{"7.0 / 2", c14Exp{"float", "3.5"}, "float"}, {"1 / 2.0", c14Exp{"float", "0.5"}, "float"}, {"2 >= 2", c14Exp{"bool", "true"}, "bool"}, {"!(1 < 2) || true", c14Exp{"bool", "true"}, "bool"},
	{"2.5 * 2", c14Exp{"float", "5.0"}, "float"}, {"1.0 / 4", c14Exp{"float", "0.25"}, "float"}, {"-(0.5)", c14Exp{"float", "-0.5"}, "float"},
	{`"a" + "b"`, c14Exp{"string", "ab"}, "string"}, {`""`, c14Exp{"string", ""}, "string"}, {"`raw`", c14Exp{"string", "raw"}, "string"},
	{"true", c14Exp{"bool", "true"}, "bool"}, {"false", c14Exp{"bool", "false"}, "bool"}, {"!true", c14Exp{"bool", "false"}, "bool"},
	{"true && false", c14Exp{"bool", "false"}, "bool"}, {"1 == 2", c14Exp{"bool", "false"}, "bool"}, {`"a" < "b"`, c14Exp{"bool", "true"}, "bool"},
	{"nil", c14Exp{Kind: "nil"}, "nilable"},
	// every spelling of an integer literal, an escaped rune, escapes in strings
	{"0644", c14Exp{"int", "420"}, "int"}, {"010", c14Exp{"int", "8"}, "int"}, {"0o17", c14Exp{"int", "15"}, "int"}, {"0x1F", c14Exp{"int", "31"}, "int"},
	{"0b101", c14Exp{"int", "5"}, "int"}, {"1_000", c14Exp{"int", "1000"}, "int"}, {"07", c14Exp{"int", "7"}, "int"}, {"'\\n'", c14Exp{"int", "10"}, "int"},
	{"-010", c14Exp{"int", "-8"}, "int"}, {"1e3", c14Exp{"float", "1000.0"}, "float"}, {"0x1p4", c14Exp{"float", "16.0"}, "float"},
	{`"a\tb"`, c14Exp{"string", "a\tb"}, "string"}, {`"\u00e9"`, c14Exp{"string", "é"}, "string"},
}

// randIntExpr builds an integer constant expression over small literals with every binary and unary integer operator and
// evaluates it with plain int64 arithmetic (Go's constant semantics for these sizes: truncated division, sign of the dividend for %).
func (g *c14Gen) randIntExpr(depth int) (string, int64) {
	if depth == 0 || rapid.IntRange(0, 3).Draw(g.t, "ileaf") == 0 {
		v := int64(rapid.IntRange(0, 40).Draw(g.t, "ival"))
		switch rapid.IntRange(0, 5).Draw(g.t, "ispell") {
		case 0:
			return fmt.Sprintf("0x%X", v), v
		case 1:
			if v >= 32 && v < 127 && v != '\'' && v != '\\' {
				return "'" + string(rune(v)) + "'", v
			}
		}
		return fmt.Sprint(v), v
	}
	switch rapid.IntRange(0, 7).Draw(g.t, "iunary") {
	case 0:
		x, v := g.randIntExpr(depth - 1)
		return "-(" + x + ")", -v
	case 1:
		x, v := g.randIntExpr(depth - 1)
		return "(" + x + ")", v
	case 2:
		x, v := g.randIntExpr(depth - 1)
		return "^(" + x + ")", ^v
	}
	l, lv := g.randIntExpr(depth - 1)
	r, rv := g.randIntExpr(depth - 1)
	l, r = "("+l+")", "("+r+")"
	op := rapid.SampledFrom([]string{"+", "-", "*", "/", "/", "/", "%", "%", "&", "|", "^", "&^", "<<", ">>"}).Draw(g.t, "iop")
	switch op {
	case "+":
		return l + " + " + r, lv + rv
	case "-":
		return l + " - " + r, lv - rv
	case "*":
		return l + " * " + r, lv * rv
	case "/":
		if rv == 0 {
			return l + " / 3", lv / 3
		}
		return l + " / " + r, lv / rv
	case "%":
		if rv == 0 {
			return l + " % 7", lv % 7
		}
		return l + " % " + r, lv % rv
	case "&":
		return l + " & " + r, lv & rv
	case "|":
		return l + " | " + r, lv | rv
	case "^":
		return l + " ^ " + r, lv ^ rv
	case "&^":
		return l + " &^ " + r, lv &^ rv
	case "<<":
		k := rapid.IntRange(0, 3).Draw(g.t, "ishift")
		return fmt.Sprintf("%s << %d", l, k), lv << k
	default:
		k := rapid.IntRange(0, 3).Draw(g.t, "ishift")
		return fmt.Sprintf("%s >> %d", l, k), lv >> k
	}
}

func (g *c14Gen) litFunc(name string) c14Func {
	g.feats["literal-only"] = true
	n := rapid.IntRange(1, 3).Draw(g.t, "nres")
	typs := make([]string, n)
	goTypes := make([]string, n)
	for i := range typs {
		typs[i] = rapid.SampledFrom([]string{"int", "float", "string", "bool", "nilable", "any"}).Draw(g.t, "restype")
		switch typs[i] {
		case "float":
			goTypes[i] = "float64"
		case "nilable":
			goTypes[i] = rapid.SampledFrom([]string{"*int", "error", "[]string", "map[string]int", "func()"}).Draw(g.t, "niltype")
		default:
			goTypes[i] = typs[i]
		}
	}
	nret := rapid.IntRange(1, 4).Draw(g.t, "nret")
	if rapid.IntRange(0, 24).Draw(g.t, "manyreturns") == 0 {
		nret = rapid.SampledFrom([]int{65, 128, 129, 130, 200}).Draw(g.t, "nmany") // table-like functions
		g.feats["literal-only-65+returns"] = true
	}
	if nret >= 2 {
		g.feats["literal-only-2+returns"] = true
	}
	lit := make([][]c14Exp, n)
	var b strings.Builder
	mkRet := func() string {
		var ops []string
		for i, ty := range typs {
			var cands []c14LitOp
			for _, op := range c14LitOps {
				if op.typ == ty || ty == "any" || (ty == "float" && op.typ == "int") {
					cands = append(cands, op)
				}
			}
			op := cands[rapid.IntRange(0, len(cands)-1).Draw(g.t, "op")]
			if (ty == "int" || ty == "any") && rapid.IntRange(0, 2).Draw(g.t, "randint") == 0 {
				// a generated operator tree instead of a table row
				g.feats["literal-only-operator-tree"] = true
				text, v := g.randIntExpr(3)
				op = c14LitOp{text, c14Exp{"int", fmt.Sprint(v)}, "int"}
			}
			ops = append(ops, op.text)
			lit[i] = append(lit[i], op.exp)
		}
		return "return " + strings.Join(ops, ", ")
	}
	for r := 0; r < nret-1; r++ {
		// every kind of statement that can hold a return statement
		switch rapid.IntRange(0, 11).Draw(g.t, "litflow") {
		case 0:
			fmt.Fprintf(&b, "if cond() {\n%s\n}\n", mkRet())
		case 1:
			fmt.Fprintf(&b, "switch sel() {\ncase %d:\n%s\n}\n", r, mkRet())
		case 2:
			fmt.Fprintf(&b, "for cond() {\n%s\n}\n", mkRet())
		case 3:
			g.feats["return-in-labeled-statement"] = true
			fmt.Fprintf(&b, "lbl%d:\nfor cond() {\nif cond() {\ncontinue lbl%d\n}\n%s\n}\n", r, r, mkRet())
		case 4:
			fmt.Fprintf(&b, "if cond() {\n} else {\n%s\n}\n", mkRet())
		case 5:
			fmt.Fprintf(&b, "for range []int{1} {\n%s\n}\n", mkRet())
		case 6:
			g.feats["return-in-select"] = true
			fmt.Fprintf(&b, "select {\ncase <-make(chan int):\n%s\ndefault:\n}\n", mkRet())
		case 7:
			g.feats["return-in-type-switch"] = true
			fmt.Fprintf(&b, "switch x%d := any(sel()).(type) {\ncase int:\n_ = x%d\n%s\n}\n", r, r, mkRet())
		case 8:
			fmt.Fprintf(&b, "{\n%s\n}\n", mkRet())
		case 9:
			fmt.Fprintf(&b, "switch sel() {\ndefault:\n%s\n}\n", mkRet())
		case 10:
			fmt.Fprintf(&b, "if cond() {\n} else if cond() {\n%s\n}\n", mkRet())
		default:
			g.feats["return-in-labeled-statement"] = true
			fmt.Fprintf(&b, "sw%d:\nswitch sel() {\ncase 1:\nif cond() {\nbreak sw%d\n}\n%s\n}\n", r, r, mkRet())
		}
	}
	if rapid.Bool().Draw(g.t, "litclosure") {
		g.feats["closure-returns-ignored"] = true
		b.WriteString("ignored := func() (int, string) { return 12345, \"ignored\" }\n_ = ignored\n")
	}
	b.WriteString(mkRet() + "\n")
	sig := "() "
	if n == 1 {
		sig += goTypes[0]
	} else {
		sig += "(" + strings.Join(goTypes, ", ") + ")"
	}
	return c14Func{Name: name, Shape: "lit", Body: b.String(), Sig: sig, Lit: lit}
}

// pairFunc: results declared with one multi-name field; every constant is unique to its position (1x for a, 2x for b)
func (g *c14Gen) pairFunc(f c14Func) c14Func {
	g.feats["multi-name-result-field"] = true
	poss := [][]string{{}, {}}
	n := 0
	pick := func(pos int) string {
		n++
		v := fmt.Sprint((pos+1)*100 + n)
		poss[pos] = append(poss[pos], v)
		return v
	}
	ret := func() string {
		switch rapid.IntRange(0, 4).Draw(g.t, "pairret") {
		case 0:
			return "return " + pick(0) + ", " + pick(1)
		case 1:
			g.feats["bare-return"] = true
			return "a, b = " + pick(0) + ", " + pick(1) + "\nreturn"
		case 2:
			g.feats["bare-return"] = true
			return "a = " + pick(0) + "\nb = " + pick(1) + "\nreturn"
		case 3:
			g.feats["bare-return"] = true
			return "b = " + pick(1) + "\na = " + pick(0) + "\nreturn"
		default:
			g.feats["bare-return"] = true
			return "a = " + pick(0) + "\nreturn"
		}
	}
	var b strings.Builder
	switch rapid.IntRange(0, 3).Draw(g.t, "pairflow") {
	case 0:
		fmt.Fprintf(&b, "if cond() {\n%s\n}\n", ret())
	case 1:
		fmt.Fprintf(&b, "switch sel() {\ncase 1:\n%s\ncase 2:\n%s\n}\n", ret(), ret())
	case 2:
		fmt.Fprintf(&b, "for cond() {\n%s\n}\n", ret())
	}
	b.WriteString(ret() + "\n")
	f.Body = b.String()
	f.Possible = poss
	return f
}

func genC14Pkg(t *rapid.T, prefix string, qfns []c14Func, isQ bool, feats map[string]bool) []c14Func {
	g := &c14Gen{t: t, q: isQ, qfns: qfns, feats: feats}
	n := rapid.IntRange(6, 24).Draw(t, "nfuncs")
	shapes := []string{"int", "err", "terr", "anyerr", "named", "two", "pair"}
	for i := 0; i < n; i++ {
		f := c14Func{Name: fmt.Sprintf("%s%d", prefix, i)}
		if rapid.IntRange(0, 4).Draw(t, "islit") == 0 {
			f.Shape = "lit"
		} else {
			f.Shape = rapid.SampledFrom(shapes).Draw(t, "shape")
			f.Sig = c14Sigs[f.Shape]
			if !isQ && rapid.IntRange(0, 4).Draw(t, "method") == 0 {
				f.Recv = rapid.SampledFrom([]string{"R", "*R"}).Draw(t, "recv")
			}
		}
		g.funcs = append(g.funcs, f)
	}
	for i := range g.funcs {
		g.self = i
		if g.funcs[i].Shape == "lit" {
			g.funcs[i] = g.litFunc(g.funcs[i].Name)
			continue
		}
		if g.funcs[i].Shape == "pair" {
			g.funcs[i] = g.pairFunc(g.funcs[i])
			continue
		}
		g.funcs[i].Body = g.body(g.funcs[i].Shape)
	}
	return g.funcs
}

func genC14(t *rapid.T) c14Case {
	feats := map[string]bool{}
	c := c14Case{}
	c.Q = genC14Pkg(t, "Q", nil, true, feats)
	c.P = genC14Pkg(t, "f", c.Q, false, feats)
	for f := range feats {
		c.Features = append(c.Features, f)
	}
	sort.Strings(c.Features)
	return c
}

func c14Source(pkg string, funcs []c14Func, importQ bool) string {
	var b strings.Builder
	fmt.Fprintf(&b, "package %s\n", pkg)
	if importQ {
		b.WriteString("\nimport q \"m/q\"\n\nvar _ = q.Anchor\n")
	} else {
		b.WriteString("\nvar Anchor = 0\n")
	}
	b.WriteString(c14Prelude)
	for _, f := range funcs {
		recv := ""
		if f.Recv != "" {
			recv = "(r " + f.Recv + ") "
		}
		fmt.Fprintf(&b, "\nfunc %s%s%s {\n", recv, f.Name, f.Sig)
		if f.Recv != "" {
			b.WriteString("_ = r\n")
		}
		b.WriteString(f.Body)
		b.WriteString("}\n")
	}
	return b.String()
}

func (c c14Case) possible() map[string][][]string {
	out := map[string][][]string{}
	for _, f := range c.P {
		if f.Possible != nil {
			out[c14Key("m/p", f)] = f.Possible
		}
	}
	for _, f := range c.Q {
		if f.Possible != nil {
			out[c14Key("m/q", f)] = f.Possible
		}
	}
	return out
}

func c14Key(pkg string, f c14Func) string {
	switch f.Recv {
	case "R":
		return pkg + ".(R)." + f.Name
	case "*R":
		return pkg + ".(*R)." + f.Name
	}
	return pkg + "." + f.Name
}

func (c c14Case) module() (modspec.Mod, map[string][][]c14Exp) {
	m := modspec.Mod{Path: "m", Go: "1.21", Pkgs: []modspec.Pkg{
		{Dir: "p", Name: "p", Other: []modspec.File{{Name: "p.go", Data: c14Source("p", c.P, true)}}},
		{Dir: "q", Name: "q", Other: []modspec.File{{Name: "q.go", Data: c14Source("q", c.Q, false)}}},
	}}
	lit := map[string][][]c14Exp{}
	for _, f := range c.P {
		if f.Shape == "lit" {
			lit["m/p."+f.Name] = f.Lit
		}
	}
	for _, f := range c.Q {
		if f.Shape == "lit" {
			lit["m/q."+f.Name] = f.Lit
		}
	}
	return m, lit
}

func oracleC14(c c14Case) error {
	dir := tempDir()
	defer os.RemoveAll(dir)
	m, lit := c.module()
	writeMod(&m, dir+"/mod")
	scratch := dir + "/scratch"
	_ = os.MkdirAll(scratch, 0o755)
	lines, crashes, total, err := superviseC14(c14Job{Dir: dir + "/mod", Patterns: []string{"./..."}, Literal: lit, Possible: c.possible()}, scratch, 90*time.Second, 1)
	if err != nil {
		panic("harness: " + err.Error() + "\n--- p.go ---\n" + m.Pkgs[0].Other[0].Data)
	}
	if len(crashes) > 0 {
		cr := crashes[0]
		return fmt.Errorf("ResultsOf(%s) kills the process (exit %d): %s\n--- p.go ---\n%s\n--- q.go ---\n%s", cr.Name, cr.Exit, cr.Stderr, m.Pkgs[0].Other[0].Data, m.Pkgs[1].Other[0].Data)
	}
	want := len(c.P) + len(c.Q)
	if total < want {
		panic(fmt.Sprintf("harness: child visited %d functions, the module declares at least %d", total, want))
	}
	for _, l := range lines {
		if l.Err != "" {
			if strings.Contains(l.Err, "harness:") {
				panic(l.Err)
			}
			src := m.Pkgs[0].Other[0].Data
			if strings.HasPrefix(l.Name, "m/q.") {
				src = m.Pkgs[1].Other[0].Data
			}
			return fmt.Errorf("ResultsOf(%s): %s\n--- source ---\n%s", l.Name, l.Err, src)
		}
	}
	return nil
}

// c14SrcCase is a hand-written (or minimised) pair of package sources checked with the same oracle.
type c14SrcCase struct {
	P string `json:"p"`
	Q string `json:"q,omitempty"`
}

func oracleC14Src(c c14SrcCase) error {
	dir := tempDir()
	defer os.RemoveAll(dir)
	m := modspec.Mod{Path: "m", Go: "1.21", Pkgs: []modspec.Pkg{{Dir: "p", Name: "p", Other: []modspec.File{{Name: "p.go", Data: c.P}}}}}
	if c.Q != "" {
		m.Pkgs = append(m.Pkgs, modspec.Pkg{Dir: "q", Name: "q", Other: []modspec.File{{Name: "q.go", Data: c.Q}}})
	}
	writeMod(&m, dir+"/mod")
	scratch := dir + "/scratch"
	_ = os.MkdirAll(scratch, 0o755)
	lines, crashes, _, err := superviseC14(c14Job{Dir: dir + "/mod", Patterns: []string{"./..."}}, scratch, 90*time.Second, 1)
	if err != nil {
		panic("harness: " + err.Error())
	}
	if len(crashes) > 0 {
		return fmt.Errorf("ResultsOf(%s) kills the process (exit %d): %s", crashes[0].Name, crashes[0].Exit, crashes[0].Stderr)
	}
	for _, l := range lines {
		if l.Err != "" {
			return fmt.Errorf("ResultsOf(%s): %s", l.Name, l.Err)
		}
	}
	return nil
}

func c14NonTrivial(c c14Case) bool {
	for _, f := range c.Features {
		switch f {
		case "self-recursion", "call-later-(mutual-recursion-possible)", "closure-argument-more-results", "closure-argument-equal-results", "multi-value-forwarding", "literal-only-2+returns":
			return true
		}
	}
	return false
}

type c14FuncCase struct {
	Idx  int    `json:"idx"`
	Name string `json:"name"`
}

func TestC14(t *testing.T) {
	r := ev.Begin(t, ev.Meta{
		ID:    "C14",
		Level: "exploration",
		Rule: "generated sub: two-package modules of 12-48 functions and methods drawn from a grammar: results (int), error, (T, error), (any, error), named (v int, err " +
			"error), (a int, b string); return paths through if/switch/for; literals, assignments before return, bare returns over named results, multi-value forwarding " +
			"`return g()`, self and mutual recursion through every result index (callees are chosen among ALL functions of the right shape, later ones included), value/" +
			"pointer-receiver and interface method calls, calls into the second package, closures passed as arguments with fewer / equal / more results than the callee, " +
			"closures whose own returns must be ignored; plus literal-only functions (1-3 results, 1-4 return statements of literal operands incl. operators and nil) whose " +
			"alternatives must equal the harness's own table of values in source order. Every function is checked in a supervised child process (stack limit 64 MB): no " +
			"panic / fatal error, n == declared count, n non-empty lists, every alternative a constant or a valid type assignable to the declared result, same answer " +
			"twice. closure sub (shard 0): the same oracle for every function, method and interface method of /repo's dependency closure. non-trivial = recursion, " +
			"closure argument, forwarding or a literal-only function with >=2 returns (closure sub: function with >=1 result); distinct by JSON encoding / function name",
		Assumptions: []string{
			"termination is observed as 'returned within the supervisor's limit'; a timeout is inconclusive, only a crash is a violation",
			"type soundness is judged with go/types.AssignableTo (untyped nil accepted where nil is assignable)",
		},
	})
	defer r.Finish()
	ev.Search(r, ev.Sub[c14Case]{
		Name: "generated", Gen: genC14, Oracle: oracleC14, NonTrivial: c14NonTrivial,
		Classes: func(c c14Case) []string { return c.Features },
		Budget:  ev.Budget{Quick: 120, Thorough: 1500}, MinNonTrivial: 0.5, ShrinkTime: 45 * time.Second,
	})
	// hand-written sources: only committed regression inputs and known findings are replayed here
	ev.Search(r, ev.Sub[c14SrcCase]{Name: "source", Gen: func(*rapid.T) c14SrcCase { return c14SrcCase{} }, Oracle: oracleC14Src, Budget: ev.Budget{}})
	if r.Shard == 0 {
		c14ClosureSweep(r)
	}
}

func c14ClosureSweep(r *ev.Recorder) {
	if r.Replaying() {
		// a replay of the sweep re-checks the named function only
		ev.Enumerate(r, "closure", nil, func(c c14FuncCase) error {
			dir := tempDir()
			defer os.RemoveAll(dir)
			lines, crashes, _, err := superviseC14(c14Job{Dir: repoDir(), Patterns: []string{"./..."}, Closure: true, Start: c.Idx}, dir, 240*time.Second, 1)
			if err != nil {
				panic("harness: " + err.Error())
			}
			for _, cr := range crashes {
				if cr.Idx == c.Idx {
					return fmt.Errorf("ResultsOf(%s) kills the process (exit %d): %s", cr.Name, cr.Exit, cr.Stderr)
				}
			}
			for _, l := range lines {
				if l.Idx == c.Idx && l.Err != "" {
					return fmt.Errorf("ResultsOf(%s): %s", l.Name, l.Err)
				}
			}
			return nil
		}, nil, nil)
		return
	}
	dir := tempDir()
	defer os.RemoveAll(dir)
	lines, crashes, total, err := superviseC14(c14Job{Dir: repoDir(), Patterns: []string{"./..."}, Closure: true}, dir, 240*time.Second, 12)
	if err != nil {
		r.Inconclusive("closure sweep: " + err.Error())
		return
	}
	r.Extra("closure_functions", total)
	r.Extra("closure_crashes", len(crashes))
	reported := 0
	for _, cr := range crashes {
		enc, _ := json.Marshal(c14FuncCase{Idx: cr.Idx, Name: cr.Name})
		r.Case("closure", enc, true, []string{"crash"})
		if reported < 3 {
			r.Violation("closure", enc, fmt.Errorf("ResultsOf(%s) kills the process (exit %d): %s", cr.Name, cr.Exit, cr.Stderr))
			reported++
		}
	}
	for _, l := range lines {
		enc, _ := json.Marshal(c14FuncCase{Idx: l.Idx, Name: l.Name})
		cl := []string{}
		if !l.HasBody {
			cl = append(cl, "no-body-or-signature-only")
		}
		r.Case("closure", enc, l.N > 0, cl)
		if l.Err != "" && reported < 3 {
			r.Violation("closure", enc, fmt.Errorf("ResultsOf(%s): %s", l.Name, l.Err))
			reported++
		}
	}
}
