package univ

import (
	"os"
	"path/filepath"
	"testing"

	gengotypes "github.com/octohelm/gengo/pkg/types"

	"vt/internal/modspec"
	"vt/internal/script"
)

func TestMain(m *testing.M) {
	script.InitEnv()
	childMain()
	os.Exit(m.Run())
}

// quietly runs f with os.Stdout pointing at /dev/null (types.Load prints warnings there).
func quietly(f func()) {
	devnull, err := os.OpenFile(os.DevNull, os.O_WRONLY, 0)
	if err != nil {
		panic("harness: " + err.Error())
	}
	old := os.Stdout
	os.Stdout = devnull
	defer func() {
		os.Stdout = old
		devnull.Close()
	}()
	f()
}

func load(dir string, patterns ...string) (u *gengotypes.Universe, err error) {
	quietly(func() {
		u, err = gengotypes.Load(patterns, gengotypes.WithDir(dir))
	})
	return
}

func tempDir() string {
	dir, err := os.MkdirTemp("", "vtuniv")
	if err != nil {
		panic("harness: " + err.Error())
	}
	if real, err := filepath.EvalSymlinks(dir); err == nil {
		dir = real
	}
	return dir
}

func writeMod(m *modspec.Mod, dir string) {
	if err := os.MkdirAll(dir, 0o755); err != nil {
		panic("harness: " + err.Error())
	}
	if err := m.Write(dir); err != nil {
		panic("harness: " + err.Error())
	}
}

func repoDir() string {
	if d := os.Getenv("VT_REPO"); d != "" {
		return d
	}
	return "/repo"
}
