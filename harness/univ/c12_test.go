package univ

import (
	"fmt"
	"go/token"
	"go/types"
	"os"
	"reflect"
	"sort"
	"strings"
	"testing"
	"unicode/utf8"

	gengotypes "github.com/octohelm/gengo/pkg/types"
	"pgregory.net/rapid"

	"vt/internal/ev"
	"vt/internal/modspec"
)

// ---- C12: doc, trailing comments and tags are attributed to the right declaration ----

// refSplit is the reference tag splitter, written from the statement.
func refSplit(lines []string, markers []byte) (tags map[string][]string, others []string) {
	if len(markers) == 0 {
		markers = []byte{'+', '@'}
	}
	tags = map[string][]string{}
	for _, l := range lines {
		l = strings.Trim(l, " ")
		isTag := false
		if len(l) > 0 {
			for _, m := range markers {
				if l[0] == m {
					isTag = true
				}
			}
		}
		if !isTag {
			others = append(others, l)
			continue
		}
		rest := l[1:]
		k, v := rest, ""
		if i := strings.IndexAny(rest, "= "); i >= 0 {
			k, v = rest[:i], rest[i+1:]
		}
		tags[k] = append(tags[k], v)
	}
	return
}

// --- B: ExtractCommentTags on arbitrary line lists ---

type c12Lines struct {
	Lines   []string `json:"lines"`
	Markers string   `json:"markers,omitempty"`
}

var c12Alphabet = []string{"+", "@", "#", "=", " ", " ", "\t", "a", "b", "key", "gengo:x", "value", "é", "中", ":", "-", "\"", "==", "  ", "k=v", "+k", "@k=v w", "'", "0"}

func genC12Lines(t *rapid.T) c12Lines {
	c := c12Lines{}
	n := rapid.IntRange(0, 8).Draw(t, "nlines")
	for i := 0; i < n; i++ {
		var b strings.Builder
		switch rapid.IntRange(0, 5).Draw(t, "linekind") {
		case 0:
			b.WriteString(rapid.StringMatching(`[+@#]?[a-z:]{0,6}([= ][a-z= ]{0,6})?`).Draw(t, "structured"))
		case 1:
			s := rapid.String().Draw(t, "any")
			if !utf8.ValidString(s) || strings.ContainsAny(s, "\n\r") {
				s = "plain"
			}
			b.WriteString(s)
		default:
			k := rapid.IntRange(0, 6).Draw(t, "npieces")
			for j := 0; j < k; j++ {
				b.WriteString(rapid.SampledFrom(c12Alphabet).Draw(t, "piece"))
			}
		}
		c.Lines = append(c.Lines, b.String())
	}
	// repeat a key on purpose
	if len(c.Lines) > 0 && rapid.IntRange(0, 2).Draw(t, "repeat") == 0 {
		c.Lines = append(c.Lines, "+dup=1", "other", "+dup=2", "@dup", " +dup 3 ")
	}
	// long comments: many tag lines over few keys, in no particular order (values of a repeated key keep their order)
	if rapid.IntRange(0, 4).Draw(t, "manytags") == 0 {
		m := rapid.IntRange(9, 40).Draw(t, "nmany")
		for i := 0; i < m; i++ {
			key := rapid.SampledFrom([]string{"zeta", "alpha", "mid", "gengo:x", "k", "zz:sub", "b"}).Draw(t, "manykey")
			switch rapid.IntRange(0, 3).Draw(t, "manyform") {
			case 0:
				c.Lines = append(c.Lines, fmt.Sprintf("+%s=%d", key, i))
			case 1:
				c.Lines = append(c.Lines, fmt.Sprintf("@%s v%d", key, i))
			case 2:
				c.Lines = append(c.Lines, fmt.Sprintf("text line %d", i))
			default:
				c.Lines = append(c.Lines, "+"+key)
			}
		}
	}
	c.Markers = rapid.SampledFrom([]string{"", "", "+", "@", "#", "+@#", "-+"}).Draw(t, "markers")
	return c
}

func oracleC12Lines(c c12Lines) error {
	var tags map[string][]string
	var others []string
	if p := ev.Panics(func() { tags, others = gengotypes.ExtractCommentTags(c.Lines, []byte(c.Markers)...) }); p != nil {
		return fmt.Errorf("ExtractCommentTags(%q, %q) panics: %v", c.Lines, c.Markers, p)
	}
	wantTags, wantOthers := refSplit(c.Lines, []byte(c.Markers))
	if len(tags) != len(wantTags) {
		return fmt.Errorf("ExtractCommentTags(%q, markers %q): tags %v, want %v", c.Lines, c.Markers, tags, wantTags)
	}
	for k, v := range wantTags {
		if !reflect.DeepEqual(tags[k], v) {
			return fmt.Errorf("ExtractCommentTags(%q, markers %q): tag %q = %q, want %q", c.Lines, c.Markers, k, tags[k], v)
		}
	}
	if len(others) != len(wantOthers) {
		return fmt.Errorf("ExtractCommentTags(%q, markers %q): other lines %q, want %q", c.Lines, c.Markers, others, wantOthers)
	}
	for i := range others {
		if strings.TrimSpace(others[i]) != strings.TrimSpace(wantOthers[i]) {
			return fmt.Errorf("ExtractCommentTags(%q, markers %q): other line %d = %q, want %q", c.Lines, c.Markers, i, others[i], wantOthers[i])
		}
	}
	n := len(others)
	for _, v := range tags {
		n += len(v)
	}
	if n != len(c.Lines) {
		return fmt.Errorf("ExtractCommentTags(%q): %d lines accounted for, input has %d", c.Lines, n, len(c.Lines))
	}
	return nil
}

// --- A: source layouts ---

type c12Item struct {
	Names []string `json:"names"`
	// Doc: comment lines directly above (empty = none); Block: written as one /* */ comment
	Doc      []string `json:"doc,omitempty"`
	Block    bool     `json:"block,omitempty"`
	Detached []string `json:"detached,omitempty"` // comment lines above, separated by a blank line
	Trailing string   `json:"trailing,omitempty"`
	// Multi: the declaration spans several lines (nested struct / interface body / multi-line literal); its trailing comment sits
	// on the closing line and is not asserted through Comment(), but it must not become the doc of the next declaration
	Multi bool `json:"multi,omitempty"`
}

type c12Decl struct {
	// Kind: type | typegroup | struct | const | constgroup | var | vargroup | func (a function whose closing brace carries a comment)
	Kind  string    `json:"kind"`
	Item  c12Item   `json:"item"`            // the declaration itself (for groups: the comment above the group keyword)
	Items []c12Item `json:"items,omitempty"` // group members / struct fields
	// Tight: no blank line between this declaration and the previous one
	Tight bool `json:"tight,omitempty"`
	// OpenCmt: a comment behind the opening brace / parenthesis (struct {, type (, const (, var () or, for func, behind the closing
	// brace: it belongs to no declaration and must not become the documentation of what follows
	OpenCmt string `json:"opencmt,omitempty"`
}

type c12Layout struct {
	Decls []c12Decl `json:"decls"`
	// LineAt: index of the declaration in front of which a //line directive stands (positions below it are reported in
	// another file); 0 = none
	LineAt int `json:"lineat,omitempty"`
	// ImportCmt: a single un-parenthesised import with this trailing comment stands in front of the first declaration,
	// ImportTight: on the line directly above it
	ImportCmt   string `json:"importcmt,omitempty"`
	ImportTight bool   `json:"importtight,omitempty"`
	// BrokenDep: the (well-formed) package imports a package of the module that has a type error
	BrokenDep bool `json:"brokendep,omitempty"`
}

var c12Words = []string{"Does things.", "x = y", "see Other", "a // b", "note: careful", "TODO(me): later", "中文 doc", "tail", "host:port or :port", "key:value pairs follow", "0:off 1:on", "unit:ms", "http://example.com/x", "a:b"}
var c12Tags = []string{"+gengo:runtimedoc", "+gengo:deepcopy=false", "+k=v", "+k=a=b", "+k v w", "@name value", "+flag", "+k =v", "+gengo:x:sub=1"}

func genC12Comment(t *rapid.T, label string) []string {
	n := rapid.IntRange(1, 3).Draw(t, label+"n")
	var out []string
	for i := 0; i < n; i++ {
		if rapid.IntRange(0, 2).Draw(t, label+"tag") == 0 {
			out = append(out, rapid.SampledFrom(c12Tags).Draw(t, label+"tagline"))
		} else {
			out = append(out, rapid.SampledFrom(c12Words).Draw(t, label+"word"))
		}
	}
	return out
}

func genC12Item(t *rapid.T, names []string, allowTrailing bool) c12Item {
	it := c12Item{Names: names}
	switch rapid.IntRange(0, 5).Draw(t, "dockind") {
	case 0, 1:
		it.Doc = genC12Comment(t, "doc")
	case 2:
		it.Doc = genC12Comment(t, "doc")
		it.Block = true
	case 3:
		it.Detached = genC12Comment(t, "detached")
	}
	if allowTrailing && rapid.IntRange(0, 1).Draw(t, "trailing") == 0 {
		it.Trailing = rapid.SampledFrom([]string{"trailing note", "+gengo:x", "x", "unit: ms", "@tag t"}).Draw(t, "trailtext")
	}
	return it
}

func genC12Layout(t *rapid.T) c12Layout {
	var l c12Layout
	n := 0
	name := func(prefix string) string { n++; return fmt.Sprintf("%s%d", prefix, n) }
	nd := rapid.IntRange(2, 8).Draw(t, "ndecls")
	for i := 0; i < nd; i++ {
		var d c12Decl
		members := func(prefix string, multi bool, min int) []c12Item {
			var items []c12Item
			k := rapid.IntRange(min, 4).Draw(t, "nmembers")
			for j := 0; j < k; j++ {
				names := []string{name(prefix)}
				if multi && rapid.IntRange(0, 3).Draw(t, "multiname") == 0 {
					names = append(names, name(prefix))
				}
				it := genC12Item(t, names, true)
				it.Multi = len(names) == 1 && rapid.IntRange(0, 4).Draw(t, "multi") == 0
				items = append(items, it)
			}
			return items
		}
		switch rapid.IntRange(0, 7).Draw(t, "kind") {
		case 7:
			d = c12Decl{Kind: "func", Item: c12Item{Names: []string{name("fn")}}, OpenCmt: rapid.SampledFrom([]string{"closing", "+gengo:enum", "end of fn"}).Draw(t, "closecmt")}
		case 0:
			d = c12Decl{Kind: "type", Item: genC12Item(t, []string{name("T")}, true)}
		case 1:
			d = c12Decl{Kind: "typegroup", Item: genC12Item(t, nil, false), Items: members("G", false, 1)}
		case 2:
			d = c12Decl{Kind: "struct", Item: genC12Item(t, []string{name("S")}, false), Items: members("F", true, 0)}
		case 3:
			d = c12Decl{Kind: "const", Item: genC12Item(t, []string{name("C")}, true)}
		case 4:
			d = c12Decl{Kind: "constgroup", Item: genC12Item(t, nil, false), Items: members("K", true, 1)}
		case 5:
			d = c12Decl{Kind: "var", Item: genC12Item(t, []string{name("V")}, true)}
		default:
			d = c12Decl{Kind: "vargroup", Item: genC12Item(t, nil, false), Items: members("W", true, 1)}
		}
		if (d.Kind == "struct" && len(d.Items) > 0 || strings.HasSuffix(d.Kind, "group")) && rapid.IntRange(0, 3).Draw(t, "opencmt") == 0 {
			d.OpenCmt = rapid.SampledFrom([]string{"opener", "+gengo:enum", "keep in sync with the table", "@tag t"}).Draw(t, "opencmttext")
		}
		d.Tight = i > 0 && rapid.IntRange(0, 2).Draw(t, "tight") == 0
		if d.Kind == "type" || d.Kind == "var" {
			d.Item.Multi = rapid.IntRange(0, 4).Draw(t, "multidecl") == 0
		}
		l.Decls = append(l.Decls, d)
	}
	if rapid.IntRange(0, 4).Draw(t, "linedirective") == 0 {
		l.LineAt = rapid.IntRange(1, len(l.Decls)-1).Draw(t, "lineat")
	}
	if rapid.IntRange(0, 3).Draw(t, "importcmt") == 0 {
		l.ImportCmt = rapid.SampledFrom([]string{"for side effects", "+gengo:runtimedoc", "Does things.", "@name value"}).Draw(t, "importcmttext")
		l.ImportTight = rapid.Bool().Draw(t, "importtight")
	}
	if rapid.IntRange(0, 7).Draw(t, "brokendep") == 0 {
		l.BrokenDep = true
	}
	return l
}

func (it c12Item) lead(b *strings.Builder, indent string) {
	if len(it.Detached) > 0 {
		for _, l := range it.Detached {
			fmt.Fprintf(b, "%s// %s\n", indent, l)
		}
		b.WriteString("\n")
	}
	if len(it.Doc) > 0 {
		if it.Block {
			// continuation lines start in column 1: a tab in front of a marker would make the line a non-tag
			fmt.Fprintf(b, "%s/* %s */\n", indent, strings.Join(it.Doc, "\n"))
		} else {
			for _, l := range it.Doc {
				fmt.Fprintf(b, "%s// %s\n", indent, l)
			}
		}
	}
}

func (it c12Item) tail() string {
	if it.Trailing == "" {
		return ""
	}
	return " // " + it.Trailing
}

func (l c12Layout) source() string {
	b := &strings.Builder{}
	b.WriteString("package p\n\n")
	if l.BrokenDep {
		b.WriteString("import _ \"m/broken\"\n\n")
	}
	if l.ImportCmt != "" {
		fmt.Fprintf(b, "import _ \"unsafe\" // %s\n", l.ImportCmt)
		if !l.ImportTight {
			b.WriteString("\n")
		}
	}
	for di, d := range l.Decls {
		if di > 0 && !d.Tight {
			b.WriteString("\n")
		}
		if l.LineAt > 0 && di == l.LineAt {
			b.WriteString("\n//line zz_grammar.y:100\n\n")
		}
		d.Item.lead(b, "")
		open := ""
		if d.OpenCmt != "" {
			open = " // " + d.OpenCmt
		}
		switch d.Kind {
		case "func":
			fmt.Fprintf(b, "func %s() {\n}%s\n", d.Item.Names[0], open)
		case "type":
			if d.Item.Multi {
				fmt.Fprintf(b, "type %s struct {\n\tInner int\n}%s\n", d.Item.Names[0], d.Item.tail())
			} else {
				fmt.Fprintf(b, "type %s int%s\n", d.Item.Names[0], d.Item.tail())
			}
		case "const":
			fmt.Fprintf(b, "const %s = 1%s\n", d.Item.Names[0], d.Item.tail())
		case "var":
			if d.Item.Multi {
				fmt.Fprintf(b, "var %s = []int{\n\t1,\n}%s\n", d.Item.Names[0], d.Item.tail())
			} else {
				fmt.Fprintf(b, "var %s int%s\n", d.Item.Names[0], d.Item.tail())
			}
		case "struct":
			if len(d.Items) == 0 {
				fmt.Fprintf(b, "type %s struct{}\n", d.Item.Names[0])
				continue
			}
			fmt.Fprintf(b, "type %s struct {%s\n", d.Item.Names[0], open)
			for _, it := range d.Items {
				it.lead(b, "\t")
				if it.Multi {
					fmt.Fprintf(b, "\t%s struct {\n\t\tInner int\n\t}%s\n", it.Names[0], it.tail())
				} else {
					fmt.Fprintf(b, "\t%s int%s\n", strings.Join(it.Names, ", "), it.tail())
				}
			}
			b.WriteString("}\n")
		case "typegroup":
			b.WriteString("type (" + open + "\n")
			for _, it := range d.Items {
				it.lead(b, "\t")
				if it.Multi {
					fmt.Fprintf(b, "\t%s interface {\n\t\tM()\n\t}%s\n", it.Names[0], it.tail())
				} else {
					fmt.Fprintf(b, "\t%s string%s\n", it.Names[0], it.tail())
				}
			}
			b.WriteString(")\n")
		case "constgroup", "vargroup":
			b.WriteString(strings.TrimSuffix(d.Kind, "group") + " (" + open + "\n")
			for _, it := range d.Items {
				it.lead(b, "\t")
				vals := make([]string, len(it.Names))
				for i := range vals {
					vals[i] = fmt.Sprint(i + 1)
				}
				if it.Multi {
					fmt.Fprintf(b, "\t%s = 1 +\n\t\t2%s\n", it.Names[0], it.tail())
				} else {
					fmt.Fprintf(b, "\t%s = %s%s\n", strings.Join(it.Names, ", "), strings.Join(vals, ", "), it.tail())
				}
			}
			b.WriteString(")\n")
		}
	}
	return b.String()
}

func checkItem(p gengotypes.Package, what string, pos token.Pos, it c12Item) error {
	wantTags, wantLines := refSplit(it.Doc, nil)
	if len(it.Doc) == 0 {
		wantTags, wantLines = map[string][]string{}, nil
	}
	// what a caller does with an earlier result must not show in a later one: gengo's own Context.Doc rewrites the first
	// line of the slice it gets in place (it strips the declared name), so do the same and worse to a first result
	t0, l0 := p.Doc(pos)
	for i := range l0 {
		l0[i] = "overwritten by the caller"
	}
	for k, v := range t0 {
		for i := range v {
			v[i] = "overwritten by the caller"
		}
		t0[k+"-added-by-the-caller"] = nil
	}
	tags, lines := p.Doc(pos)
	if len(tags) != len(wantTags) {
		return fmt.Errorf("%s: Doc tags = %v, want %v (doc written above it: %q)", what, tags, wantTags, it.Doc)
	}
	for k, v := range wantTags {
		if !reflect.DeepEqual(tags[k], v) {
			return fmt.Errorf("%s: Doc tag %q = %q, want %q", what, k, tags[k], v)
		}
	}
	if len(lines) != len(wantLines) {
		return fmt.Errorf("%s: Doc lines = %q, want %q (doc written above it: %q)", what, lines, wantLines, it.Doc)
	}
	for i := range lines {
		if strings.TrimSpace(lines[i]) != wantLines[i] {
			return fmt.Errorf("%s: Doc line %d = %q, want %q", what, i, lines[i], wantLines[i])
		}
	}
	if it.Multi {
		return nil // where the trailing comment of a multi-line declaration is reported is not asserted
	}
	cm := p.Comment(pos)
	var wantC []string
	if it.Trailing != "" {
		wantC = []string{it.Trailing}
	}
	if len(cm) != len(wantC) || (len(cm) == 1 && strings.TrimSpace(cm[0]) != wantC[0]) {
		return fmt.Errorf("%s: Comment = %q, want %q", what, cm, wantC)
	}
	return nil
}

func oracleC12Layout(l c12Layout) error {
	dir := tempDir()
	defer os.RemoveAll(dir)
	m := modspec.Mod{Path: "m", Go: "1.21", Pkgs: []modspec.Pkg{{Dir: "p", Name: "p", Other: []modspec.File{{Name: "p.go", Data: l.source()}}}}}
	if l.BrokenDep {
		m.Pkgs = append(m.Pkgs, modspec.Pkg{Dir: "broken", Name: "broken", Other: []modspec.File{{Name: "b.go", Data: "package broken\n\n// Count refers to a symbol that does not exist (yet)\nvar Count int = notGeneratedYet\n"}}})
	}
	writeMod(&m, dir)
	u, err := load(dir, "./p")
	if err != nil {
		panic("harness: layout does not load: " + err.Error() + "\n" + l.source())
	}
	p := u.Package("m/p")
	if p == nil {
		panic("harness: package m/p not loaded")
	}
	scope := p.Pkg().Scope()
	lookup := func(n string) types.Object {
		o := scope.Lookup(n)
		if o == nil {
			panic("harness: " + n + " not declared; source:\n" + l.source())
		}
		return o
	}
	for _, d := range l.Decls {
		switch d.Kind {
		case "type", "const", "var":
			if err := checkItem(p, d.Kind+" "+d.Item.Names[0], lookup(d.Item.Names[0]).Pos(), d.Item); err != nil {
				return fmt.Errorf("%w\n--- source ---\n%s", err, l.source())
			}
		case "func":
			// nothing is asserted about the function itself
		case "struct":
			o := lookup(d.Item.Names[0])
			self := d.Item
			self.Multi = self.Multi || d.OpenCmt != "" // whether the comment behind "struct {" is the declaration's trailing comment is not asserted
			if err := checkItem(p, "type "+d.Item.Names[0], o.Pos(), self); err != nil {
				return fmt.Errorf("%w\n--- source ---\n%s", err, l.source())
			}
			st := o.Type().Underlying().(*types.Struct)
			byName := map[string]*types.Var{}
			for i := 0; i < st.NumFields(); i++ {
				byName[st.Field(i).Name()] = st.Field(i)
			}
			for _, it := range d.Items {
				for _, n := range it.Names {
					if err := checkItem(p, "field "+d.Item.Names[0]+"."+n, byName[n].Pos(), it); err != nil {
						return fmt.Errorf("%w\n--- source ---\n%s", err, l.source())
					}
				}
			}
		default:
			for _, it := range d.Items {
				for _, n := range it.Names {
					if err := checkItem(p, strings.TrimSuffix(d.Kind, "group")+" "+n, lookup(n).Pos(), it); err != nil {
						return fmt.Errorf("%w\n--- source ---\n%s", err, l.source())
					}
				}
			}
		}
	}
	return nil
}

func c12Features(l c12Layout) []string {
	fs := map[string]bool{}
	prevTrailing := false
	visit := func(it c12Item, grouped bool) {
		if prevTrailing && len(it.Doc) == 0 {
			fs["undocumented-after-trailing-comment"] = true
		}
		if prevTrailing && len(it.Doc) > 0 {
			fs["documented-after-trailing-comment"] = true
		}
		if len(it.Detached) > 0 {
			fs["detached-comment"] = true
		}
		if grouped && len(it.Doc) > 0 {
			fs["grouped-with-doc"] = true
		}
		if it.Block {
			fs["block-comment-doc"] = true
		}
		if len(it.Names) > 1 {
			fs["multi-name"] = true
		}
		if it.Multi && it.Trailing != "" {
			fs["multi-line-declaration-with-trailing-comment"] = true
		}
		prevTrailing = it.Trailing != ""
	}
	if l.LineAt > 0 {
		fs["line-directive"] = true
	}
	for _, d := range l.Decls {
		if d.OpenCmt != "" {
			fs["comment-behind-opener-or-function-end"] = true
		}
		if d.Item.Names != nil || len(d.Item.Doc) > 0 || len(d.Item.Detached) > 0 {
			visit(d.Item, false)
		}
		if d.Kind == "struct" || strings.HasSuffix(d.Kind, "group") {
			prevTrailing = false
		}
		for _, it := range d.Items {
			visit(it, true)
		}
		if d.Kind == "struct" || strings.HasSuffix(d.Kind, "group") {
			prevTrailing = false
		}
	}
	out := make([]string, 0, len(fs))
	for k := range fs {
		out = append(out, k)
	}
	sort.Strings(out)
	return out
}

func TestC12(t *testing.T) {
	r := ev.Begin(t, ev.Meta{
		ID:    "C12",
		Level: "exploration",
		Rule: "layouts sub: source files of 2-8 declarations (ungrouped and grouped types, consts, vars, structs with single- and multi-name fields), each item " +
			"independently with no doc / 1-3 line doc (line comments or one block comment) / detached comment + blank line, and with or without a trailing comment; a " +
			"third of the comment lines are tag lines; the harness records what it wrote where and compares Doc(pos)/Comment(pos) of every object after types.Load; " +
			"non-trivial = an item follows a line with a trailing comment, or a detached comment, or a grouped item with doc. lines sub: arbitrary line lists and " +
			"marker sets against a reference splitter written from the statement (every line accounted for exactly once); distinct by JSON encoding",
		Assumptions: []string{
			"comment lines are non-empty, carry no leading/trailing blanks and do not start with go:; trailing comments are not placed on multi-line type declarations",
			"non-tag lines are compared modulo surrounding blanks",
		},
	})
	defer r.Finish()
	ev.Search(r, ev.Sub[c12Layout]{
		Name: "layouts", Gen: genC12Layout, Oracle: oracleC12Layout,
		NonTrivial: func(l c12Layout) bool {
			for _, f := range c12Features(l) {
				switch f {
				case "undocumented-after-trailing-comment", "documented-after-trailing-comment", "detached-comment", "grouped-with-doc":
					return true
				}
			}
			return false
		},
		Classes: c12Features,
		Budget:  ev.Budget{Quick: 250, Thorough: 3000}, MinNonTrivial: 0.5,
	})
	ev.Search(r, ev.Sub[c12Lines]{
		Name: "lines", Gen: genC12Lines, Oracle: oracleC12Lines,
		NonTrivial: func(c c12Lines) bool {
			tags, others := refSplit(c.Lines, []byte(c.Markers))
			return len(tags) > 0 && len(others) > 0
		},
		Budget: ev.Budget{Quick: 30000, Thorough: 300000}, MinNonTrivial: 0.2,
	})
}

func FuzzC12Tags(f *testing.F) {
	f.Add("+foo=value1\n+bar\n+foo value2\n+baz=\"qux\"\nplain", "")
	f.Add(" @a b=c \n#x", "#")
	f.Fuzz(func(t *testing.T, text string, markers string) {
		if !utf8.ValidString(text) {
			t.Skip()
		}
		for _, m := range []byte(markers) {
			if m >= 0x80 || m == ' ' {
				t.Skip()
			}
		}
		c := c12Lines{Lines: strings.Split(text, "\n"), Markers: markers}
		if err := ev.Guard(func() error { return oracleC12Lines(c) }); err != nil {
			ev.FuzzFail("C12", "lines", c, err)
			t.Fatal(err)
		}
	})
}
