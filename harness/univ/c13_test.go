package univ

import (
	"fmt"
	"go/token"
	"go/types"
	"hash/fnv"
	"os"
	"os/exec"
	"path/filepath"
	"sort"
	"strings"
	"testing"

	gengotypes "github.com/octohelm/gengo/pkg/types"
	"pgregory.net/rapid"

	"vt/internal/ev"
	"vt/internal/modspec"
)

// ---- C13: the loaded universe mirrors the type checker's view of each package ----

type c13Case struct {
	Mod modspec.Mod `json:"mod"`
	// Sibling: a second module that Mod requires through a replace directive (may be nil)
	Sibling  *modspec.Mod `json:"sibling,omitempty"`
	Features []string     `json:"features"`
	// ViaLink: the module is loaded through a symbolic link to its directory
	ViaLink bool `json:"vialink,omitempty"`
}

var c13Names = []string{"A", "B", "Item", "Node", "Box", "Pair", "inner", "opts", "Kind", "Color"}

func genC13Pkg(t *rapid.T, modPath, dir, name string, importable []string, feats map[string]bool) modspec.Pkg {
	p := modspec.Pkg{Dir: dir, Name: name}
	nfiles := rapid.IntRange(1, 2).Draw(t, "nfiles")
	perm := rapid.Permutation(c13Names).Draw(t, "names")
	used := 0
	next := func() string { used++; return perm[(used-1)%len(perm)] + strings.Repeat("x", (used-1)/len(perm)) }
	var defined []string
	var importsUsed []string
	for fi := 0; fi < nfiles; fi++ {
		f := modspec.GoFile{Name: fmt.Sprintf("f%d.go", fi)}
		var b strings.Builder
		nd := rapid.IntRange(1, 7).Draw(t, "ndecls")
		for di := 0; di < nd; di++ {
			switch rapid.IntRange(0, 13).Draw(t, "decl") {
			case 0, 1:
				n := next()
				defined = append(defined, n)
				fmt.Fprintf(&b, "type %s struct{ F int }\n\n", n)
				if rapid.Bool().Draw(t, "vm") {
					fmt.Fprintf(&b, "func (%s) Val%d() {}\n\n", n, di)
				}
				if rapid.Bool().Draw(t, "pm") {
					fmt.Fprintf(&b, "func (r *%s) Ptr%d() { _ = r }\n\n", n, di)
				}
				feats["methods"] = true
			case 2:
				n := next()
				defined = append(defined, n)
				fmt.Fprintf(&b, "type %s int\n\nfunc (v %s) String() string { return \"\" }\n\n", n, n)
				if rapid.Bool().Draw(t, "aliasrecv") {
					// methods declared through an alias of the type belong to the type
					fmt.Fprintf(&b, "type %sAlias = %s\n\nfunc (v %sAlias) ViaAlias%d() {}\n\nfunc (v *%sAlias) ViaAliasPtr%d() {}\n\n", n, n, n, di, n, di)
					feats["alias-receiver"] = true
				}
			case 3:
				// generic type with value and pointer receivers, receiver type parameter renamed
				n := next()
				tp := "T"
				if len(defined) > 0 && rapid.Bool().Draw(t, "shadowtp") {
					tp = rapid.SampledFrom(defined).Draw(t, "tp")
					feats["shadowing-type-parameter"] = true
				}
				fmt.Fprintf(&b, "type %s[%s any] struct{ V %s }\n\n", n, tp, tp)
				fmt.Fprintf(&b, "func (b %s[%s]) Get%d() %s { return b.V }\n\n", n, tp, di, tp)
				fmt.Fprintf(&b, "func (b *%s[U]) Set%d(v U) { b.V = v }\n\n", n, di)
				if rapid.Bool().Draw(t, "third") {
					fmt.Fprintf(&b, "func (*%s[_]) Noop%d() {}\n\n", n, di)
				}
				defined = append(defined, n)
				feats["generic-receiver"] = true
			case 4:
				n := next()
				defined = append(defined, n)
				fmt.Fprintf(&b, "type %s interface{ M%d() }\n\n", n, di)
			case 5:
				// grouped types and aliases
				n1, n2 := next(), next()
				defined = append(defined, n1)
				fmt.Fprintf(&b, "type (\n\t%s map[string]int\n\t%s = []int\n)\n\n", n1, n2)
				feats["grouped-declarations"] = true
			case 6:
				// function with local declarations reusing package-level names
				if rapid.IntRange(0, 3).Draw(t, "asvar") == 0 {
					// the body of a function literal that initialises a package-level variable is no FuncDecl
					fmt.Fprintf(&b, "var fn%d_%d = func() {\n", fi, di)
					feats["local-declarations-in-a-function-literal"] = true
				} else {
					fmt.Fprintf(&b, "func fn%d_%d() {\n", fi, di)
				}
				if len(defined) > 0 && rapid.Bool().Draw(t, "shadowlocal") {
					ln := rapid.SampledFrom(defined).Draw(t, "ln")
					fmt.Fprintf(&b, "\ttype %s struct{ Local bool }\n\t_ = %s{}\n", ln, ln)
					feats["local-type-reusing-name"] = true
				} else {
					fmt.Fprintf(&b, "\ttype local%d int\n\tconst lc%d = 1\n\t_ = local%d(lc%d)\n", di, di, di, di)
					feats["local-declarations"] = true
				}
				if rapid.Bool().Draw(t, "localconst") {
					fmt.Fprintf(&b, "\tconst C%d_%d = \"shadow\"\n\t_ = C%d_%d\n", fi, di, fi, di)
				}
				fmt.Fprintf(&b, "\tf := func() {}\n\tf()\n}\n\n")
			case 7:
				// generic function whose type parameter reuses a package-level name
				tp := "T"
				if len(defined) > 0 && rapid.Bool().Draw(t, "shadowfn") {
					tp = rapid.SampledFrom(defined).Draw(t, "tp")
					feats["shadowing-type-parameter"] = true
				}
				fmt.Fprintf(&b, "func gfn%d_%d[%s any](v %s) %s { return v }\n\n", fi, di, tp, tp, tp)
			case 8:
				fmt.Fprintf(&b, "const C%d_%d = %d\n\n", fi, di, di)
			case 9:
				fmt.Fprintf(&b, "const (\n\tK%d_%d_a = iota\n\tK%d_%d_b\n\t_\n\tK%d_%d_c\n)\n\n", fi, di, fi, di, fi, di)
				feats["grouped-declarations"] = true
			case 10:
				fmt.Fprintf(&b, "var V%d_%d, W%d_%d = 1, \"x\"\n\n", fi, di, fi, di)
			case 11:
				fmt.Fprintf(&b, "func init() {}\n\nfunc _() {}\n\n")
				feats["init-and-blank-func"] = true
			case 12:
				fmt.Fprintf(&b, "func F%d_%d(a int) (int, error) { return a, nil }\n\n", fi, di)
			default:
				if len(importable) > 0 {
					imp := rapid.SampledFrom(importable).Draw(t, "imp")
					dup := false
					for _, e := range importsUsed {
						if e == imp {
							dup = true
						}
					}
					if !dup {
						importsUsed = append(importsUsed, imp)
						switch rapid.IntRange(0, 2).Draw(t, "impform") {
						case 0:
							f.Imports = append(f.Imports, imp) // blank import
						case 1:
							f.Imports = append(f.Imports, fmt.Sprintf("al%d %s", len(importsUsed), imp))
							fmt.Fprintf(&b, "var _ al%d.Exported\n\n", len(importsUsed))
						default:
							f.Imports = append(f.Imports, fmt.Sprintf("al%d %s", len(importsUsed), imp))
							fmt.Fprintf(&b, "type Use%d_%d = al%d.Exported\n\n", fi, di, len(importsUsed))
						}
					}
				}
			}
		}
		f.Decls = []modspec.Decl{{Kind: "raw", Text: b.String()}}
		p.Files = append(p.Files, f)
	}
	// every package exports one type so that it can be imported and used
	p.Files[0].Decls = append(p.Files[0].Decls, modspec.Decl{Kind: "raw", Text: "type Exported struct{ X int }\n"})
	if len(importsUsed) >= 2 {
		feats["two-or-more-imports"] = true
	}
	return p
}

func genC13(t *rapid.T) c13Case {
	c := c13Case{}
	feats := map[string]bool{}
	c.Mod.Path = rapid.SampledFrom([]string{"m", "example.com/m", "a.b/c-d"}).Draw(t, "modpath")
	c.Mod.Go = rapid.SampledFrom([]string{"1.21", "1.22", "1.24"}).Draw(t, "go")
	var sibImport []string
	if rapid.IntRange(0, 3).Draw(t, "sibling") == 0 {
		s := modspec.Mod{Path: "example.com/sib", Go: "1.21"}
		s.Pkgs = append(s.Pkgs, genC13Pkg(t, s.Path, "", "sib", nil, feats), genC13Pkg(t, s.Path, "deep/er", "er", nil, feats))
		c.Sibling = &s
		sibImport = []string{"example.com/sib", "example.com/sib/deep/er"}
		feats["replaced-sibling-module"] = true
	}
	dirs := []struct{ dir, name string }{{"", "root"}, {"a", "a"}, {"b/c", "cee"}, {"d", "main"}, {"e", "e"}}
	np := rapid.IntRange(1, 4).Draw(t, "npkgs")
	start := rapid.IntRange(0, len(dirs)-1).Draw(t, "start")
	var chosen []struct{ dir, name string }
	for i := 0; i < np; i++ {
		chosen = append(chosen, dirs[(start+i)%len(dirs)])
	}
	for i, d := range chosen {
		var importable []string
		for _, l := range chosen[i+1:] {
			if l.name != "main" {
				pp := c.Mod.Path
				if l.dir != "" {
					pp += "/" + l.dir
				}
				importable = append(importable, pp)
			}
		}
		importable = append(importable, sibImport...)
		c.Mod.Pkgs = append(c.Mod.Pkgs, genC13Pkg(t, c.Mod.Path, d.dir, d.name, importable, feats))
	}
	for f := range feats {
		c.Features = append(c.Features, f)
	}
	if rapid.IntRange(0, 4).Draw(t, "vialink") == 0 {
		c.ViaLink = true
		c.Features = append(c.Features, "loaded-through-a-symbolic-link")
	}
	sort.Strings(c.Features)
	return c
}

func objNames[T types.Object](m map[string]T) []string {
	out := make([]string, 0, len(m))
	for k := range m {
		out = append(out, k)
	}
	sort.Strings(out)
	return out
}

func funcSet(fs []*types.Func) []string {
	out := make([]string, 0, len(fs))
	for _, f := range fs {
		out = append(out, fmt.Sprintf("%s@%d", f.Name(), f.Pos()))
	}
	sort.Strings(out)
	return out
}

// checkPackage compares one gengo Package with go/types' own view of it.
func checkPackage(u *gengotypes.Universe, p gengotypes.Package, files []string, wantDir string) error {
	tp := p.Pkg()
	path := tp.Path()
	scope := tp.Scope()
	var wantTypes, wantConsts, wantFuncs []string
	for _, n := range scope.Names() {
		if n == "_" {
			continue
		}
		switch scope.Lookup(n).(type) {
		case *types.TypeName:
			wantTypes = append(wantTypes, n)
		case *types.Const:
			wantConsts = append(wantConsts, n)
		case *types.Func:
			wantFuncs = append(wantFuncs, n)
		}
	}
	strip := func(names []string, drop ...string) []string {
		var out []string
		for _, n := range names {
			skip := false
			for _, d := range drop {
				if n == d {
					skip = true
				}
			}
			if !skip {
				out = append(out, n)
			}
		}
		return out
	}
	// which accessor is the first one ever called on this package differs from package to package (an index built on first use
	// must be built by every accessor)
	accessors := []func() error{
		func() error {
			if got := objNames(p.Types()); strings.Join(got, ",") != strings.Join(wantTypes, ",") {
				return fmt.Errorf("%s: Types() = %v, package scope has %v", path, got, wantTypes)
			}
			return nil
		},
		func() error {
			if got := objNames(p.Constants()); strings.Join(got, ",") != strings.Join(wantConsts, ",") {
				return fmt.Errorf("%s: Constants() = %v, package scope has %v", path, got, wantConsts)
			}
			return nil
		},
		func() error {
			if got := strip(objNames(p.Functions()), "_", "init"); strings.Join(got, ",") != strings.Join(wantFuncs, ",") {
				return fmt.Errorf("%s: Functions() = %v, package scope has %v", path, got, wantFuncs)
			}
			return nil
		},
		func() error {
			for _, n := range wantConsts {
				if p.Constant(n) != scope.Lookup(n) {
					return fmt.Errorf("%s: Constant(%q) (asked before anything else) is not the package-scope object", path, n)
				}
			}
			return nil
		},
		func() error {
			for _, n := range wantTypes {
				if p.Type(n) != scope.Lookup(n) {
					return fmt.Errorf("%s: Type(%q) (asked before anything else) is not the package-scope object", path, n)
				}
			}
			return nil
		},
		func() error {
			for _, n := range wantFuncs {
				if p.Function(n) != scope.Lookup(n) {
					return fmt.Errorf("%s: Function(%q) (asked before anything else) is not the package-scope object", path, n)
				}
			}
			return nil
		},
	}
	accessors = append(accessors, func() error {
		// predeclared identifiers are not package-scope names (unless the package declares them itself)
		for _, n := range []string{"int", "string", "error", "any", "bool", "comparable", "true", "false", "iota", "nil", "len", "append", "byte"} {
			if scope.Lookup(n) != nil {
				continue
			}
			if o := p.Type(n); o != nil {
				return fmt.Errorf("%s: Type(%q) = %v, the package declares no such type", path, n, o)
			}
			if o := p.Constant(n); o != nil {
				return fmt.Errorf("%s: Constant(%q) = %v, the package declares no such constant", path, n, o)
			}
			if o := p.Function(n); o != nil {
				return fmt.Errorf("%s: Function(%q) = %v, the package declares no such function", path, n, o)
			}
		}
		return nil
	})
	accessors = append(accessors, func() error {
		// the blank identifier names nothing
		if o := p.Type("_"); o != nil {
			return fmt.Errorf("%s: Type(\"_\") = %v, the blank identifier is not a package-scope name", path, o)
		}
		if o := p.Constant("_"); o != nil {
			return fmt.Errorf("%s: Constant(\"_\") = %v, the blank identifier is not a package-scope name", path, o)
		}
		return nil
	})
	h := fnv.New32a()
	h.Write([]byte(path + os.Getenv("VT_SEED")))
	first := int(h.Sum32() % uint32(len(accessors)))
	for i := range accessors {
		if err := accessors[(first+i)%len(accessors)](); err != nil {
			return fmt.Errorf("%w (accessor #%d of 8 was the first one called on the package)", err, first)
		}
	}
	for _, n := range wantTypes {
		if p.Types()[n] != scope.Lookup(n) || p.Type(n) != scope.Lookup(n) {
			return fmt.Errorf("%s: Type(%q) is not the package-scope object (got %v declared at %v, scope object at %v)", path, n, p.Type(n), p.Type(n).Pos(), scope.Lookup(n).Pos())
		}
	}
	for _, n := range wantConsts {
		if p.Constants()[n] != scope.Lookup(n) || p.Constant(n) != scope.Lookup(n) {
			return fmt.Errorf("%s: Constant(%q) is not the package-scope object", path, n)
		}
	}
	for _, n := range wantFuncs {
		if p.Functions()[n] != scope.Lookup(n) || p.Function(n) != scope.Lookup(n) {
			return fmt.Errorf("%s: Function(%q) is not the package-scope object", path, n)
		}
	}
	// methods
	for _, n := range wantTypes {
		named, ok := scope.Lookup(n).Type().(*types.Named)
		if !ok {
			continue
		}
		if _, isIface := named.Underlying().(*types.Interface); isIface {
			continue
		}
		var all, val []*types.Func
		for i := 0; i < named.NumMethods(); i++ {
			m := named.Method(i)
			all = append(all, m)
			if _, isPtr := m.Type().(*types.Signature).Recv().Type().(*types.Pointer); !isPtr {
				val = append(val, m)
			}
		}
		// asked repeatedly and in both orders: the answer must not depend on earlier calls
		for round := 0; round < 3; round++ {
			if got, want := funcSet(p.MethodsOf(named, true)), funcSet(all); strings.Join(got, ",") != strings.Join(want, ",") {
				return fmt.Errorf("%s: MethodsOf(%s, true) = %v (call round %d), declared methods are %v", path, n, got, round, want)
			}
			if got, want := funcSet(p.MethodsOf(named, false)), funcSet(val); strings.Join(got, ",") != strings.Join(want, ",") {
				return fmt.Errorf("%s: MethodsOf(%s, false) = %v (call round %d), value-receiver methods are %v", path, n, got, round, want)
			}
		}
	}
	// imports
	// import paths as written in the source; the standard library vendors some dependencies, whose packages are
	// registered (and known to go/types) under "vendor/<import path>"
	wantImports := map[string]bool{}
	for _, ip := range tp.Imports() {
		wantImports[strings.TrimPrefix(ip.Path(), "vendor/")] = true
	}
	gotImports := map[string]bool{}
	for k := range p.Imports() {
		gotImports[strings.TrimPrefix(k, "vendor/")] = true
	}
	for k := range wantImports {
		if !gotImports[k] {
			return fmt.Errorf("%s: Imports() lacks %q, which the package imports (has %v)", path, k, keysOf(gotImports))
		}
	}
	for k := range gotImports {
		if !wantImports[k] {
			return fmt.Errorf("%s: Imports() has %q, which the package does not import (imports %v)", path, k, keysOf(wantImports))
		}
	}
	for k, v := range p.Imports() {
		if v == nil {
			return fmt.Errorf("%s: Imports()[%q] is nil", path, k)
		}
		if strings.TrimPrefix(v.Pkg().Path(), "vendor/") != strings.TrimPrefix(k, "vendor/") {
			return fmt.Errorf("%s: Imports()[%q] is package %s", path, k, v.Pkg().Path())
		}
		if v != u.Package(v.Pkg().Path()) {
			return fmt.Errorf("%s: Imports()[%q] is not the Package that Universe.Package(%q) returns", path, k, v.Pkg().Path())
		}
	}
	// location
	if p.Module() != nil && len(files) > 0 {
		dir := filepath.Dir(files[0])
		if wantDir != "" {
			dir = wantDir
		}
		if p.SourceDir() != dir {
			return fmt.Errorf("%s: SourceDir() = %q, its files are in %q", path, p.SourceDir(), dir)
		}
		for _, f := range p.Files() {
			// any position of the file: its first and last byte (licence header, final newline), comments, the package clause, declarations
			poss := []token.Pos{f.Package, f.FileStart, f.FileStart + (f.FileEnd-f.FileStart)/2}
			if f.FileEnd > f.FileStart {
				poss = append(poss, f.FileEnd-1)
			}
			if len(f.Comments) > 0 {
				poss = append(poss, f.Comments[0].Pos(), f.Comments[len(f.Comments)-1].End()-1)
			}
			if len(f.Decls) > 0 {
				poss = append(poss, f.Decls[0].Pos(), f.Decls[len(f.Decls)-1].End()-1)
			}
			for _, pos := range poss {
				if tf := p.FileSet().File(pos); tf != nil && filepath.Dir(tf.Name()) != dir && filepath.Dir(p.FileSet().Position(pos).Filename) != dir {
					// a rewritten copy outside the package directory (cgo) and a position that no //line directive maps back
					// into the source (the copy's own header): it lies in no file of the package
					continue
				}
				lp := u.LocateInPackage(pos)
				if lp != p {
					got := "<nil>"
					if lp != nil {
						got = lp.Pkg().Path()
					}
					return fmt.Errorf("%s: LocateInPackage(%s) = %s", path, p.FileSet().Position(pos), got)
				}
			}
		}
	}
	return nil
}

func keysOf(m map[string]bool) []string {
	out := make([]string, 0, len(m))
	for k := range m {
		out = append(out, k)
	}
	sort.Strings(out)
	return out
}

// walkUniverse visits every package reachable from the given roots through go/types imports.
func walkUniverse(u *gengotypes.Universe, roots []string, visit func(p gengotypes.Package) error) (int, error) {
	seen := map[string]bool{}
	var rec func(path string) error
	n := 0
	rec = func(path string) error {
		if seen[path] || path == "unsafe" {
			return nil
		}
		seen[path] = true
		p := u.Package(path)
		if p == nil {
			return fmt.Errorf("Universe.Package(%q) is nil although the package is in the import closure", path)
		}
		n++
		if err := visit(p); err != nil {
			return err
		}
		for _, ip := range p.Pkg().Imports() {
			if err := rec(ip.Path()); err != nil {
				return err
			}
		}
		return nil
	}
	for _, r := range roots {
		if err := rec(r); err != nil {
			return n, err
		}
	}
	return n, nil
}

func filesOf(p gengotypes.Package) []string {
	var out []string
	for _, f := range p.Files() {
		out = append(out, p.FileSet().Position(f.Package).Filename)
	}
	return out
}

func oracleC13(c c13Case) error {
	root := tempDir()
	defer os.RemoveAll(root)
	mainDir := filepath.Join(root, "main")
	mod := c.Mod
	if c.Sibling != nil {
		writeMod(c.Sibling, filepath.Join(root, "sib"))
		mod.Extra = append(mod.Extra, modspec.File{Name: "go.mod", Data: fmt.Sprintf("module %s\n\ngo %s\n\nrequire example.com/sib v0.0.0\n\nreplace example.com/sib => ../sib\n", mod.Path, mod.Go)})
	}
	writeMod(&mod, mainDir)
	if c.ViaLink {
		link := filepath.Join(root, "linked")
		if err := os.Symlink(mainDir, link); err != nil {
			panic("harness: symlink: " + err.Error())
		}
		mainDir = link
	}
	u, err := load(mainDir, "./...")
	if err != nil {
		panic("harness: synthetic module does not load: " + err.Error())
	}
	var roots []string
	for pp := range u.LocalPkgPaths() {
		roots = append(roots, pp)
	}
	if len(roots) != len(c.Mod.Pkgs) {
		panic(fmt.Sprintf("harness: %d local packages loaded, spec has %d", len(roots), len(c.Mod.Pkgs)))
	}
	_, err = walkUniverse(u, roots, func(p gengotypes.Package) error {
		files := filesOf(p)
		wantDir := ""
		if mp := c.Mod.PkgByPath(p.Pkg().Path()); mp != nil {
			wantDir = filepath.Join(mainDir, filepath.FromSlash(mp.Dir))
		} else if c.Sibling != nil {
			if sp := c.Sibling.PkgByPath(p.Pkg().Path()); sp != nil {
				wantDir = filepath.Join(root, "sib", filepath.FromSlash(sp.Dir))
			}
		}
		return checkPackage(u, p, files, wantDir)
	})
	return err
}

func c13NonTrivial(c c13Case) bool {
	for _, f := range c.Features {
		switch f {
		case "local-type-reusing-name", "shadowing-type-parameter", "generic-receiver", "two-or-more-imports":
			return true
		}
	}
	return false
}

type c13Closure struct {
	Root string `json:"root"`
}

func TestC13(t *testing.T) {
	r := ev.Begin(t, ev.Meta{
		ID:    "C13",
		Level: "exploration",
		Rule: "synthetic sub: modules of 1-4 packages (plus an optional sibling module reached through a replace directive) whose files mix defined types with value/" +
			"pointer methods, generic types with value/pointer/renamed/blank receivers, interfaces, grouped types and aliases, functions with local types and constants " +
			"that reuse package-level names, generic functions and types whose type parameters reuse package-level names, grouped constants with iota and blanks, " +
			"init and blank functions, blank / named imports; every package of the loaded closure is compared with go/types (scope objects by identity, Named.Method(i), " +
			"Package.Imports, file directories); closure sub: every package of /repo's own dependency closure (std included) gets the same comparison; non-trivial = " +
			"local declaration reusing a package-level name | generic type with methods | >=2 imports; distinct by JSON encoding (closure: per package)",
		Assumptions: []string{
			"blank-named functions and `init` are ignored (blank-named types and constants must be absent); interfaces are skipped for MethodsOf",
			"go/types (Pkg().Scope(), Named.Method, Package.Imports) is the reference",
		},
	})
	defer r.Finish()
	ev.Search(r, ev.Sub[c13Case]{
		Name: "synthetic", Gen: genC13, Oracle: oracleC13, NonTrivial: c13NonTrivial,
		Classes: func(c c13Case) []string { return c.Features },
		Budget:  ev.Budget{Quick: 150, Thorough: 2000}, MinNonTrivial: 0.4,
	})
	if r.Shard == 0 {
		c13ClosureSweep(r, "closure", repoDir(), false)
	}
	if r.Shard == r.NSh-1 {
		// a module that imports net/http: the standard library's vendored dependencies are part of the closure
		dir := tempDir()
		defer os.RemoveAll(dir)
		m := modspec.Mod{Path: "m", Go: "1.21", Pkgs: []modspec.Pkg{{Dir: "web", Name: "web", Other: []modspec.File{{Name: "web.go", Data: "package web\n\nimport \"net/http\"\n\nvar Client http.Client\n"}}}}}
		writeMod(&m, dir)
		c13ClosureSweep(r, "std-http", dir, true)
	}
	if r.Shard == r.NSh-1 {
		// a module package with a cgo file: go/packages parses the cgo-rewritten copy from the build cache, which points back to
		// the source through //line directives
		if _, err := exec.LookPath("gcc"); err == nil && os.Getenv("CGO_ENABLED") != "0" {
			dir := tempDir()
			defer os.RemoveAll(dir)
			m := modspec.Mod{Path: "m", Go: "1.21", Pkgs: []modspec.Pkg{{Dir: "cg", Name: "cg", Other: []modspec.File{
				{Name: "cg.go", Data: "// Copyright header\n\n// Package cg uses cgo.\npackage cg\n\n/*\nstatic int add(int a, int b) { return a + b; }\n*/\nimport \"C\"\n\n// InCgoFile is declared in the file that imports C.\ntype InCgoFile struct{ A int }\n\n// Sum adds through C.\nfunc Sum(a, b int) int { return int(C.add(C.int(a), C.int(b))) }\n\nconst InCgoConst = 1\n"},
				{Name: "plain.go", Data: "package cg\n\n// Plain is declared in an ordinary file.\ntype Plain struct{ B int }\n\nfunc (Plain) M() {}\n"},
			}}}}
			writeMod(&m, dir)
			c13ClosureSweep(r, "cgo", dir, true)
		}
	}
}

type c13Pkg struct {
	Path string `json:"path"`
}

// c13ClosureSweep loads /repo's whole closure once and checks every package.
func c13ClosureSweep(r *ev.Recorder, sub string, dir string, replayReload bool) {
	var u *gengotypes.Universe
	var roots []string
	loadOnce := func() {
		if u != nil {
			return
		}
		var err error
		u, err = load(dir, "./...")
		if err != nil {
			panic("harness: cannot load the repository closure: " + err.Error())
		}
		for pp := range u.LocalPkgPaths() {
			roots = append(roots, pp)
		}
	}
	oracle := func(c c13Pkg) error {
		loadOnce()
		p := u.Package(c.Path)
		if p == nil {
			return fmt.Errorf("Universe.Package(%q) is nil", c.Path)
		}
		return checkPackage(u, p, filesOf(p), "")
	}
	ev.Enumerate(r, sub, func(yield func(c13Pkg) bool) {
		loadOnce()
		var paths []string
		_, err := walkUniverse(u, roots, func(p gengotypes.Package) error {
			paths = append(paths, p.Pkg().Path())
			return nil
		})
		if err != nil {
			panic("harness: " + err.Error())
		}
		sort.Strings(paths)
		r.Extra(sub+"_packages", len(paths))
		for _, pp := range paths {
			if !yield(c13Pkg{Path: pp}) {
				return
			}
		}
	}, oracle, func(c c13Pkg) bool {
		loadOnce()
		p := u.Package(c.Path)
		return p != nil && (len(p.Pkg().Imports()) >= 2 || len(p.Types()) > 0)
	}, nil)
}
