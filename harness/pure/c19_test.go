package pure

import (
	"encoding/json"
	"fmt"
	"os"
	"os/exec"
	"path/filepath"
	"strconv"
	"strings"
	"sync"
	"testing"
	"unicode"
	"unicode/utf8"

	"github.com/octohelm/gengo/pkg/camelcase"
	"github.com/octohelm/gengo/pkg/gengo"
	"pgregory.net/rapid"

	"vt/internal/ev"
)

// ---- C19: word splitting is total and lossless; case conversion never fails ----

type c19Case struct {
	// Bytes of the input, kept as a byte list so that invalid UTF-8 survives JSON.
	B []byte `json:"b"`
}

func (c c19Case) S() string { return string(c.B) }

var c19Pieces = []string{
	"_", "-", " ", ".", "/", "\t", "\n", "__", "--", "$", "@", "'", "%", "·", " ", "​",
	"a", "z", "id", "ID", "Id", "iD", "http", "HTTP", "Http", "x", "X", "URL", "v", "V",
	"0", "9", "42", "٣", "²", "Ⅷ",
	"é", "É", "ß", "ẞ", "ǅ", "ǆ", "Ǆ", "σ", "ς", "Σ", "я", "Я", "İ", "ı", "ſ", "K",
	"中", "文", "́", "é", "🙂",
	"\xff", "\xc3", "\xe2\x82", "\xed\xa0\x80",
}

func genC19(t *rapid.T) c19Case {
	n := rapid.IntRange(0, 12).Draw(t, "n")
	var b strings.Builder
	for i := 0; i < n; i++ {
		switch rapid.IntRange(0, 9).Draw(t, "kind") {
		case 0, 1, 2, 3:
			b.WriteString(rapid.SampledFrom(c19Pieces).Draw(t, "piece"))
		case 4, 5:
			b.WriteString(rapid.StringMatching(`[a-z]{1,4}|[A-Z]{1,4}|[0-9]{1,3}|[A-Z][a-z]{1,3}`).Draw(t, "word"))
		case 6:
			b.WriteRune(rapid.Rune().Draw(t, "rune"))
		case 7:
			b.WriteString(rapid.SampledFrom([]string{"_", "-", " ", ".", "/"}).Draw(t, "sep"))
		case 8:
			b.WriteByte(rapid.Byte().Draw(t, "byte"))
		case 9:
			b.WriteString(rapid.String().Draw(t, "str"))
		}
	}
	return c19Case{B: []byte(b.String())}
}

func runeClass(r rune) int {
	switch {
	case unicode.IsLower(r):
		return 1
	case unicode.IsUpper(r):
		return 2
	case unicode.IsDigit(r):
		return 3
	}
	return 0
}

func c19NonTrivial(c c19Case) bool {
	s := c.S()
	if s == "" {
		return false
	}
	if !utf8.ValidString(s) {
		return true
	}
	first, _ := utf8.DecodeRuneInString(s)
	if !unicode.IsLetter(first) && !unicode.IsDigit(first) {
		return true
	}
	seen := map[int]bool{}
	for _, r := range s {
		seen[runeClass(r)] = true
	}
	return len(seen) >= 3
}

func c19Classes(c c19Case) []string {
	s := c.S()
	var cl []string
	if s == "" {
		return []string{"empty"}
	}
	if !utf8.ValidString(s) {
		cl = append(cl, "invalid-utf8")
	} else {
		first, _ := utf8.DecodeRuneInString(s)
		if !unicode.IsLetter(first) && !unicode.IsDigit(first) {
			cl = append(cl, "leading-other")
		}
		for _, r := range s {
			if r > unicode.MaxASCII {
				cl = append(cl, "non-ascii")
				break
			}
		}
	}
	return cl
}

var c19Converters = []struct {
	name string
	f    func(string) string
	g    func(string) string // same converter re-exported by pkg/gengo
}{
	{"LowerSnakeCase", camelcase.LowerSnakeCase, gengo.LowerSnakeCase},
	{"UpperSnakeCase", camelcase.UpperSnakeCase, gengo.UpperSnakeCase},
	{"LowerKebabCase", camelcase.LowerKebabCase, gengo.LowerKebabCase},
	{"UpperKebabCase", camelcase.UpperKebabCase, gengo.UpperKebabCase},
	{"LowerCamelCase", camelcase.LowerCamelCase, gengo.LowerCamelCase},
	{"UpperCamelCase", camelcase.UpperCamelCase, gengo.UpperCamelCase},
}

func oracleC19(c c19Case) error {
	s := c.S()
	var words []string
	if p := ev.Panics(func() { words = camelcase.Split(s) }); p != nil {
		return fmt.Errorf("Split(%q) panics: %v", s, p)
	}
	if !utf8.ValidString(s) {
		if len(words) != 1 || words[0] != s {
			return fmt.Errorf("Split(%q) on invalid UTF-8 = %q, want the whole string as one word", s, words)
		}
	} else {
		for i, w := range words {
			if w == "" {
				return fmt.Errorf("Split(%q) = %q: word %d is empty", s, words, i)
			}
		}
		if got := strings.Join(words, ""); got != s {
			return fmt.Errorf("Split(%q) = %q: concatenation %q differs from the input", s, words, got)
		}
	}
	// Split is a pure function
	var again []string
	if p := ev.Panics(func() { again = camelcase.Split(s) }); p != nil {
		return fmt.Errorf("second Split(%q) panics: %v", s, p)
	}
	if fmt.Sprintf("%q", again) != fmt.Sprintf("%q", words) {
		return fmt.Errorf("Split(%q) not pure: %q then %q", s, words, again)
	}
	for _, cv := range c19Converters {
		var r1, r2, r3, r4 string
		if p := ev.Panics(func() { r1 = cv.f(s) }); p != nil {
			return fmt.Errorf("%s(%q) panics: %v", cv.name, s, p)
		}
		if p := ev.Panics(func() { r2 = cv.f(s) }); p != nil {
			return fmt.Errorf("%s(%q) panics on the second call: %v", cv.name, s, p)
		}
		done := make(chan any, 1)
		go func() {
			done <- ev.Panics(func() { r3 = cv.f(s) })
		}()
		if p := <-done; p != nil {
			return fmt.Errorf("%s(%q) panics in another goroutine: %v", cv.name, s, p)
		}
		if p := ev.Panics(func() { r4 = cv.g(s) }); p != nil {
			return fmt.Errorf("gengo.%s(%q) panics: %v", cv.name, s, p)
		}
		if r1 != r2 || r1 != r3 || r1 != r4 {
			return fmt.Errorf("%s(%q) is not a pure function: %q, %q, %q, %q", cv.name, s, r1, r2, r3, r4)
		}
	}
	return nil
}

// ---- purity across call histories: the same inputs, converted in two fresh processes in opposite orders ----

type c19History struct {
	Inputs [][]byte `json:"inputs"`
}

var c19Vocabulary = []string{"id", "ID", "user", "User", "URL", "url", "api", "API", "v2", "name", "HTTP", "http", "x", "s", "Id", "2fa", "é", "Server"}

func genC19History(t *rapid.T) c19History {
	var h c19History
	n := rapid.IntRange(4, 24).Draw(t, "ninputs")
	for i := 0; i < n; i++ {
		k := rapid.IntRange(1, 3).Draw(t, "nwords")
		var b strings.Builder
		for j := 0; j < k; j++ {
			if j > 0 {
				b.WriteString(rapid.SampledFrom([]string{"_", "-", " ", "", "."}).Draw(t, "joiner"))
			}
			b.WriteString(rapid.SampledFrom(c19Vocabulary).Draw(t, "word"))
		}
		h.Inputs = append(h.Inputs, []byte(b.String()))
	}
	if rapid.IntRange(0, 2).Draw(t, "long") == 0 {
		// one very long identifier (outputs beyond 1 KiB, 4 KiB) somewhere in the history
		var b strings.Builder
		target := rapid.SampledFrom([]int{600, 1100, 2100, 4200, 9000}).Draw(t, "longbytes")
		for b.Len() < target {
			b.WriteString(rapid.SampledFrom(c19Vocabulary).Draw(t, "longword"))
			b.WriteString(rapid.SampledFrom([]string{"_", "", "-"}).Draw(t, "longjoiner"))
		}
		at := rapid.IntRange(0, len(h.Inputs)).Draw(t, "longat")
		h.Inputs = append(h.Inputs[:at], append([][]byte{[]byte(b.String())}, h.Inputs[at:]...)...)
	}
	return h
}

// c19Convert applies every converter (and Split) to the inputs in the given order and returns the results by input index.
func c19Convert(inputs [][]byte, order []int) [][]string {
	out := make([][]string, len(inputs))
	for _, i := range order {
		s := string(inputs[i])
		row := []string{strconv.QuoteToASCII(strings.Join(camelcase.Split(s), "|"))}
		for _, cv := range c19Converters {
			row = append(row, strconv.QuoteToASCII(cv.f(s)))
		}
		out[i] = row
	}
	return out
}

// TestC19Child is the child role: a fresh process converts the inputs in the requested order.
func TestC19Child(t *testing.T) {
	f := os.Getenv("VT_C19_CHILD")
	if f == "" {
		t.Skip("child role only")
	}
	b, err := os.ReadFile(f)
	if err != nil {
		t.Fatal(err)
	}
	var job struct {
		Inputs [][]byte `json:"inputs"`
		Order  []int    `json:"order"`
	}
	if err := json.Unmarshal(b, &job); err != nil {
		t.Fatal(err)
	}
	out, _ := json.Marshal(c19Convert(job.Inputs, job.Order))
	if err := os.WriteFile(f+".out", out, 0o644); err != nil {
		t.Fatal(err)
	}
}

func c19InChild(inputs [][]byte, order []int) [][]string {
	dir, err := os.MkdirTemp("", "c19")
	if err != nil {
		panic("harness: " + err.Error())
	}
	defer os.RemoveAll(dir)
	in := filepath.Join(dir, "job.json")
	b, _ := json.Marshal(map[string]any{"inputs": inputs, "order": order})
	if err := os.WriteFile(in, b, 0o644); err != nil {
		panic("harness: " + err.Error())
	}
	cmd := exec.Command(os.Args[0], "-test.run", "^TestC19Child$")
	cmd.Env = append(os.Environ(), "VT_C19_CHILD="+in, "VT_OUT=")
	if out, err := cmd.CombinedOutput(); err != nil {
		panic(fmt.Sprintf("harness: child failed: %v\n%s", err, out))
	}
	rb, err := os.ReadFile(in + ".out")
	if err != nil {
		panic("harness: " + err.Error())
	}
	var res [][]string
	if err := json.Unmarshal(rb, &res); err != nil {
		panic("harness: " + err.Error())
	}
	return res
}

func oracleC19History(h c19History) error {
	n := len(h.Inputs)
	fwd, rev := make([]int, n), make([]int, n)
	for i := range fwd {
		fwd[i], rev[i] = i, n-1-i
	}
	a, b := c19InChild(h.Inputs, fwd), c19InChild(h.Inputs, rev)
	names := []string{"Split"}
	for _, cv := range c19Converters {
		names = append(names, cv.name)
	}
	for i := range h.Inputs {
		for k := range names {
			if a[i][k] != b[i][k] {
				return fmt.Errorf("%s(%q) = %s in a fresh process that converts %q first-to-last, and %s in one that converts them last-to-first: not a pure function of its input",
					names[k], h.Inputs[i], a[i][k], inputsAsStrings(h.Inputs), b[i][k])
			}
		}
	}
	return nil
}

// ---- purity under simultaneous callers: a pure function gives every goroutine the sequential answer ----

type c19Conc struct {
	Inputs     [][]byte `json:"inputs"`
	Goroutines int      `json:"goroutines"`
	Rounds     int      `json:"rounds"`
}

func genC19Conc(t *rapid.T) c19Conc {
	c := c19Conc{Goroutines: rapid.SampledFrom([]int{2, 4, 8, 16}).Draw(t, "goroutines"), Rounds: rapid.IntRange(5, 40).Draw(t, "rounds")}
	if rapid.Bool().Draw(t, "vocab") {
		c.Inputs = genC19History(t).Inputs
	} else {
		n := rapid.IntRange(2, 12).Draw(t, "ninputs")
		for i := 0; i < n; i++ {
			c.Inputs = append(c.Inputs, genC19(t).B)
		}
	}
	return c
}

func oracleC19Conc(c c19Conc) error {
	n := len(c.Inputs)
	seq := make([]int, n)
	for i := range seq {
		seq[i] = i
	}
	var want [][]string
	if p := ev.Panics(func() { want = c19Convert(c.Inputs, seq) }); p != nil {
		return fmt.Errorf("sequential conversion of %q panics: %v", inputsAsStrings(c.Inputs), p)
	}
	names := []string{"Split"}
	for _, cv := range c19Converters {
		names = append(names, cv.name)
	}
	errs := make([]error, c.Goroutines)
	start := make(chan struct{})
	var wg sync.WaitGroup
	for g := 0; g < c.Goroutines; g++ {
		wg.Add(1)
		go func(g int) {
			defer wg.Done()
			defer func() {
				if p := recover(); p != nil && errs[g] == nil {
					errs[g] = fmt.Errorf("goroutine %d of %d converting %q panics while the others convert the same inputs: %v", g, c.Goroutines, inputsAsStrings(c.Inputs), p)
				}
			}()
			order := make([]int, n)
			for i := range order {
				order[i] = (i + g) % n
			}
			<-start
			for r := 0; r < c.Rounds && errs[g] == nil; r++ {
				got := c19Convert(c.Inputs, order)
				for i := range got {
					for k := range got[i] {
						if got[i][k] != want[i][k] {
							errs[g] = fmt.Errorf("%s(%q) = %s when %d goroutines convert %q at the same time, %s when called alone: not a pure function of its input",
								names[k], c.Inputs[i], got[i][k], c.Goroutines, inputsAsStrings(c.Inputs), want[i][k])
							return
						}
					}
				}
			}
		}(g)
	}
	close(start)
	wg.Wait()
	for _, e := range errs {
		if e != nil {
			return e
		}
	}
	return nil
}

func inputsAsStrings(in [][]byte) []string {
	out := make([]string, len(in))
	for i, b := range in {
		out[i] = string(b)
	}
	return out
}

func TestC19(t *testing.T) {
	if os.Getenv("VT_C19_CHILD") != "" {
		t.Skip("child role")
	}
	r := ev.Begin(t, ev.Meta{
		ID:    "C19",
		Level: "exploration",
		Rule: "strings of 0-12 pieces drawn from ASCII words, separators (biased to any position incl. 0), digits, Unicode " +
			"upper/lower/title-case letters, combining marks, arbitrary runes, raw bytes (invalid UTF-8); non-trivial = first rune is " +
			"not a letter/digit, or >=3 rune classes (lower/upper/digit/other) are mixed, or the input is invalid UTF-8; distinct by input bytes",
		Assumptions: []string{"purity is judged by repeated calls (same goroutine, another goroutine, re-export in pkg/gengo), in the history sub by converting the same word-sharing inputs in two fresh processes in opposite orders, and in the concurrent sub by 2-16 goroutines converting the same inputs simultaneously and comparing with the sequential answers"},
	})
	defer r.Finish()
	ev.Search(r, ev.Sub[c19Case]{
		Name: "split", Gen: genC19, Oracle: oracleC19, NonTrivial: c19NonTrivial, Classes: c19Classes,
		Budget: ev.Budget{Quick: 30000, Thorough: 400000}, MinNonTrivial: 0.3,
	})
	ev.Search(r, ev.Sub[c19History]{
		Name: "history", Gen: genC19History, Oracle: oracleC19History,
		NonTrivial: func(h c19History) bool { return len(h.Inputs) >= 6 },
		Budget:     ev.Budget{Quick: 150, Thorough: 1500}, MinNonTrivial: 0.3,
	})
	ev.Search(r, ev.Sub[c19Conc]{
		Name: "concurrent", Gen: genC19Conc, Oracle: oracleC19Conc,
		NonTrivial: func(c c19Conc) bool { return len(c.Inputs) >= 2 && c.Goroutines >= 2 },
		Budget:     ev.Budget{Quick: 400, Thorough: 6000}, MinNonTrivial: 0.3,
	})
}

func FuzzC19(f *testing.F) {
	for _, s := range []string{"", "_id", "-x", " a", "HTTPServer", "a1B2", "\xffA", "ǅx", "ID", "__", "a_b-c d"} {
		f.Add([]byte(s))
	}
	f.Fuzz(func(t *testing.T, b []byte) {
		c := c19Case{B: b}
		if err := ev.Guard(func() error { return oracleC19(c) }); err != nil {
			ev.FuzzFail("C19", "split", c, err)
			t.Fatal(err)
		}
	})
}
