package pure

import (
	"bytes"
	"context"
	"fmt"
	"iter"
	"reflect"
	"slices"
	"sort"
	"strconv"
	"strings"
	"testing"
	"unicode/utf8"

	"github.com/octohelm/gengo/pkg/gengo"
	"github.com/octohelm/gengo/pkg/gengo/snippet"
	"github.com/octohelm/gengo/pkg/namer"
	"pgregory.net/rapid"

	"vt/internal/ev"
)

// ---- C09: snippet templating is faithful substitution ----
//
// A case is a tree of snippet constructors. The harness builds the real snippet
// from the tree and, independently, interprets the tree with a reference
// interpreter written from the property statement.

type c9Node struct {
	// Kind: block | T | sprintf | str | int | bool | id | rtype | snippets | fragments | comment | directive
	Kind string             `json:"kind"`
	Text string             `json:"text,omitempty"`
	Args map[string]*c9Node `json:"args,omitempty"` // T bindings
	List []*c9Node          `json:"list,omitempty"` // sprintf arguments / snippets parts / fragments child
	Strs []string           `json:"strs,omitempty"` // directive arguments
	Int  int64              `json:"int,omitempty"`
	Bool bool               `json:"bool,omitempty"`
	// ArgStyle for T: "args" (snippet.Args map), "arg" (snippet.Arg list), mixed by the builder.
	ArgStyle string `json:"argstyle,omitempty"`
}

var c9RTypes = map[string]reflect.Type{
	"int":             reflect.TypeOf(int(0)),
	"string":          reflect.TypeOf(""),
	"[]int":           reflect.TypeOf([]int{}),
	"map[string]bool": reflect.TypeOf(map[string]bool{}),
	"*uint8":          reflect.TypeOf((*uint8)(nil)),
	"[3]float64":      reflect.TypeOf([3]float64{}),
}

// build constructs the real snippet (or raw Go value for sprintf arguments).
func (n *c9Node) build(asArg bool) any {
	switch n.Kind {
	case "block":
		return snippet.Block(n.Text)
	case "T":
		var targs []snippet.TArg
		names := make([]string, 0, len(n.Args))
		for k := range n.Args {
			names = append(names, k)
		}
		sort.Strings(names)
		if n.ArgStyle == "args" {
			m := snippet.Args{}
			for _, k := range names {
				m[k] = n.Args[k].snippet()
			}
			targs = append(targs, m)
			if n.ArgStyle == "args" && len(names)%2 == 0 {
				// the bindings are those of the T call: what the caller does with its map afterwards (rendering is lazy) must not show
				t := snippet.T(n.Text, targs...)
				for _, k := range names {
					m[k] = snippet.Block("REBOUND-AFTER-THE-CALL")
				}
				if len(names) > 0 {
					delete(m, names[0])
				}
				for _, extra := range []string{"a", "x", "name", "T", "Type", "zz"} {
					if _, bound := n.Args[extra]; !bound {
						m[extra] = snippet.Block("ADDED-AFTER-THE-CALL")
					}
				}
				return t
			}
		} else {
			for i, k := range names {
				a := n.Args[k]
				switch {
				case a.Kind == "id" && i%2 == 0:
					targs = append(targs, snippet.IDArg(k, a.Text))
				case a.Kind == "str" && i%2 == 0:
					targs = append(targs, snippet.ValueArg(k, a.Text))
				case a.Kind == "int":
					targs = append(targs, snippet.ValueArg(k, a.Int))
				default:
					targs = append(targs, snippet.Arg(k, a.snippet()))
				}
			}
			if len(names)%2 == 1 {
				targs = append(targs, nil) // nil TArg values are documented to be skipped by T
			}
		}
		return snippet.T(n.Text, targs...)
	case "sprintf":
		args := make([]any, len(n.List))
		for i, a := range n.List {
			args[i] = a.build(true)
		}
		return snippet.Sprintf(n.Text, args...)
	case "str":
		if asArg {
			return n.Text
		}
		return snippet.Value(n.Text)
	case "int":
		if asArg {
			return n.Int
		}
		return snippet.Value(n.Int)
	case "bool":
		if asArg {
			return n.Bool
		}
		return snippet.Value(n.Bool)
	case "id":
		if asArg {
			return n.Text // only meaningful with %T
		}
		return snippet.ID(n.Text)
	case "rtype":
		if asArg {
			return c9RTypes[n.Text]
		}
		return snippet.ID(c9RTypes[n.Text])
	case "snippets":
		parts := make([]snippet.Snippet, len(n.List))
		for i, a := range n.List {
			parts[i] = a.snippet()
		}
		return snippet.Snippets(slices.Values(parts))
	case "fragments":
		child := n.List[0].snippet()
		return snippet.Func(func(ctx context.Context) iter.Seq[string] {
			return snippet.Fragments(ctx, child)
		})
	case "comment":
		return snippet.Comment(n.Text)
	case "directive":
		return snippet.GoDirective(n.Text, n.Strs...)
	}
	panic("harness: unknown node kind " + n.Kind)
}

func (n *c9Node) snippet() snippet.Snippet { return n.build(false).(snippet.Snippet) }

// --- reference interpreter ---

type c9Panic struct{ why string }

// seg is a piece of expected output; optional pieces may or may not appear
// (documented leniencies: a lone '@', an apostrophe directly after a lone '@',
// a byte-order mark at the very start of a format).
type seg struct {
	s   string
	opt bool
}

type segs []seg

func (a *segs) text(s string) {
	if s == "" {
		return
	}
	if n := len(*a); n > 0 && !(*a)[n-1].opt {
		(*a)[n-1].s += s
		return
	}
	*a = append(*a, seg{s: s})
}
func (a *segs) optional(s string) { *a = append(*a, seg{s: s, opt: true}) }
func (a *segs) add(b segs) {
	for _, x := range b {
		if x.opt {
			a.optional(x.s)
		} else {
			a.text(x.s)
		}
	}
}

func isNameRune(c rune) bool {
	return (c >= 'A' && c <= 'Z') || (c >= 'a' && c <= 'z') || (c >= '0' && c <= '9') || c == '_'
}

func (n *c9Node) isNil() bool {
	switch n.Kind {
	case "block", "T", "sprintf":
		return n.Text == ""
	}
	return false
}

// ref renders n by the property statement; panics with c9Panic where the
// statement demands a panic.
func (n *c9Node) ref(verb byte) segs {
	var out segs
	switch n.Kind {
	case "block":
		out.text(n.Text)
	case "T":
		f := strings.TrimLeft(n.Text, "\n")
		rs := []rune(f)
		for i := 0; i < len(rs); {
			c := rs[i]
			if i == 0 && c == 0xFEFF {
				out.optional(string(c))
				i++
				continue
			}
			if c != '@' {
				out.text(string(c))
				i++
				continue
			}
			j := i + 1
			for j < len(rs) && isNameRune(rs[j]) {
				j++
			}
			if j == i+1 {
				// lone '@': statement says "every other character preserved"; the code drops it — accepted either way
				out.optional("@")
				i++
				if i < len(rs) && rs[i] == '\'' {
					out.optional("'")
					i++
				}
				continue
			}
			name := string(rs[i+1 : j])
			a, ok := n.Args[name]
			if !ok {
				panic(c9Panic{"unbound placeholder @" + name})
			}
			if !a.isNil() {
				out.add(a.ref(0))
			}
			i = j
			if i < len(rs) && rs[i] == '\'' {
				i++ // one apostrophe directly after a placeholder is a delimiter
			}
		}
	case "sprintf":
		rs := []rune(n.Text)
		argi := 0
		next := func() *c9Node {
			if argi >= len(n.List) {
				panic(c9Panic{"missing Sprintf argument"})
			}
			argi++
			return n.List[argi-1]
		}
		for i := 0; i < len(rs); i++ {
			c := rs[i]
			if i == 0 && c == 0xFEFF {
				out.optional(string(c))
				continue
			}
			if c != '%' {
				out.text(string(c))
				continue
			}
			i++
			if i >= len(rs) {
				panic(c9Panic{"trailing %"})
			}
			switch rs[i] {
			case '%':
				out.text("%")
			case 'v':
				out.add(next().ref('v'))
			case 'T':
				out.add(next().ref('T'))
			default:
				panic(c9Panic{"unsupported verb %" + string(rs[i])})
			}
		}
	case "str":
		if verb == 'T' {
			out.text(n.Text)
		} else {
			out.text(strconv.Quote(n.Text))
		}
	case "int":
		out.text(strconv.FormatInt(n.Int, 10))
	case "bool":
		out.text(strconv.FormatBool(n.Bool))
	case "id", "rtype":
		out.text(n.Text)
	case "snippets":
		for _, p := range n.List {
			if !p.isNil() {
				out.add(p.ref(0))
			}
		}
	case "fragments":
		if !n.List[0].isNil() {
			out.add(n.List[0].ref(0))
		}
	case "comment":
		if n.Text != "" {
			for i, l := range strings.Split(n.Text, "\n") {
				if i > 0 {
					out.text("\n")
				}
				out.text("//")
				if l == "" {
					out.optional(" ")
				} else {
					out.text(" " + l)
				}
			}
		}
	case "directive":
		if n.Text != "" {
			out.text("//go:" + n.Text)
			for _, a := range n.Strs {
				if a != "" {
					out.text(" " + a)
				}
			}
		}
	}
	return out
}

// matches reports whether got can be produced from the expected segments.
func matches(exp segs, got string) bool {
	type key struct{ i, j int }
	memo := map[key]bool{}
	var m func(i, j int) bool
	m = func(i, j int) bool {
		if i == len(exp) {
			return j == len(got)
		}
		k := key{i, j}
		if v, ok := memo[k]; ok {
			return v
		}
		r := false
		if strings.HasPrefix(got[j:], exp[i].s) && m(i+1, j+len(exp[i].s)) {
			r = true
		} else if exp[i].opt && m(i+1, j) {
			r = true
		}
		memo[k] = r
		return r
	}
	return m(0, 0)
}

func (a segs) String() string {
	var b strings.Builder
	for _, s := range a {
		if s.opt {
			fmt.Fprintf(&b, "[%q]?", s.s)
		} else {
			fmt.Fprintf(&b, "%q", s.s)
		}
	}
	return b.String()
}

type c9Case struct {
	Root *c9Node `json:"root"`
}

func renderReal(n *c9Node) (out string, panicked any) {
	buf := &bytes.Buffer{}
	tracker := namer.NewDefaultImportTracker()
	w := gengo.NewSnippetWriter(buf, namer.NameSystems{"raw": namer.NewRawNamer("example.com/target", tracker)})
	sn := n.snippet()
	if n.Kind == "snippets" {
		// the root is rendered exactly once, so its sequence may be one that can only be walked once (fed from a channel, a
		// work list drained while rendering): whoever looks at it before rendering must not consume it
		parts := make([]snippet.Snippet, len(n.List))
		for i, a := range n.List {
			parts[i] = a.snippet()
		}
		used := false
		sn = snippet.Snippets(func(yield func(snippet.Snippet) bool) {
			if used {
				return
			}
			used = true
			for _, p := range parts {
				if !yield(p) {
					return
				}
			}
		})
	}
	var runaway string
	panicked, runaway = ev.Bounded(func() {
		w.Render(sn)
	})
	if runaway != "" {
		panic(c9Runaway(runaway))
	}
	return buf.String(), panicked
}

// c9Runaway: the rendering is still recursing (see ev.Bounded)
type c9Runaway string

func oracleC09(c c9Case) (err error) {
	defer func() {
		if p := recover(); p != nil {
			if ra, ok := p.(c9Runaway); ok {
				ev.DieWithViolation("C09", "tree", c, fmt.Errorf("rendering does not return (a finite snippet tree must render or panic): %s", string(ra)))
			}
			panic(p)
		}
	}()
	var exp segs
	var expPanic *c9Panic
	func() {
		defer func() {
			if p := recover(); p != nil {
				if cp, ok := p.(c9Panic); ok {
					expPanic = &cp
					return
				}
				panic(p)
			}
		}()
		if !c.Root.isNil() {
			exp = c.Root.ref(0)
		}
	}()
	got, p := renderReal(c.Root)
	if expPanic != nil {
		if p == nil {
			return fmt.Errorf("rendering must panic (%s) but returned %q", expPanic.why, got)
		}
		return nil
	}
	if p != nil {
		return fmt.Errorf("rendering panics: %v; expected output %s", p, exp)
	}
	if !matches(exp, got) {
		return fmt.Errorf("rendered %q, expected %s", got, exp)
	}
	// rendering is repeatable
	got2, p2 := renderReal(c.Root)
	if p2 != nil || got2 != got {
		return fmt.Errorf("second rendering differs: %q vs %q (panic %v)", got2, got, p2)
	}
	return nil
}

// --- generators ---

var c9Alphabet = []string{
	"a", "b", "Z", "x1", "_", "0", "9", " ", " ", "\t", "\n", "\n", "\r", ".", ",", ";", ":", "(", ")", "{", "}", "[", "]",
	"\"", "`", "\\", "/", "*", "+", "-", "=", "<", ">", "!", "?", "#", "$", "&", "|", "^", "~",
	"é", "中", "🙂", "́", "ſ", " ", "\x00", "\ufeff",
}

var c9Names = []string{"a", "b", "x1", "_n", "Name", "y", "A0_", "q"}

func genC9Text(t *rapid.T, label string, max int) string {
	n := rapid.IntRange(0, max).Draw(t, label+"n")
	var b strings.Builder
	for i := 0; i < n; i++ {
		b.WriteString(rapid.SampledFrom(c9Alphabet).Draw(t, label))
	}
	return b.String()
}

// text that looks like template syntax, to be used inside arguments
var c9Tricky = []string{"@a", "@x1'", "@missing", "%v", "%T", "%%", "%d", "'", "''", "@", "@@", "@'", "\n@a\n", "%"}

func genC9Leaf(t *rapid.T) *c9Node {
	switch rapid.IntRange(0, 9).Draw(t, "leaf") {
	case 0:
		return &c9Node{Kind: "block", Text: ""}
	case 1, 2:
		return &c9Node{Kind: "block", Text: rapid.SampledFrom(c9Tricky).Draw(t, "tricky")}
	case 3:
		if rapid.IntRange(0, 7).Draw(t, "bigblock") == 0 {
			// a fragment around the sizes of I/O buffers (it must stay in its place among the smaller ones)
			n := rapid.SampledFrom([]int{255, 256, 1023, 1024, 1025, 4095, 4096, 4097, 9000}).Draw(t, "bigsize")
			return &c9Node{Kind: "block", Text: "<" + strings.Repeat("x", n-2) + ">"}
		}
		return &c9Node{Kind: "block", Text: genC9Text(t, "blk", 5)}
	case 4:
		s := genC9Text(t, "str", 4)
		if rapid.Bool().Draw(t, "trickystr") {
			s = rapid.SampledFrom(c9Tricky).Draw(t, "tricky")
		}
		if !utf8.ValidString(s) {
			s = "x"
		}
		return &c9Node{Kind: "str", Text: s}
	case 5:
		return &c9Node{Kind: "int", Int: rapid.Int64().Draw(t, "int")}
	case 6:
		return &c9Node{Kind: "bool", Bool: rapid.Bool().Draw(t, "bool")}
	case 7:
		return &c9Node{Kind: "id", Text: rapid.SampledFrom([]string{"Foo", "bar", "_x", "T1", "error", "int"}).Draw(t, "id")}
	case 8:
		keys := make([]string, 0, len(c9RTypes))
		for k := range c9RTypes {
			keys = append(keys, k)
		}
		sort.Strings(keys)
		return &c9Node{Kind: "rtype", Text: rapid.SampledFrom(keys).Draw(t, "rtype")}
	default:
		return &c9Node{Kind: "T", Text: ""} // empty template: IsNil
	}
}

func genC9Format(t *rapid.T, names []string) string {
	var b strings.Builder
	if rapid.IntRange(0, 4).Draw(t, "leadnl") == 0 {
		b.WriteString(strings.Repeat("\n", rapid.IntRange(1, 3).Draw(t, "nls")))
	}
	n := rapid.IntRange(0, 8).Draw(t, "pieces")
	for i := 0; i < n; i++ {
		switch rapid.IntRange(0, 11).Draw(t, "piece") {
		case 0, 1, 2:
			b.WriteString(genC9Text(t, "lit", 4))
		case 3, 4, 5:
			b.WriteString("@" + rapid.SampledFrom(names).Draw(t, "name"))
		case 6, 7:
			b.WriteString("@" + rapid.SampledFrom(names).Draw(t, "name") + "'")
		case 8:
			b.WriteString("@" + rapid.SampledFrom(names).Draw(t, "name") + "''")
		case 9:
			b.WriteString(rapid.SampledFrom([]string{"@", "@@", "@'", "@ ", "@-", "@é", "'", "''", "@\n", "%v", "%%", "%"}).Draw(t, "odd"))
		case 10:
			// adjacent placeholders / placeholder followed by name-like text
			b.WriteString("@" + rapid.SampledFrom(names).Draw(t, "name") + "@" + rapid.SampledFrom(names).Draw(t, "name2"))
		case 11:
			b.WriteString("@" + rapid.SampledFrom(names).Draw(t, "name") + "'" + rapid.SampledFrom([]string{"s", "_x", "9", "@", "'"}).Draw(t, "after"))
		}
	}
	return b.String()
}

func genC9Node(t *rapid.T, depth int) *c9Node {
	if depth <= 0 {
		return genC9Leaf(t)
	}
	switch rapid.IntRange(0, 9).Draw(t, "node") {
	case 0, 1, 2, 3:
		return genC9T(t, depth)
	case 4, 5:
		return genC9Sprintf(t, depth)
	case 6:
		k := rapid.IntRange(0, 4).Draw(t, "nparts")
		n := &c9Node{Kind: "snippets"}
		for i := 0; i < k; i++ {
			n.List = append(n.List, snippetNode(genC9Node(t, depth-1)))
		}
		return n
	case 7:
		return &c9Node{Kind: "fragments", List: []*c9Node{snippetNode(genC9Node(t, depth-1))}}
	case 8:
		lines := rapid.IntRange(0, 3).Draw(t, "clines")
		var ls []string
		for i := 0; i < lines; i++ {
			ls = append(ls, strings.ReplaceAll(genC9Text(t, "cmt", 4), "\n", ""))
		}
		return &c9Node{Kind: "comment", Text: strings.Join(ls, "\n")}
	default:
		n := &c9Node{Kind: "directive", Text: rapid.SampledFrom([]string{"", "embed", "generate", "build"}).Draw(t, "dir")}
		k := rapid.IntRange(0, 3).Draw(t, "dargs")
		for i := 0; i < k; i++ {
			n.Strs = append(n.Strs, rapid.SampledFrom([]string{"", "a.txt", "b/*", "go run x.go", "@a", "%v"}).Draw(t, "darg"))
		}
		return n
	}
}

// snippetNode returns n unchanged: every node kind can be built as a Snippet.
func snippetNode(n *c9Node) *c9Node { return n }

func genC9T(t *rapid.T, depth int) *c9Node {
	n := &c9Node{Kind: "T", Args: map[string]*c9Node{}}
	if rapid.Bool().Draw(t, "style") {
		n.ArgStyle = "args"
	} else {
		n.ArgStyle = "arg"
	}
	nb := rapid.IntRange(0, 4).Draw(t, "nbind")
	var bound []string
	for i := 0; i < nb; i++ {
		name := rapid.SampledFrom(c9Names).Draw(t, "bind")
		if _, dup := n.Args[name]; dup {
			continue
		}
		n.Args[name] = genC9Node(t, depth-1)
		bound = append(bound, name)
	}
	pool := bound
	// a small fraction of formats refer to an unbound name (must panic)
	if len(pool) == 0 || rapid.IntRange(0, 11).Draw(t, "unbound") == 0 {
		pool = append(append([]string{}, bound...), rapid.SampledFrom(c9Names).Draw(t, "extra"))
	}
	n.Text = genC9Format(t, pool)
	return n
}

func genC9Sprintf(t *rapid.T, depth int) *c9Node {
	n := &c9Node{Kind: "sprintf"}
	var b strings.Builder
	k := rapid.IntRange(0, 7).Draw(t, "pieces")
	for i := 0; i < k; i++ {
		switch rapid.IntRange(0, 11).Draw(t, "piece") {
		case 0, 1, 2:
			b.WriteString(strings.ReplaceAll(genC9Text(t, "lit", 4), "%", ""))
		case 3, 4, 5:
			b.WriteString("%v")
			a := genC9Node(t, depth-1)
			if a.Kind == "id" || a.Kind == "rtype" {
				a = &c9Node{Kind: "int", Int: 7}
			}
			n.List = append(n.List, a)
		case 6, 7:
			b.WriteString("%T")
			a := genC9Node(t, depth-1)
			switch a.Kind {
			case "int", "bool":
				a = &c9Node{Kind: "id", Text: "Foo"}
			case "str":
				a = &c9Node{Kind: "id", Text: "Bar"}
			}
			n.List = append(n.List, a)
		case 8, 9:
			b.WriteString("%%")
			if rapid.Bool().Draw(t, "pctv") {
				b.WriteString(rapid.SampledFrom([]string{"v", "T", "d", "%", ""}).Draw(t, "afterpct"))
			}
		case 10:
			if rapid.IntRange(0, 3).Draw(t, "badverb") == 0 {
				b.WriteString(rapid.SampledFrom([]string{"%d", "%s", "% ", "%é", "%q"}).Draw(t, "bad"))
			}
		case 11:
			b.WriteString("@a'")
		}
	}
	// sometimes drop the last argument: must panic
	if len(n.List) > 0 && rapid.IntRange(0, 11).Draw(t, "dropArg") == 0 {
		n.List = n.List[:len(n.List)-1]
	}
	n.Text = b.String()
	// pieces can merge ("%%%" followed by "%v" reads as "%%", "%%", "v"): pair the arguments with the verbs the final text really has and
	// keep every argument inside what its verb accepts (%T: identifier-like or snippet, %v: value or snippet)
	rs := []rune(n.Text)
	argi := 0
	for i := 0; i < len(rs); i++ {
		if rs[i] != '%' || i+1 >= len(rs) {
			continue
		}
		i++
		if rs[i] != 'v' && rs[i] != 'T' {
			if rs[i] != '%' {
				break // an unsupported verb panics before later arguments are looked at
			}
			continue
		}
		if argi >= len(n.List) {
			break
		}
		a := n.List[argi]
		switch {
		case rs[i] == 'T' && (a.Kind == "int" || a.Kind == "bool" || a.Kind == "str"):
			n.List[argi] = &c9Node{Kind: "id", Text: "Foo"}
		case rs[i] == 'v' && (a.Kind == "id" || a.Kind == "rtype"):
			n.List[argi] = &c9Node{Kind: "int", Int: 7}
		}
		argi++
	}
	// surplus arguments are outside the statement
	if argi < len(n.List) {
		n.List = n.List[:argi]
	}
	return n
}

func genC09(t *rapid.T) c9Case {
	return c9Case{Root: genC9Node(t, rapid.IntRange(1, 3).Draw(t, "depth"))}
}

func c9Walk(n *c9Node, f func(*c9Node)) {
	if n == nil {
		return
	}
	f(n)
	names := make([]string, 0, len(n.Args))
	for k := range n.Args {
		names = append(names, k)
	}
	sort.Strings(names)
	for _, k := range names {
		c9Walk(n.Args[k], f)
	}
	for _, c := range n.List {
		c9Walk(c, f)
	}
}

func c9Features(c c9Case) map[string]bool {
	fs := map[string]bool{}
	c9Walk(c.Root, func(n *c9Node) {
		switch n.Kind {
		case "T":
			if strings.Contains(n.Text, "@") {
				fs["placeholder"] = true
			}
			rs := []rune(strings.TrimLeft(n.Text, "\n"))
			for i := 0; i < len(rs); i++ {
				if rs[i] == '@' {
					j := i + 1
					for j < len(rs) && isNameRune(rs[j]) {
						j++
					}
					if j > i+1 {
						if j < len(rs) && rs[j] == '\'' {
							fs["apostrophe"] = true
						}
						if a, ok := n.Args[string(rs[i+1:j])]; ok {
							if a.isNil() {
								fs["nil-arg"] = true
								if j < len(rs) && rs[j] == '\'' {
									fs["nil-arg-apostrophe"] = true
								}
							}
							if a.Kind == "block" && (strings.Contains(a.Text, "@") || strings.Contains(a.Text, "%")) {
								fs["syntax-looking-arg"] = true
							}
							if a.Kind == "T" || a.Kind == "sprintf" {
								fs["nested"] = true
							}
						} else {
							fs["unbound"] = true
						}
					} else {
						fs["lone-at"] = true
					}
				}
			}
			if strings.HasPrefix(n.Text, "\n") {
				fs["leading-newline"] = true
			}
		case "sprintf":
			if strings.Contains(n.Text, "%v") || strings.Contains(n.Text, "%T") {
				fs["verb"] = true
			}
			if strings.Contains(n.Text, "%%") {
				fs["percent-percent"] = true
			}
		case "comment":
			if strings.Contains(n.Text, "\n") {
				fs["multiline-comment"] = true
			}
		case "directive":
			fs["directive"] = true
		case "snippets":
			fs["snippets"] = true
		}
		for _, r := range n.Text {
			if r > 127 {
				fs["non-ascii"] = true
				break
			}
		}
	})
	return fs
}

func c9NonTrivial(c c9Case) bool {
	fs := c9Features(c)
	if !(fs["placeholder"] || fs["verb"]) {
		return false
	}
	return fs["nil-arg"] || fs["apostrophe"] || fs["percent-percent"] || fs["syntax-looking-arg"] || fs["non-ascii"] || fs["nested"]
}

func c9Classes(c c9Case) []string {
	fs := c9Features(c)
	out := make([]string, 0, len(fs))
	for k := range fs {
		out = append(out, k)
	}
	sort.Strings(out)
	return out
}

// exhaustive small scope: all T formats of length <= L over a 6-letter alphabet with three bindings
func c9SmallScope(maxLen int) func(yield func(c9Case) bool) {
	alpha := []string{"a", "@", "'", "%", "\n", " "}
	bindings := map[string]*c9Node{
		"a":  {Kind: "block", Text: "<@a'%v>"},
		"aa": {Kind: "block", Text: ""},
	}
	return func(yield func(c9Case) bool) {
		var rec func(prefix string, left int) bool
		rec = func(prefix string, left int) bool {
			if !yield(c9Case{Root: &c9Node{Kind: "T", Text: prefix, Args: bindings, ArgStyle: "args"}}) {
				return false
			}
			if left == 0 {
				return true
			}
			for _, ch := range alpha {
				if !rec(prefix+ch, left-1) {
					return false
				}
			}
			return true
		}
		rec("", maxLen)
	}
}

func c9SprintfSmallScope(maxLen int) func(yield func(c9Case) bool) {
	alpha := []string{"a", "%", "v", "T", "@", "\n"}
	return func(yield func(c9Case) bool) {
		var rec func(prefix string, left int) bool
		rec = func(prefix string, left int) bool {
			for nargs := 0; nargs <= 2; nargs++ {
				n := &c9Node{Kind: "sprintf", Text: prefix}
				for i := 0; i < nargs; i++ {
					n.List = append(n.List, &c9Node{Kind: "block", Text: fmt.Sprintf("<%d%%v@a'>", i)})
				}
				// only argument counts that are not "extra" (extra arguments are outside the statement)
				need := strings.Count(strings.ReplaceAll(prefix, "%%", ""), "%v") + strings.Count(strings.ReplaceAll(prefix, "%%", ""), "%T")
				if nargs > need {
					continue
				}
				if !yield(c9Case{Root: n}) {
					return false
				}
			}
			if left == 0 {
				return true
			}
			for _, ch := range alpha {
				if !rec(prefix+ch, left-1) {
					return false
				}
			}
			return true
		}
		rec("", maxLen)
	}
}

func TestC09(t *testing.T) {
	r := ev.Begin(t, ev.Meta{
		ID:    "C09",
		Level: "exploration",
		Rule: "trees of snippet constructors (T with bound/unbound names, Sprintf with %v/%T/%%/bad verbs/missing args, Block, Value, ID, " +
			"Snippets, Fragments, Comment, GoDirective) over an alphabet of letters, digits, '_', '@', apostrophes, '%', blanks, newlines, " +
			"punctuation, Unicode, NUL and BOM, compared with an independent reference interpreter; non-trivial = has a placeholder or verb AND " +
			"(nil argument | apostrophe after placeholder | %% | argument text that looks like template syntax | non-ASCII | nested template); " +
			"distinct by the JSON encoding of the tree; small-scope subs enumerate every format up to a length bound",
		Assumptions: []string{
			"lone '@' (not followed by a name rune), an apostrophe right after it, and a BOM at the start of a format may be kept or dropped (statement ambiguous)",
			"Go-nil Snippet values, surplus Sprintf arguments and invalid UTF-8 in formats are outside the generated domain",
		},
	})
	defer r.Finish()
	ev.Search(r, ev.Sub[c9Case]{
		Name: "tree", Gen: genC09, Oracle: oracleC09, NonTrivial: c9NonTrivial, Classes: c9Classes,
		Budget: ev.Budget{Quick: 40000, Thorough: 400000}, MinNonTrivial: 0.2,
	})
	if r.Shard == 0 {
		l := 5
		if r.Thorough() {
			l = 7
		}
		nt := func(c c9Case) bool { return c9NonTrivial(c) }
		ev.Enumerate(r, "T-smallscope", c9SmallScope(l), oracleC09, nt, nil)
		ev.Enumerate(r, "Sprintf-smallscope", c9SprintfSmallScope(l), oracleC09, nt, nil)
	}
}

func FuzzC09T(f *testing.F) {
	for _, s := range []string{"", "@a", "@a'", "@aa'y", "\n\n@a@aa", "@", "@'", "%v@a''", "x@missing"} {
		f.Add(s, "<@a>", "")
	}
	f.Fuzz(func(t *testing.T, format, a, aa string) {
		if !utf8.ValidString(format) || !utf8.ValidString(a) || !utf8.ValidString(aa) {
			t.Skip()
		}
		c := c9Case{Root: &c9Node{Kind: "T", Text: format, ArgStyle: "args", Args: map[string]*c9Node{
			"a": {Kind: "block", Text: a}, "aa": {Kind: "block", Text: aa},
		}}}
		if err := ev.Guard(func() error { return oracleC09(c) }); err != nil {
			ev.FuzzFail("C09", "tree", c, err)
			t.Fatal(err)
		}
	})
}

func FuzzC09Sprintf(f *testing.F) {
	for _, s := range []string{"", "%v", "%T%%", "100%%", "%%v", "%d", "a%vb%Tc"} {
		f.Add(s, uint8(2))
	}
	f.Fuzz(func(t *testing.T, format string, nargs uint8) {
		if !utf8.ValidString(format) {
			t.Skip()
		}
		stripped := strings.ReplaceAll(format, "%%", "")
		need := strings.Count(stripped, "%v") + strings.Count(stripped, "%T")
		k := int(nargs % 4)
		if k > need {
			k = need
		}
		n := &c9Node{Kind: "sprintf", Text: format}
		for i := 0; i < k; i++ {
			n.List = append(n.List, &c9Node{Kind: "block", Text: fmt.Sprintf("<%d%%v>", i)})
		}
		if err := ev.Guard(func() error { return oracleC09(c9Case{Root: n}) }); err != nil {
			ev.FuzzFail("C09", "tree", c9Case{Root: n}, err)
			t.Fatal(err)
		}
	})
}

// FuzzC09Tree lets the coverage-guided fuzzer drive the tree generator.
func FuzzC09Tree(f *testing.F) {
	f.Fuzz(rapid.MakeFuzz(ev.FuzzProp("C09", ev.Sub[c9Case]{Name: "tree", Gen: genC09, Oracle: oracleC09})))
}
