package pure

import (
	"encoding/json"
	"fmt"
	"go/ast"
	"go/parser"
	"go/token"
	"os"
	"os/exec"
	"path/filepath"
	"regexp"
	"strconv"
	"strings"
	"sync"
	"testing"
	"unicode"

	"github.com/octohelm/gengo/pkg/inflector"
	"pgregory.net/rapid"

	"vt/internal/ev"
)

// ---- C20: inflection is total, pure and only rewrites the last word ----

func repoDir() string {
	if d := os.Getenv("VT_REPO"); d != "" {
		return d
	}
	return "/repo"
}

type c20Lists struct {
	PluralIrregular   []string // words the Pluralize rule treats as irregular (singular forms)
	SingularIrregular []string // words the Singularize rule treats as irregular (plural forms)
	Uninflected       []string
}

var (
	c20Once  sync.Once
	c20Words c20Lists
	c20Err   error
)

var plainWord = regexp.MustCompile(`^[A-Za-z]+$`)

// loadC20Lists extracts the irregular / uninflected word lists from the
// repository's source (the package is internal, so it cannot be imported).
func loadC20Lists() (c20Lists, error) {
	c20Once.Do(func() {
		dir := filepath.Join(repoDir(), "pkg/inflector/internal")
		fset := token.NewFileSet()
		pkgs, err := parser.ParseDir(fset, dir, nil, 0)
		if err != nil {
			c20Err = err
			return
		}
		unq := func(e ast.Expr) (string, bool) {
			bl, ok := e.(*ast.BasicLit)
			if !ok || bl.Kind != token.STRING {
				return "", false
			}
			s, err := strconv.Unquote(bl.Value)
			return s, err == nil
		}
		for _, p := range pkgs {
			for _, f := range p.Files {
				ast.Inspect(f, func(n ast.Node) bool {
					switch x := n.(type) {
					case *ast.CompositeLit:
						// &Rule{Type: Plural, ..., Irregular: []*IrregularItem{{`a`,`b`}, ...}}
						if id, ok := x.Type.(*ast.Ident); ok && id.Name == "Rule" {
							kind := ""
							var items []string
							for _, el := range x.Elts {
								kv, ok := el.(*ast.KeyValueExpr)
								if !ok {
									continue
								}
								k, _ := kv.Key.(*ast.Ident)
								if k == nil {
									continue
								}
								switch k.Name {
								case "Type":
									if v, ok := kv.Value.(*ast.Ident); ok {
										kind = v.Name
									}
								case "Irregular":
									if cl, ok := kv.Value.(*ast.CompositeLit); ok {
										for _, it := range cl.Elts {
											if icl, ok := it.(*ast.CompositeLit); ok && len(icl.Elts) == 2 {
												if w, ok := unq(icl.Elts[0]); ok {
													items = append(items, w)
												}
											}
										}
									}
								}
							}
							switch kind {
							case "Plural":
								c20Words.PluralIrregular = append(c20Words.PluralIrregular, items...)
							case "Singular":
								c20Words.SingularIrregular = append(c20Words.SingularIrregular, items...)
							}
						}
					case *ast.ValueSpec:
						for i, name := range x.Names {
							if strings.HasPrefix(name.Name, "uninflected") && i < len(x.Values) {
								if cl, ok := x.Values[i].(*ast.CompositeLit); ok {
									for _, el := range cl.Elts {
										if w, ok := unq(el); ok && plainWord.MatchString(w) {
											c20Words.Uninflected = append(c20Words.Uninflected, w)
										}
									}
								}
							}
						}
					}
					return true
				})
			}
		}
		if len(c20Words.PluralIrregular) < 10 || len(c20Words.SingularIrregular) < 10 || len(c20Words.Uninflected) < 10 {
			c20Err = fmt.Errorf("could not extract the word lists from %s: %d/%d/%d", dir,
				len(c20Words.PluralIrregular), len(c20Words.SingularIrregular), len(c20Words.Uninflected))
		}
	})
	return c20Words, c20Err
}

type c20Case struct {
	// Kind: plural-irregular | singular-irregular | uninflected | free
	Kind   string `json:"kind"`
	Prefix string `json:"prefix,omitempty"` // arbitrary text; when non-empty it ends in a non-word ASCII separator
	Word   string `json:"word,omitempty"`   // already in its final letter case
	Free   string `json:"free,omitempty"`
}

func (c c20Case) input() string {
	if c.Kind == "free" {
		return c.Free
	}
	return c.Prefix + c.Word
}

var c20Separators = []string{" ", "-", ".", "/", ":", ",", "(", "'", "\"", "\n", "\t", "+", "~", "!", "  ", " - ", "\r\n", "=", "&", "\u00a0", "—", "–", "\u3000", "·", "\u2009"}

var c20FreeAlphabet = []string{
	"a", "e", "s", "x", "y", "f", "fe", "us", "is", "ies", "es", "man", "men", "ox", "person", "people", "child", "fish", "sheep", "media",
	"S", "K", "ſ", "K", "İ", "ı", "é", "ß", "中", " ", "-", "_", "\n", "0", "1", "quiz", "matrix", "status", "news", "series", "ss", "ouse", "ice",
	"perſon", "ſex", "cooKie", "MAN", "Ox", "tooth", "Feet", "\x00", "🙂",
}

func genC20Prefix(t *rapid.T) string {
	if rapid.IntRange(0, 3).Draw(t, "noprefix") == 0 {
		return ""
	}
	var b strings.Builder
	n := rapid.IntRange(0, 4).Draw(t, "plen")
	for i := 0; i < n; i++ {
		switch rapid.IntRange(0, 5).Draw(t, "pkind") {
		case 0, 1:
			b.WriteString(rapid.StringMatching(`[a-zA-Z]{1,6}`).Draw(t, "pword"))
		case 2:
			b.WriteString(rapid.SampledFrom(c20Separators).Draw(t, "psep"))
		case 3:
			b.WriteString(rapid.SampledFrom([]string{"é", "中文", "Ünï", "ſ", "K", "🙂", "old", "Old", "person", "men"}).Draw(t, "puni"))
		case 4:
			b.WriteString(rapid.StringN(0, 3, -1).Draw(t, "pany"))
		case 5:
			b.WriteString("\n")
		}
	}
	b.WriteString(rapid.SampledFrom(c20Separators).Draw(t, "sep"))
	return b.String()
}

func applyCase(t *rapid.T, w string) string {
	switch rapid.IntRange(0, 3).Draw(t, "case") {
	case 0:
		return w
	case 1:
		return strings.ToUpper(w)
	case 2:
		return strings.ToUpper(w[:1]) + w[1:]
	default:
		rs := []rune(w)
		for i := range rs {
			if rapid.Bool().Draw(t, "up") {
				rs[i] = unicode.ToUpper(rs[i])
			}
		}
		return string(rs)
	}
}

func genC20(t *rapid.T) c20Case {
	lists, err := loadC20Lists()
	if err != nil {
		panic("harness: " + err.Error())
	}
	// the prefix may contain the spelling of the final word again (alone, inside a longer word, in the other number)
	again := func(c c20Case) c20Case {
		// inputs whose length sits around a power of two (fixed-size buffers: 16, 32, 64, 128, 256 bytes)
		if rapid.IntRange(0, 5).Draw(t, "padded") == 0 {
			total := rapid.SampledFrom([]int{16, 32, 64, 128, 256}).Draw(t, "around") + rapid.IntRange(-4, 2).Draw(t, "off")
			if k := total - len(c.Word) - 1; k >= 0 {
				c.Prefix = strings.Repeat("x", k) + rapid.SampledFrom([]string{" ", "-"}).Draw(t, "padsep")
			}
			return c
		}
		if rapid.IntRange(0, 3).Draw(t, "wordagain") == 0 {
			c.Prefix = rapid.SampledFrom([]string{c.Word + " ", c.Word + " and ", c.Word + "ford ", "the " + c.Word + "-", c.Prefix + c.Word + " "}).Draw(t, "againshape")
		}
		return c
	}
	switch rapid.IntRange(0, 9).Draw(t, "kind") {
	case 0, 1, 2:
		return again(c20Case{Kind: "plural-irregular", Prefix: genC20Prefix(t), Word: applyCase(t, rapid.SampledFrom(lists.PluralIrregular).Draw(t, "w"))})
	case 3, 4, 5:
		return again(c20Case{Kind: "singular-irregular", Prefix: genC20Prefix(t), Word: applyCase(t, rapid.SampledFrom(lists.SingularIrregular).Draw(t, "w"))})
	case 6:
		return c20Case{Kind: "uninflected", Prefix: genC20Prefix(t), Word: applyCase(t, rapid.SampledFrom(lists.Uninflected).Draw(t, "w"))}
	default:
		var b strings.Builder
		n := rapid.IntRange(0, 6).Draw(t, "n")
		for i := 0; i < n; i++ {
			if rapid.IntRange(0, 5).Draw(t, "any") == 0 {
				b.WriteString(rapid.String().Draw(t, "anystr"))
			} else {
				b.WriteString(rapid.SampledFrom(c20FreeAlphabet).Draw(t, "piece"))
			}
		}
		return c20Case{Kind: "free", Free: b.String()}
	}
}

func callInflect(name string, f func(string) string, s string) (out string, err error) {
	if p := ev.Panics(func() { out = f(s) }); p != nil {
		return "", fmt.Errorf("%s(%q) panics: %v", name, s, p)
	}
	return out, nil
}

func oracleC20(c c20Case) error {
	s := c.input()
	fns := []struct {
		name string
		f    func(string) string
		kind string
	}{
		{"Pluralize", inflector.Pluralize, "plural-irregular"},
		{"Singularize", inflector.Singularize, "singular-irregular"},
	}
	for _, fn := range fns {
		r1, err := callInflect(fn.name, fn.f, s)
		if err != nil {
			return err
		}
		r2, err := callInflect(fn.name, fn.f, s)
		if err != nil {
			return err
		}
		if r1 != r2 {
			return fmt.Errorf("%s(%q) returned %q and then %q", fn.name, s, r1, r2)
		}
		if c.Kind == fn.kind {
			alone, err := callInflect(fn.name, fn.f, c.Word)
			if err != nil {
				return err
			}
			if r1 != c.Prefix+alone {
				return fmt.Errorf("%s(%q) = %q, want prefix %q + %s(%q)=%q", fn.name, s, r1, c.Prefix, fn.name, c.Word, alone)
			}
		}
	}
	return nil
}

func c20HasFoldAlias(s string) bool { return strings.ContainsAny(s, "ſK") }

func c20NonTrivial(c c20Case) bool {
	switch c.Kind {
	case "plural-irregular", "singular-irregular":
		return c.Prefix != ""
	case "free":
		return c20HasFoldAlias(c.Free)
	}
	return false
}

func c20Classes(c c20Case) []string {
	cl := []string{c.Kind}
	if c.Prefix != "" {
		cl = append(cl, "prefixed")
		if strings.Contains(c.Prefix, "\n") {
			cl = append(cl, "prefix-with-newline")
		}
		for _, r := range c.Prefix {
			if r > 127 {
				cl = append(cl, "prefix-non-ascii")
				break
			}
		}
	}
	if c20HasFoldAlias(c.input()) {
		cl = append(cl, "fold-alias")
	}
	if c.Word != "" && c.Word != strings.ToLower(c.Word) {
		cl = append(cl, "cased-word")
	}
	return cl
}

// ---- concurrent callers (each scenario runs in a fresh child process so that the memo cache is cold
// and a data race / fatal "concurrent map writes" cannot take the checker down) ----

type c20Conc struct {
	Words      []string `json:"words"`
	Goroutines int      `json:"goroutines"`
}

type c20ConcResult struct {
	Plural   [][]string `json:"plural"`   // per goroutine, per word (in Words order), strconv.QuoteToASCII form
	Singular [][]string `json:"singular"` //
	Panic    string     `json:"panic,omitempty"`
}

func genC20Conc(t *rapid.T) c20Conc {
	lists, err := loadC20Lists()
	if err != nil {
		panic("harness: " + err.Error())
	}
	n := rapid.IntRange(1, 24).Draw(t, "nwords")
	c := c20Conc{Goroutines: rapid.SampledFrom([]int{2, 4, 8, 16, 32}).Draw(t, "goroutines")}
	for i := 0; i < n; i++ {
		switch rapid.IntRange(0, 4).Draw(t, "wk") {
		case 0:
			c.Words = append(c.Words, rapid.SampledFrom(lists.PluralIrregular).Draw(t, "w"))
		case 1:
			c.Words = append(c.Words, rapid.SampledFrom(lists.SingularIrregular).Draw(t, "w"))
		case 2:
			c.Words = append(c.Words, genC20Prefix(t)+rapid.SampledFrom(lists.PluralIrregular).Draw(t, "w"))
		case 3:
			c.Words = append(c.Words, rapid.StringMatching(`[a-z]{1,8}(s|y|x|us|is|fe|f|man|o)?`).Draw(t, "w"))
		default:
			c.Words = append(c.Words, rapid.SampledFrom(lists.Uninflected).Draw(t, "w"))
		}
		if rapid.IntRange(0, 2).Draw(t, "nearby") == 0 {
			// a different input that a sloppy cache key could mistake for an earlier one
			w := c.Words[rapid.IntRange(0, len(c.Words)-1).Draw(t, "of")]
			switch rapid.IntRange(0, 6).Draw(t, "how") {
			case 0:
				w += "\x00"
			case 1:
				w += "\x00\x00"
			case 2:
				w = strings.ToUpper(w)
			case 3:
				w = strings.Repeat("x", 64) + " " + w
			case 4:
				w += " "
			case 5:
				w = strings.Repeat(w+" ", 9) + w
			default:
				w = "\x00" + w
			}
			c.Words = append(c.Words, w)
		}
	}
	return c
}

func runC20ConcInChild(c c20Conc) c20ConcResult {
	res := c20ConcResult{Plural: make([][]string, c.Goroutines), Singular: make([][]string, c.Goroutines)}
	start := make(chan struct{})
	var wg sync.WaitGroup
	var mu sync.Mutex
	for g := 0; g < c.Goroutines; g++ {
		wg.Add(1)
		go func(g int) {
			defer wg.Done()
			pl := make([]string, len(c.Words))
			sg := make([]string, len(c.Words))
			defer func() {
				if p := recover(); p != nil {
					mu.Lock()
					res.Panic = fmt.Sprint(p)
					mu.Unlock()
				}
				res.Plural[g], res.Singular[g] = pl, sg
			}()
			<-start
			n := len(c.Words)
			for k := 0; k < n; k++ {
				i := (k + g) % n // every goroutine starts at a different word
				if g%2 == 0 {
					pl[i] = strconv.QuoteToASCII(inflector.Pluralize(c.Words[i]))
					sg[i] = strconv.QuoteToASCII(inflector.Singularize(c.Words[i]))
				} else {
					sg[i] = strconv.QuoteToASCII(inflector.Singularize(c.Words[i]))
					pl[i] = strconv.QuoteToASCII(inflector.Pluralize(c.Words[i]))
				}
			}
		}(g)
	}
	close(start)
	wg.Wait()
	return res
}

// TestC20Child is the child role: it runs one concurrent scenario read from VT_C20_CHILD and prints the results.
func TestC20Child(t *testing.T) {
	f := os.Getenv("VT_C20_CHILD")
	if f == "" {
		t.Skip("child role only")
	}
	b, err := os.ReadFile(f)
	if err != nil {
		t.Fatal(err)
	}
	var c c20Conc
	if err := json.Unmarshal(b, &c); err != nil {
		t.Fatal(err)
	}
	res := runC20ConcInChild(c)
	out, _ := json.Marshal(res)
	if err := os.WriteFile(f+".out", out, 0o644); err != nil {
		t.Fatal(err)
	}
}

func oracleC20Conc(c c20Conc) error {
	dir, err := os.MkdirTemp("", "c20")
	if err != nil {
		panic("harness: " + err.Error())
	}
	defer os.RemoveAll(dir)
	in := filepath.Join(dir, "case.json")
	b, _ := json.Marshal(c)
	if err := os.WriteFile(in, b, 0o644); err != nil {
		panic("harness: " + err.Error())
	}
	cmd := exec.Command(os.Args[0], "-test.run", "^TestC20Child$", "-test.timeout", "120s")
	cmd.Env = append(os.Environ(), "VT_C20_CHILD="+in, "VT_OUT=", "GORACE=halt_on_error=1 exitcode=66")
	outb, runErr := cmd.CombinedOutput()
	if runErr != nil {
		tail := string(outb)
		if len(tail) > 3000 {
			tail = tail[:3000]
		}
		if strings.Contains(tail, "DATA RACE") || strings.Contains(tail, "concurrent map") || strings.Contains(tail, "fatal error") || strings.Contains(tail, "panic:") {
			return fmt.Errorf("concurrent callers (%d goroutines, %d words) crashed the process: %v\n%s", c.Goroutines, len(c.Words), runErr, tail)
		}
		panic(fmt.Sprintf("harness: child failed without a race/crash report: %v\n%s", runErr, tail))
	}
	rb, err := os.ReadFile(in + ".out")
	if err != nil {
		panic("harness: child wrote no result: " + err.Error())
	}
	var res c20ConcResult
	if err := json.Unmarshal(rb, &res); err != nil {
		panic("harness: " + err.Error())
	}
	if res.Panic != "" {
		return fmt.Errorf("a concurrent caller panicked: %s", res.Panic)
	}
	for i, w := range c.Words {
		wantP, err := callInflect("Pluralize", inflector.Pluralize, w)
		if err != nil {
			return err
		}
		wantS, err := callInflect("Singularize", inflector.Singularize, w)
		if err != nil {
			return err
		}
		for g := 0; g < c.Goroutines; g++ {
			if res.Plural[g][i] != strconv.QuoteToASCII(wantP) {
				return fmt.Errorf("goroutine %d saw Pluralize(%q)=%s, sequential result is %q", g, w, res.Plural[g][i], wantP)
			}
			if res.Singular[g][i] != strconv.QuoteToASCII(wantS) {
				return fmt.Errorf("goroutine %d saw Singularize(%q)=%s, sequential result is %q", g, w, res.Singular[g][i], wantS)
			}
		}
	}
	return nil
}

// ---- long histories: the same input before and after thousands of other distinct inputs in one process ----

type c20Long struct {
	Sentinels []string `json:"sentinels"`
	Fill      int      `json:"fill"`
	Tag       string   `json:"tag"` // makes the filler inputs of this case distinct from those of every other case
}

func genC20Long(t *rapid.T) c20Long {
	lists, err := loadC20Lists()
	if err != nil {
		panic("harness: " + err.Error())
	}
	c := c20Long{Fill: rapid.SampledFrom(c20Fills()).Draw(t, "fill"), Tag: rapid.StringMatching(`[a-z]{6}`).Draw(t, "tag")}
	c.Sentinels = []string{""}
	for i := 0; i < rapid.IntRange(1, 6).Draw(t, "nsent"); i++ {
		switch rapid.IntRange(0, 3).Draw(t, "sk") {
		case 0:
			c.Sentinels = append(c.Sentinels, rapid.SampledFrom(lists.PluralIrregular).Draw(t, "w"))
		case 1:
			c.Sentinels = append(c.Sentinels, rapid.SampledFrom([]string{" ", "\x00", "a", "s", "-", "é"}).Draw(t, "w"))
		case 2:
			c.Sentinels = append(c.Sentinels, genC20Prefix(t)+rapid.SampledFrom(lists.SingularIrregular).Draw(t, "w"))
		default:
			c.Sentinels = append(c.Sentinels, rapid.StringMatching(`[a-z]{1,8}`).Draw(t, "w"))
		}
	}
	return c
}

// c20Fills: how many other distinct inputs lie between the two askings (cache sizes are typically powers of two)
func c20Fills() []int {
	if os.Getenv("VT_TIER") == "thorough" {
		return []int{1100, 4200, 5000, 9000, 17000}
	}
	return []int{4200, 4500, 5000}
}

func oracleC20Long(c c20Long) error {
	type pair struct{ p, s string }
	ask := func() ([]pair, error) {
		out := make([]pair, len(c.Sentinels))
		for i, w := range c.Sentinels {
			p, err := callInflect("Pluralize", inflector.Pluralize, w)
			if err != nil {
				return nil, err
			}
			s, err := callInflect("Singularize", inflector.Singularize, w)
			if err != nil {
				return nil, err
			}
			out[i] = pair{p, s}
		}
		return out, nil
	}
	before, err := ask()
	if err != nil {
		return err
	}
	for i := 0; i < c.Fill; i++ {
		w := fmt.Sprintf("%s record%d", c.Tag, i)
		if _, err := callInflect("Pluralize", inflector.Pluralize, w); err != nil {
			return err
		}
		if _, err := callInflect("Singularize", inflector.Singularize, w); err != nil {
			return err
		}
	}
	after, err := ask()
	if err != nil {
		return err
	}
	for i, w := range c.Sentinels {
		if before[i] != after[i] {
			return fmt.Errorf("Pluralize/Singularize(%q) = %q/%q, and after %d other distinct inputs in the same process %q/%q: not the same result for the same input on every call",
				w, before[i].p, before[i].s, c.Fill, after[i].p, after[i].s)
		}
	}
	return nil
}

func TestC20(t *testing.T) {
	if os.Getenv("VT_C20_CHILD") != "" {
		t.Skip("child role")
	}
	r := ev.Begin(t, ev.Meta{
		ID:    "C20",
		Level: "exploration",
		Rule: "words sub: every irregular word of either rule and every plain uninflected word (lists parsed from the repository source at run time), " +
			"in lower/upper/title/mixed case, alone or after an arbitrary prefix (ASCII, non-ASCII, newlines) that ends in a separator (ASCII punctuation/space, or U+00A0, U+2009, U+3000, em/en dash, middle dot), with lengths around 16..256 bytes, plus " +
			"free strings over an alphabet with the case-fold aliases U+017F and U+212A; oracle: no panic, f(s)==f(s), f(prefix+word)==prefix+f(word) for the " +
			"rule the word is irregular in. concurrent sub: 2-32 goroutines call both functions on a shared list of up to 24 cold keys in a fresh child " +
			"process built with -race; every observed result must equal the sequential one and the race detector must stay silent. non-trivial = irregular " +
			"word with a non-empty prefix | free string with a fold alias | concurrent scenario with >=8 goroutines on >=4 keys; distinct by JSON encoding",
		Assumptions: []string{
			"word boundary = the prefix ends in a non-word ASCII character or a Unicode space/dash/middle dot (the statement's 'space, hyphen, ...'); prefixes ending in '_' or a letter are not asserted",
			"interleavings are sampled, the race detector only judges executions that happened",
		},
	})
	defer r.Finish()
	if _, err := loadC20Lists(); err != nil {
		r.Inconclusive(err.Error())
		return
	}
	ev.Search(r, ev.Sub[c20Case]{
		Name: "words", Gen: genC20, Oracle: oracleC20, NonTrivial: c20NonTrivial, Classes: c20Classes,
		Budget: ev.Budget{Quick: 12000, Thorough: 150000}, MinNonTrivial: 0.2,
	})
	ev.Search(r, ev.Sub[c20Conc]{
		Name: "concurrent", Gen: genC20Conc, Oracle: oracleC20Conc,
		NonTrivial: func(c c20Conc) bool { return c.Goroutines >= 8 && len(c.Words) >= 4 },
		Classes: func(c c20Conc) []string {
			return []string{fmt.Sprintf("goroutines-%d", c.Goroutines)}
		},
		Budget: ev.Budget{Quick: 40, Thorough: 400}, MinNonTrivial: 0.2, ShrinkTime: 30e9,
	})
	ev.Search(r, ev.Sub[c20Long]{
		Name: "long-history", Gen: genC20Long, Oracle: oracleC20Long,
		NonTrivial: func(c c20Long) bool { return c.Fill >= 4100 },
		Classes:    func(c c20Long) []string { return []string{fmt.Sprintf("fill-%d", c.Fill)} },
		Budget:     ev.Budget{Quick: 3, Thorough: 4}, MinNonTrivial: 0.2, ShrinkTime: 20e9,
	})
	// every listed word alone and behind "old-" / "a\n": exhaustive over the lists
	lists, _ := loadC20Lists()
	if r.Shard == 0 {
		ev.Enumerate(r, "all-words", func(yield func(c20Case) bool) {
			for _, pre := range []string{"", "old-", "Old ", "é ", "a\nold ", "x.y/", "a\u00a0", "b—", strings.Repeat("x", 58) + " ", strings.Repeat("y", 60) + "-"} {
				for _, kw := range []struct {
					kind string
					ws   []string
				}{{"plural-irregular", lists.PluralIrregular}, {"singular-irregular", lists.SingularIrregular}, {"uninflected", lists.Uninflected}} {
					kind := kw.kind
					for _, w := range kw.ws {
						for _, cw := range []string{w, strings.ToUpper(w), strings.ToUpper(w[:1]) + w[1:]} {
							if !yield(c20Case{Kind: kind, Prefix: pre, Word: cw}) {
								return
							}
						}
					}
				}
			}
		}, oracleC20, c20NonTrivial, c20Classes)
	}
}

func FuzzC20(f *testing.F) {
	for _, s := range []string{"", "person", "old-person", "a\nold person", "é people", "perſon", "cooKie", "MEN", "x ox"} {
		f.Add(s)
	}
	f.Fuzz(func(t *testing.T, s string) {
		c := c20Case{Kind: "free", Free: s}
		if err := ev.Guard(func() error { return oracleC20(c) }); err != nil {
			ev.FuzzFail("C20", "words", c, err)
			t.Fatal(err)
		}
	})
}
