package pure

import (
	"bytes"
	"fmt"
	"go/token"
	"sort"
	"strings"
	"testing"

	"github.com/octohelm/gengo/pkg/gengo"
	"github.com/octohelm/gengo/pkg/gengo/snippet"
	"github.com/octohelm/gengo/pkg/namer"
	gengotypes "github.com/octohelm/gengo/pkg/types"
	"pgregory.net/rapid"

	"vt/internal/ev"
)

// ---- C15: type references survive parsing, printing and import rewriting ----

type refNode struct {
	Path string     `json:"path,omitempty"`
	Name string     `json:"name"`
	Args []*refNode `json:"args,omitempty"`
}

func (n *refNode) print(b *strings.Builder) {
	if n.Path != "" {
		b.WriteString(n.Path)
		b.WriteByte('.')
	}
	b.WriteString(n.Name)
	if len(n.Args) > 0 {
		b.WriteByte('[')
		for i, a := range n.Args {
			if i > 0 {
				b.WriteByte(',')
			}
			a.print(b)
		}
		b.WriteByte(']')
	}
}

func (n *refNode) String() string {
	b := &strings.Builder{}
	n.print(b)
	return b.String()
}

func (n *refNode) walk(f func(*refNode, int), depth int) {
	f(n, depth)
	for _, a := range n.Args {
		a.walk(f, depth+1)
	}
}

type c15Case struct {
	Target string   `json:"target"`
	Ref    *refNode `json:"ref"`
	// Via: how the reference is handed to the naming system: "string" (snippet.ID(s)),
	// "typename" (snippet.ID(types.Ref(path, rest))), "expose" (snippet.PkgExpose(path, rest))
	Via string `json:"via"`
	// Pre: import paths referenced before, so that local names are already taken
	Pre []string `json:"pre,omitempty"`
	// Warm: the very snippet value is rendered elsewhere first - through another writer whose target package is the reference's
	// own package ("own"), an unrelated one ("other"), or one whose tracker already holds clashing names ("clash")
	Warm string `json:"warm,omitempty"`
}

const c15Own = "example.com/mod/target"

var c15Paths = []string{
	c15Own,
	"fmt", "x", "a/b", "encoding/json", "text/template", "html/template",
	"github.com/foo/bar", "github.com/foo/bar/v2", "github.com/other/bar", "gopkg.in/yaml.v3",
	"k8s.io/api/core/v1", "k8s.io/api/apps/v1", "example.com/x/apis/foo/v1", "example.com/y/domain/foo",
	"example.com/my-pkg", "example.com/my.pkg", "example.com/my_pkg", "example.com/mod/target/sub",
	"example.com/mod", "a.b.c/d.e", "example.com/mod/template",
	// one-element paths that are also the natural import name of a longer path
	"example.com/q/x", "bar", "foo", "v1",
	// an element that merely ends in "vendor"; a path that has the target path as a proper suffix
	"example.com/shop/multivendor/model", "mirror.example.com/mod/target", "xexample.com/mod/target",
	"example.com/größen", "example.com/包/v2",
	"example.com/tools/c++/nodes", "example.com/a+b",
}

var c15Names = []string{"T", "Name", "List", "M", "P", "x", "T2", "_t", "Größe", "Nœud", "型"}
var c15Builtins = []string{"int", "string", "any", "error", "K", "V"}

func genRefNode(t *rapid.T, depth, width int, rooted bool) *refNode {
	n := &refNode{}
	if rooted || rapid.IntRange(0, 3).Draw(t, "rooted") > 0 {
		n.Path = rapid.SampledFrom(c15Paths).Draw(t, "path")
		n.Name = rapid.SampledFrom(c15Names).Draw(t, "name")
	} else {
		n.Name = rapid.SampledFrom(c15Builtins).Draw(t, "builtin")
	}
	if depth > 0 && rapid.IntRange(0, 2).Draw(t, "hasargs") > 0 {
		k := rapid.IntRange(1, width).Draw(t, "nargs")
		for i := 0; i < k; i++ {
			n.Args = append(n.Args, genRefNode(t, depth-1, width, false))
		}
	}
	return n
}

func genC15(t *rapid.T) c15Case {
	c := c15Case{Target: c15Own}
	c.Ref = genRefNode(t, rapid.IntRange(0, 4).Draw(t, "depth"), rapid.IntRange(1, 4).Draw(t, "width"), rapid.IntRange(0, 5).Draw(t, "toprooted") > 0)
	// the statement says "of any depth": a fifth of the trees are wrapped into a narrow chain of 1-12 further bracket levels
	if rapid.IntRange(0, 4).Draw(t, "chain") == 0 {
		levels := rapid.IntRange(1, 12).Draw(t, "chainlevels")
		for i := 0; i < levels; i++ {
			outer := &refNode{Path: rapid.SampledFrom(c15Paths).Draw(t, "chainpath"), Name: rapid.SampledFrom(c15Names).Draw(t, "chainname")}
			leaf := func(l string) *refNode {
				if rapid.Bool().Draw(t, l+"rooted") {
					return &refNode{Path: rapid.SampledFrom(c15Paths).Draw(t, l+"path"), Name: rapid.SampledFrom(c15Names).Draw(t, l+"name")}
				}
				return &refNode{Name: rapid.SampledFrom(c15Builtins).Draw(t, l+"builtin")}
			}
			switch rapid.IntRange(0, 3).Draw(t, "chainshape") {
			case 0:
				outer.Args = []*refNode{c.Ref}
			case 1:
				outer.Args = []*refNode{leaf("before"), c.Ref}
			case 2:
				outer.Args = []*refNode{c.Ref, leaf("after")}
			default:
				outer.Args = []*refNode{leaf("before"), c.Ref, leaf("after")}
			}
			c.Ref = outer
		}
	}
	c.Via = rapid.SampledFrom([]string{"string", "string", "typename", "expose"}).Draw(t, "via")
	c.Warm = rapid.SampledFrom([]string{"", "", "", "own", "other", "clash"}).Draw(t, "warm")
	np := rapid.IntRange(0, 3).Draw(t, "npre")
	for i := 0; i < np; i++ {
		c.Pre = append(c.Pre, rapid.SampledFrom(c15Paths[1:]).Draw(t, "pre"))
	}
	return c
}

func sameTree(n *refNode, r *gengotypes.TypeRef) error {
	if r == nil {
		return fmt.Errorf("nil TypeRef for %s", n)
	}
	if r.PkgPath != n.Path || r.Name != n.Name || len(r.TypeList) != len(n.Args) {
		return fmt.Errorf("node %s parsed as {PkgPath:%q Name:%q args:%d}", n, r.PkgPath, r.Name, len(r.TypeList))
	}
	for i := range n.Args {
		if err := sameTree(n.Args[i], r.TypeList[i]); err != nil {
			return err
		}
	}
	return nil
}

// parseRendered is the reference parser for rendered references: qualifier '.' ident [ '[' list ']' ]
// where the qualifier is a plain identifier (no slashes).
type renderedNode struct {
	Qual string
	Name string
	Args []*renderedNode
}

func parseRendered(s string) (*renderedNode, error) {
	p := &rparser{s: s}
	n, err := p.node()
	if err != nil {
		return nil, err
	}
	if p.i != len(s) {
		return nil, fmt.Errorf("trailing text %q in %q", s[p.i:], s)
	}
	return n, nil
}

type rparser struct {
	s string
	i int
}

func (p *rparser) node() (*renderedNode, error) {
	start := p.i
	for p.i < len(p.s) && !strings.ContainsRune("[],", rune(p.s[p.i])) {
		p.i++
	}
	head := p.s[start:p.i]
	n := &renderedNode{}
	if k := strings.LastIndex(head, "."); k >= 0 {
		n.Qual, n.Name = head[:k], head[k+1:]
		if n.Qual == "" {
			return nil, fmt.Errorf("empty qualifier in %q", p.s)
		}
	} else {
		n.Name = head
	}
	if n.Name == "" {
		return nil, fmt.Errorf("empty name at offset %d of %q", start, p.s)
	}
	if p.i < len(p.s) && p.s[p.i] == '[' {
		p.i++
		for {
			a, err := p.node()
			if err != nil {
				return nil, err
			}
			n.Args = append(n.Args, a)
			if p.i >= len(p.s) {
				return nil, fmt.Errorf("unterminated bracket in %q", p.s)
			}
			if p.s[p.i] == ',' {
				p.i++
				continue
			}
			if p.s[p.i] == ']' {
				p.i++
				break
			}
			return nil, fmt.Errorf("unexpected %q in %q", p.s[p.i], p.s)
		}
	}
	return n, nil
}

func validImportName(name string) error {
	if !token.IsIdentifier(name) { // false for keywords and for ""
		return fmt.Errorf("import name %q is not a valid non-keyword identifier", name)
	}
	if name == "_" {
		return fmt.Errorf("import name is the blank identifier")
	}
	return nil
}

func checkRendered(n *refNode, r *renderedNode, target string, tracker namer.ImportTracker, foreign map[string]bool) error {
	if r.Name != n.Name || len(r.Args) != len(n.Args) {
		return fmt.Errorf("node %s rendered as name %q with %d args", n, r.Name, len(r.Args))
	}
	switch {
	case n.Path == "" || n.Path == target:
		if r.Qual != "" {
			return fmt.Errorf("node %s must be unqualified, rendered with qualifier %q", n, r.Qual)
		}
	default:
		foreign[n.Path] = true
		if err := validImportName(r.Qual); err != nil {
			return fmt.Errorf("node %s: %w", n, err)
		}
		if p, ok := tracker.PathOf(r.Qual); !ok || p != n.Path {
			return fmt.Errorf("node %s rendered with qualifier %q which is bound to %q,%v", n, r.Qual, p, ok)
		}
		if ln := tracker.LocalNameOf(n.Path); ln != r.Qual {
			return fmt.Errorf("node %s rendered with qualifier %q but LocalNameOf gives %q", n, r.Qual, ln)
		}
	}
	for i := range n.Args {
		if err := checkRendered(n.Args[i], r.Args[i], target, tracker, foreign); err != nil {
			return err
		}
	}
	return nil
}

func oracleC15(c c15Case) error {
	s := c.Ref.String()

	// 1. parse / print round trip
	tr, err := gengotypes.ParseTypeRef(s)
	if err != nil {
		return fmt.Errorf("ParseTypeRef(%q): %v", s, err)
	}
	if got := tr.String(); got != s {
		return fmt.Errorf("ParseTypeRef(%q).String() = %q", s, got)
	}
	if err := sameTree(c.Ref, tr); err != nil {
		return fmt.Errorf("ParseTypeRef(%q): %v", s, err)
	}

	// 2. ParseRef / Ref / PkgImportPathAndExpose agree on the split point
	rest := s[len(c.Ref.Path):]
	rest = strings.TrimPrefix(rest, ".")
	ipath, expose := gengo.PkgImportPathAndExpose(s)
	pr, perr := gengotypes.ParseRef(s)
	if c.Ref.Path != "" {
		if perr != nil {
			return fmt.Errorf("ParseRef(%q): %v", s, perr)
		}
		if pr.Pkg().Path() != c.Ref.Path || pr.Name() != rest {
			return fmt.Errorf("ParseRef(%q) = (%q, %q), want (%q, %q)", s, pr.Pkg().Path(), pr.Name(), c.Ref.Path, rest)
		}
		if pr.String() != s {
			return fmt.Errorf("ParseRef(%q).String() = %q", s, pr.String())
		}
		if ipath != c.Ref.Path || expose != c.Ref.Name {
			return fmt.Errorf("PkgImportPathAndExpose(%q) = (%q, %q), want (%q, %q)", s, ipath, expose, c.Ref.Path, c.Ref.Name)
		}
		if r2 := gengotypes.Ref(c.Ref.Path, rest); r2.String() != s || r2.Pkg().Path() != c.Ref.Path || r2.Name() != rest {
			return fmt.Errorf("Ref(%q,%q) = %q", c.Ref.Path, rest, r2.String())
		}
		// the same split point when an ARGUMENT names a vendored package (the argument list is not part of the package path)
		for _, varg := range []string{"[example.com/app/vendor/github.com/lib/q.T]", "[int," + c.Ref.Path + ".Box[x/vendor/y.T]]"} {
			sv := c.Ref.Path + "." + c.Ref.Name + varg
			if ip, ex := gengo.PkgImportPathAndExpose(sv); ip != c.Ref.Path || ex != c.Ref.Name {
				return fmt.Errorf("PkgImportPathAndExpose(%q) = (%q, %q), want (%q, %q)", sv, ip, ex, c.Ref.Path, c.Ref.Name)
			}
			if prv, err := gengotypes.ParseRef(sv); err != nil || prv.Pkg().Path() != c.Ref.Path || prv.String() != sv {
				return fmt.Errorf("ParseRef(%q) does not split at %q (err %v)", sv, c.Ref.Path, err)
			}
			if trv, err := gengotypes.ParseTypeRef(sv); err != nil || trv.String() != sv {
				return fmt.Errorf("ParseTypeRef(%q) does not print back (err %v)", sv, err)
			}
		}
	} else {
		if perr == nil {
			return fmt.Errorf("ParseRef(%q) found package %q in a reference without a package path", s, pr.Pkg().Path())
		}
		if ipath != "" || expose != c.Ref.Name {
			return fmt.Errorf("PkgImportPathAndExpose(%q) = (%q, %q), want (\"\", %q)", s, ipath, expose, c.Ref.Name)
		}
		return nil
	}

	// 3. rendering through the naming system
	tracker := namer.NewDefaultImportTracker()
	for _, p := range c.Pre {
		tracker.AddType(gengotypes.Ref(p, "Pre"))
	}
	before := map[string]string{}
	for k, v := range tracker.Imports() {
		before[k] = v
	}
	buf := &bytes.Buffer{}
	w := gengo.NewSnippetWriter(buf, namer.NameSystems{"raw": namer.NewRawNamer(c.Target, tracker)})
	var sn snippet.Snippet
	switch c.Via {
	case "typename":
		sn = snippet.ID(gengotypes.Ref(c.Ref.Path, rest))
	case "expose":
		sn = snippet.PkgExpose(c.Ref.Path, rest)
	default:
		sn = snippet.ID(s)
	}
	if c.Warm != "" {
		warmTracker := namer.NewDefaultImportTracker()
		warmTarget := "example.com/warm/elsewhere"
		switch c.Warm {
		case "own":
			warmTarget = c.Ref.Path
		case "clash":
			for _, p := range c15Paths[1:] {
				warmTracker.AddType(gengotypes.Ref(p, "Warm"))
			}
		}
		warm := gengo.NewSnippetWriter(&bytes.Buffer{}, namer.NameSystems{"raw": namer.NewRawNamer(warmTarget, warmTracker)})
		if p := ev.Panics(func() { warm.Render(sn) }); p != nil {
			return fmt.Errorf("rendering %q (via %s) into %s panics: %v", s, c.Via, warmTarget, p)
		}
	}
	if p := ev.Panics(func() { w.Render(sn) }); p != nil {
		return fmt.Errorf("rendering %q (via %s) panics: %v", s, c.Via, p)
	}
	out := buf.String()
	rn, err := parseRendered(out)
	if err != nil {
		return fmt.Errorf("rendering %q gave %q: %v", s, out, err)
	}
	foreign := map[string]bool{}
	if err := checkRendered(c.Ref, rn, c.Target, tracker, foreign); err != nil {
		return fmt.Errorf("rendering %q gave %q: %v", s, out, err)
	}
	// registers exactly those packages (beyond what was there before), changes nothing else
	imports := tracker.Imports()
	for p := range foreign {
		if _, ok := imports[p]; !ok {
			return fmt.Errorf("rendering %q gave %q: package %q not registered; imports %v", s, out, p, imports)
		}
	}
	for p, name := range imports {
		if old, was := before[p]; was {
			if old != name {
				return fmt.Errorf("rendering %q renamed import %q from %q to %q", s, p, old, name)
			}
			continue
		}
		if !foreign[p] {
			return fmt.Errorf("rendering %q gave %q: registered %q which is not referenced", s, out, p)
		}
	}
	seen := map[string]string{}
	for p, name := range imports {
		if other, dup := seen[name]; dup {
			return fmt.Errorf("import name %q bound to both %q and %q", name, p, other)
		}
		seen[name] = p
	}
	// rendering again gives the same text and the same import table
	buf.Reset()
	if p := ev.Panics(func() { w.Render(sn) }); p != nil {
		return fmt.Errorf("second rendering of %q panics: %v", s, p)
	}
	if buf.String() != out {
		return fmt.Errorf("second rendering of %q gave %q, first %q", s, buf.String(), out)
	}
	if len(tracker.Imports()) != len(seen) {
		return fmt.Errorf("second rendering of %q changed the import table", s)
	}
	return nil
}

func c15Shape(c c15Case) (depth, maxWidth, nodes int, ownArg bool, commaAfterBracket bool) {
	c.Ref.walk(func(n *refNode, d int) {
		nodes++
		if d > depth {
			depth = d
		}
		if len(n.Args) > maxWidth {
			maxWidth = len(n.Args)
		}
		if d > 0 && n.Path == c.Target {
			ownArg = true
		}
		for i, a := range n.Args {
			if i < len(n.Args)-1 && len(a.Args) > 0 && d >= 1 {
				commaAfterBracket = true
			}
		}
	}, 0)
	return
}

func c15NonTrivial(c c15Case) bool {
	depth, width, _, _, _ := c15Shape(c)
	return depth >= 2 && width >= 2
}

func c15Classes(c c15Case) []string {
	depth, width, _, own, cab := c15Shape(c)
	cl := []string{fmt.Sprintf("depth%d", depth), "via-" + c.Via}
	if width >= 2 {
		cl = append(cl, "width>=2")
	}
	if own {
		cl = append(cl, "own-package-argument")
	}
	if cab {
		cl = append(cl, "comma-after-nested-bracket-at-depth>=2")
	}
	if c.Ref.Path == "" {
		cl = append(cl, "unrooted")
	}
	if len(c.Pre) > 0 {
		cl = append(cl, "pre-seeded-imports")
	}
	return cl
}

// c15Enumerate yields every tree with at most maxNodes nodes over the given labels.
func c15Enumerate(maxNodes int) func(yield func(c15Case) bool) {
	type label struct{ path, name string }
	labels := []label{
		{c15Own, "T"}, {c15Own, "M"},
		{"github.com/foo/bar", "T"}, {"github.com/foo/bar", "M"},
		{"", "int"}, {"", "K"},
	}
	// forests(n): all ordered forests with exactly n nodes
	var forests func(n int) [][]*refNode
	memoF := map[int][][]*refNode{}
	var trees func(n int) []*refNode
	memoT := map[int][]*refNode{}
	trees = func(n int) []*refNode {
		if v, ok := memoT[n]; ok {
			return v
		}
		var out []*refNode
		for _, l := range labels {
			for _, f := range forests(n - 1) {
				out = append(out, &refNode{Path: l.path, Name: l.name, Args: f})
			}
		}
		memoT[n] = out
		return out
	}
	forests = func(n int) [][]*refNode {
		if v, ok := memoF[n]; ok {
			return v
		}
		var out [][]*refNode
		if n == 0 {
			out = [][]*refNode{nil}
		} else {
			for first := 1; first <= n; first++ {
				for _, t := range trees(first) {
					for _, rest := range forests(n - first) {
						out = append(out, append([]*refNode{t}, rest...))
					}
				}
			}
		}
		memoF[n] = out
		return out
	}
	return func(yield func(c15Case) bool) {
		for n := 1; n <= maxNodes; n++ {
			for _, t := range trees(n) {
				if !yield(c15Case{Target: c15Own, Ref: t, Via: "string"}) {
					return
				}
			}
		}
	}
}

func TestC15(t *testing.T) {
	r := ev.Begin(t, ev.Meta{
		ID:    "C15",
		Level: "exploration",
		Rule: "reference trees from ref ::= [path '.'] ident ['[' ref {',' ref} ']'] with depth <= 4, width <= 4 (a fifth wrapped into a narrow chain of up to 12 further bracket levels), paths from a pool of 33 " +
			"(std, dotted hosts, vN, apis/domain, punctuation variants, the target package), printed by the harness and fed to ParseTypeRef, " +
			"ParseRef, Ref, PkgImportPathAndExpose and snippet.ID/PkgExpose; non-trivial = depth >= 2 and >= 2 arguments at some level; " +
			"distinct by JSON encoding; the enumerate sub lists every tree up to a node bound over 6 labels",
		Assumptions: []string{
			"rendering is asserted for references whose top level has a package path (the statement's `path.Name`); unrooted top levels are checked for parsing only",
			"paths contain no /vendor/ element, except in two fixed argument lists appended to every rooted reference for the split-point checks",
		},
	})
	defer r.Finish()
	ev.Search(r, ev.Sub[c15Case]{
		Name: "tree", Gen: genC15, Oracle: oracleC15, NonTrivial: c15NonTrivial, Classes: c15Classes,
		Budget: ev.Budget{Quick: 30000, Thorough: 300000}, MinNonTrivial: 0.05,
	})
	if r.Shard == 0 {
		n := 5
		if r.Thorough() {
			n = 6
		}
		ev.Enumerate(r, "enumerate", c15Enumerate(n), oracleC15, c15NonTrivial, nil)
		r.Extra("enumerated_max_nodes", n)
	}
}

func sortedKeys(m map[string]string) []string {
	out := make([]string, 0, len(m))
	for k := range m {
		out = append(out, k)
	}
	sort.Strings(out)
	return out
}

// FuzzC15 lets the coverage-guided fuzzer drive the reference-tree generator.
func FuzzC15(f *testing.F) {
	f.Fuzz(rapid.MakeFuzz(ev.FuzzProp("C15", ev.Sub[c15Case]{Name: "tree", Gen: genC15, Oracle: oracleC15})))
}
