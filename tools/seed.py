#!/usr/bin/env python3
"""Confirms a seeded change produced by an independent sub-agent and files it under /verif/seeded/<id>/.

  seed.py add --id C07-A --prop C07 --patch P.diff --demo D_test.go --dest pkg/gengo --run "go test ./pkg/gengo/ -run TestSeedA -count=1" \
              --needs "what it needs to manifest" [--checks C07,C02] [--extra file ...]
  seed.py run [--tier quick] [-k substr]     re-runs the registered checks against every filed seeded change (scratch copies, VT_REPO)

Confirmation (all in a scratch copy of /repo, removed afterwards): the demonstration passes on the clean copy; with the patch the
library builds, the repository's own tests pass, and the demonstration fails. Then the listed checks run against the patched copy.
"""
import argparse, json, os, shutil, subprocess, sys, time

ROOT = os.path.dirname(os.path.dirname(os.path.abspath(__file__)))
TC = "/root/go/pkg/mod/golang.org/toolchain@v0.0.1-go1.24.2.linux-amd64/bin"
ENV = dict(os.environ, PATH=TC + ":" + os.environ["PATH"], GOTOOLCHAIN="local", GOFLAGS="-mod=mod", GOPROXY="off")
ENV.pop("GOSUMDB", None)
SCRATCH = "/tmp/vtseed"


def sh(cmd, cwd=None, env=None, timeout=3600):
    p = subprocess.run(cmd, cwd=cwd, env=env or ENV, shell=isinstance(cmd, str), stdout=subprocess.PIPE, stderr=subprocess.STDOUT, timeout=timeout)
    return p.returncode, p.stdout.decode(errors="replace")


def fresh(name):
    d = os.path.join(SCRATCH, name)
    shutil.rmtree(d, ignore_errors=True)
    os.makedirs(SCRATCH, exist_ok=True)
    sh(["rsync", "-a", "--exclude", ".git", "/repo/", d + "/"])
    return d


def run_checks(d, checks, tier):
    out = {}
    for p in checks:
        env = dict(ENV, VT_REPO=d, VT_EVIDENCE_DIR=os.path.join(d, ".vt", "evidence"), VT_REPLAY_DIR=os.path.join(d, ".vt", "replays"))
        t0 = time.time()
        rc, o = sh([os.path.join(ROOT, "check"), p, tier], cwd=ROOT, env=env)
        v = [l for l in o.splitlines() if l.startswith("VIOLATION") or l.startswith("  sub=")]
        out[p] = dict(exit=rc, wall_s=round(time.time() - t0, 1), verdict="caught" if rc == 1 else ("missed" if rc == 0 else "inconclusive"),
                      first=(v[0][:300] if v else ""), msg=(v[1][:500] if len(v) > 1 else ""))
    return out


def add(a):
    sd = os.path.join(ROOT, "seeded", a.id)
    os.makedirs(sd, exist_ok=True)
    shutil.copy(a.patch, os.path.join(sd, "patch.diff"))
    demo_name = os.path.basename(a.demo)
    shutil.copy(a.demo, os.path.join(sd, demo_name))
    for e in a.extra or []:
        shutil.copy(e, os.path.join(sd, os.path.basename(e)))
    d = fresh(a.id)
    log = {}
    try:
        dest = os.path.join(d, a.dest)
        os.makedirs(dest, exist_ok=True)
        shutil.copy(a.demo, os.path.join(dest, demo_name))
        for e in a.extra or []:
            shutil.copy(e, os.path.join(dest, os.path.basename(e)))
        rc, o = sh(a.run, cwd=d)
        log["demo_on_clean_tree"] = dict(exit=rc, tail=o[-400:])
        os.remove(os.path.join(dest, demo_name))
        rc, o = sh(["git", "apply", os.path.join(sd, "patch.diff")], cwd=d)
        log["apply"] = dict(exit=rc, tail=o[-300:])
        rc, o = sh("go build ./...", cwd=d)
        log["build"] = dict(exit=rc, tail=o[-300:])
        rc, o = sh([os.path.join(ROOT, "tools", "baseline.sh"), d])
        log["existing_tests_with_patch"] = dict(exit=rc, tail=o.strip()[-200:])
        shutil.copy(a.demo, os.path.join(dest, demo_name))
        rc, o = sh(a.run, cwd=d)
        log["demo_with_patch"] = dict(exit=rc, tail=o[-600:])
        os.remove(os.path.join(dest, demo_name))
        ok = (log["demo_on_clean_tree"]["exit"] == 0 and log["apply"]["exit"] == 0 and log["build"]["exit"] == 0 and
              log["existing_tests_with_patch"]["exit"] == 0 and log["demo_with_patch"]["exit"] != 0)
        checks = (a.checks or a.prop).split(",")
        res = run_checks(d, checks, a.tier) if ok else {}
    finally:
        shutil.rmtree(d, ignore_errors=True)
    meta = dict(id=a.id, property=a.prop, source="independent sub-agent (given only the property text and a scratch worktree)", needs=a.needs,
                demo=dict(file=demo_name, place_in=a.dest, run=a.run), confirmed=ok, confirmation=log, checks=res, checked_at=time.strftime("%Y-%m-%dT%H:%M:%S"), tier=a.tier)
    json.dump(meta, open(os.path.join(sd, "meta.json"), "w"), indent=1)
    print(a.id, "confirmed" if ok else "NOT CONFIRMED", {k: v["verdict"] for k, v in res.items()})
    if not ok:
        print(json.dumps(log, indent=1)[:3000])


def rerun(a):
    base = os.path.join(ROOT, "seeded")
    for sid in sorted(os.listdir(base)):
        if a.k not in sid:
            continue
        mf = os.path.join(base, sid, "meta.json")
        if not os.path.exists(mf):
            continue
        meta = json.load(open(mf))
        if not meta.get("confirmed"):
            continue
        d = fresh(sid)
        try:
            rc, o = sh(["git", "apply", os.path.join(base, sid, "patch.diff")], cwd=d)
            if rc != 0:
                print(sid, "patch no longer applies:", o[-200:])
                continue
            checks = list(meta.get("checks", {}).keys()) or [meta["property"]]
            if a.own:
                checks = [meta["property"]]
            res = run_checks(d, checks, a.tier)
            if a.own:
                res = dict(meta.get("checks", {}), **res)
        finally:
            shutil.rmtree(d, ignore_errors=True)
        meta["checks"] = res
        meta["checked_at"] = time.strftime("%Y-%m-%dT%H:%M:%S")
        meta["tier"] = a.tier
        json.dump(meta, open(mf, "w"), indent=1)
        print(sid, {k: v["verdict"] for k, v in res.items()}, flush=True)


def reconfirm(a):
    """re-confirms filed seeds whose patch was ported: patch applies, builds, repository suite passes, demonstration fails"""
    base = os.path.join(ROOT, "seeded")
    for sid in sorted(os.listdir(base)):
        if a.k not in sid:
            continue
        mf = os.path.join(base, sid, "meta.json")
        meta = json.load(open(mf))
        d = fresh(sid)
        try:
            demo = os.path.join(base, sid, meta["demo"]["file"])
            dest = os.path.join(d, meta["demo"]["place_in"])
            log = {}
            rc, o = sh(["git", "apply", os.path.join(base, sid, "patch.diff")], cwd=d)
            log["apply"] = rc
            rc, o = sh("go build ./...", cwd=d)
            log["build"] = rc
            rc, o = sh([os.path.join(ROOT, "tools", "baseline.sh"), d])
            log["existing_tests_with_patch"] = rc
            shutil.copy(demo, os.path.join(dest, os.path.basename(demo)))
            rc, o = sh(meta["demo"]["run"], cwd=d)
            log["demo_with_patch"] = rc
            ok = log["apply"] == 0 and log["build"] == 0 and log["existing_tests_with_patch"] == 0 and log["demo_with_patch"] != 0
        finally:
            shutil.rmtree(d, ignore_errors=True)
        meta["confirmed"] = ok
        meta["reconfirmation"] = dict(log, at=time.strftime("%Y-%m-%dT%H:%M:%S"))
        json.dump(meta, open(mf, "w"), indent=1)
        print(sid, "confirmed" if ok else "NOT CONFIRMED", log, flush=True)


def main():
    ap = argparse.ArgumentParser()
    sp = ap.add_subparsers(dest="cmd")
    p = sp.add_parser("add")
    for f in ("id", "prop", "patch", "demo", "dest", "run", "needs"):
        p.add_argument("--" + f, required=True)
    p.add_argument("--checks")
    p.add_argument("--tier", default="quick")
    p.add_argument("--extra", nargs="*")
    q = sp.add_parser("run")
    q.add_argument("--tier", default="quick")
    q.add_argument("-k", default="")
    q.add_argument("--own", action="store_true", help="only the check of the seed's own property (other recorded verdicts are kept)")
    c = sp.add_parser("reconfirm")
    c.add_argument("-k", default="")
    a = ap.parse_args()
    if a.cmd == "reconfirm":
        reconfirm(a)
    elif a.cmd == "add":
        add(a)
    elif a.cmd == "run":
        rerun(a)


if __name__ == "__main__":
    main()
