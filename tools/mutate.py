#!/usr/bin/env python3
"""Sensitivity runner: applies each mutant of tools/mutants_table.py to a scratch copy of /repo, checks that it still
compiles and passes the repository's own tests, runs the quick check of the properties it is meant to break against the
copy (VT_REPO) and records whether the check raised a VIOLATION.  Nothing under /repo is touched; copies are removed.

usage: mutate.py [-j N] [-k substring] [--tier quick|thorough] [--keep]
results: /verif/sensitivity/results.jsonl (appended) and a table on stdout
"""
import argparse, json, os, shutil, subprocess, sys, time, concurrent.futures as cf

ROOT = os.path.dirname(os.path.dirname(os.path.abspath(__file__)))
sys.path.insert(0, os.path.join(ROOT, "tools"))
from mutants_table import MUTANTS  # noqa

TC = "/root/go/pkg/mod/golang.org/toolchain@v0.0.1-go1.24.2.linux-amd64/bin"
ENV = dict(os.environ, PATH=TC + ":" + os.environ["PATH"], GOTOOLCHAIN="local", GOFLAGS="-mod=mod", GOPROXY="off")
ENV.pop("GOSUMDB", None)
SCRATCH = "/tmp/vtmut"


def sh(cmd, cwd=None, env=None, timeout=1800):
    p = subprocess.run(cmd, cwd=cwd, env=env or ENV, shell=isinstance(cmd, str), stdout=subprocess.PIPE, stderr=subprocess.STDOUT, timeout=timeout)
    return p.returncode, p.stdout.decode(errors="replace")


def run(m, tier, keep):
    d = os.path.join(SCRATCH, m["id"])
    shutil.rmtree(d, ignore_errors=True)
    os.makedirs(SCRATCH, exist_ok=True)
    sh(["rsync", "-a", "--exclude", ".git", "/repo/", d + "/"])
    res = dict(id=m["id"], props=m["props"], note=m.get("note", ""), file=m["file"], tier=tier, time=time.strftime("%Y-%m-%dT%H:%M:%S"))
    try:
        edits = m.get("edits") or [dict(file=m["file"], old=m["old"], new=m["new"])]
        for e in edits:
            fn = os.path.join(d, e["file"])
            src = open(fn).read()
            n = src.count(e["old"])
            if n != e.get("count", 1):
                res["status"] = "stale-mutant: pattern occurs %d times in %s" % (n, e["file"])
                return res
            open(fn, "w").write(src.replace(e["old"], e["new"]))
        rc, out = sh("go build ./... && go vet ./pkg/... ./devpkg/... >/dev/null 2>&1; go build ./...", cwd=d)
        if rc != 0:
            res["status"] = "does-not-compile"
            res["detail"] = out[-600:]
            return res
        rc, out = sh([os.path.join(ROOT, "tools", "baseline.sh"), d])
        res["baseline"] = out.strip().splitlines()[0] if out.strip() else ""
        if rc != 0:
            res["status"] = "caught-by-existing-tests"
            return res
        res["checks"] = {}
        caught = False
        for p in m["props"]:
            env = dict(ENV, VT_REPO=d, VT_EVIDENCE_DIR=os.path.join(d, ".vt", "evidence"), VT_REPLAY_DIR=os.path.join(d, ".vt", "replays"))
            t0 = time.time()
            rc, out = sh([os.path.join(ROOT, "check"), p, tier], cwd=ROOT, env=env, timeout=3600)
            viol = [l for l in out.splitlines() if l.startswith("VIOLATION") or l.startswith("  sub=")]
            res["checks"][p] = dict(exit=rc, wall_s=round(time.time() - t0, 1), first=(viol[0][:400] if viol else out.strip().splitlines()[-1][:300] if out.strip() else ""),
                                    msg=(viol[1][:400] if len(viol) > 1 else ""))
            if rc == 1:
                caught = True
        res["status"] = "caught" if caught else "MISSED"
        return res
    finally:
        if not keep:
            shutil.rmtree(d, ignore_errors=True)


def main():
    ap = argparse.ArgumentParser()
    ap.add_argument("-j", type=int, default=4)
    ap.add_argument("-k", default="")
    ap.add_argument("--tier", default="quick")
    ap.add_argument("--keep", action="store_true")
    a = ap.parse_args()
    todo = [m for m in MUTANTS if a.k in m["id"]]
    os.makedirs(os.path.join(ROOT, "sensitivity"), exist_ok=True)
    out = open(os.path.join(ROOT, "sensitivity", "results.jsonl"), "a")
    with cf.ThreadPoolExecutor(max_workers=a.j) as ex:
        futs = {ex.submit(run, m, a.tier, a.keep): m for m in todo}
        for f in cf.as_completed(futs):
            m = futs[f]
            try:
                r = f.result()
            except Exception as e:  # noqa
                r = dict(id=m["id"], props=m["props"], status="runner-error: %s" % e)
            out.write(json.dumps(r) + "\n")
            out.flush()
            detail = ""
            for p, c in (r.get("checks") or {}).items():
                detail += " %s:exit=%s(%ss)" % (p, c["exit"], c["wall_s"])
            print("%-28s %-26s%s" % (r["id"], r["status"], detail), flush=True)
            if r["status"] in ("MISSED",) or r["status"].startswith("stale") or r["status"].startswith("runner") or r["status"] == "does-not-compile":
                print("    ", r.get("detail", "") or json.dumps(r.get("checks", {}))[:500], flush=True)


if __name__ == "__main__":
    main()
