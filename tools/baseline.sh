#!/bin/bash
# Runs the repository's pinned test suite (guard off; there are no hooks) and prints a pass/fail summary.
TC=/root/go/pkg/mod/golang.org/toolchain@v0.0.1-go1.24.2.linux-amd64/bin
export PATH="$TC:$PATH" GOTOOLCHAIN=local GOFLAGS=-mod=mod GOPROXY=off
unset GOSUMDB
DIR="${1:-/repo}"
cd "$DIR" || exit 2
out=$(go test -json -vet=off -count=1 -timeout 25m ./... 2>&1)
rc=$?
pass=$(echo "$out" | grep -c '"Action":"pass","Package":"[^"]*","Test"')
fail=$(echo "$out" | grep -c '"Action":"fail","Package":"[^"]*","Test"')
echo "baseline: exit=$rc tests_passed=$pass tests_failed=$fail"
[ "$rc" = 0 ] || echo "$out" | grep -E '"Action":"fail"|"Output":".*(FAIL|panic)' | head -20
exit $rc
