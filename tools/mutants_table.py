"""Mutants for the sensitivity runs (tools/mutate.py). Each mutant is a small, compiling change to octohelm/gengo that breaks
one listed property; old must occur exactly once (or `count` times) in the file."""

MUTANTS = []


def M(id, props, file, old, new, note="", count=1):
    MUTANTS.append(dict(id=id, props=props, file=file, old=old, new=new, note=note, count=count))


def ME(id, props, edits, note=""):
    MUTANTS.append(dict(id=id, props=props, file=edits[0]["file"], edits=edits, note=note))


# ---------------------------------------------------------------- C19
M("C19-empty-group-filter", ["C19"], "pkg/camelcase/camelcase.go",
  "		if len(s) > 0 {\n			entries = append(entries, string(s))\n		}",
  "		entries = append(entries, string(s))",
  "empty groups are no longer filtered out of the result")
M("C19-move-two-runes", ["C19"], "pkg/camelcase/camelcase.go",
  "			runes[i+1] = append([]rune{runes[i][len(runes[i])-1]}, runes[i+1]...)\n			runes[i] = runes[i][:len(runes[i])-1]",
  "			if len(runes[i]) > 2 {\n				runes[i+1] = append([]rune{runes[i][len(runes[i])-1]}, runes[i+1]...)\n				runes[i] = runes[i][:len(runes[i])-2]\n			}",
  "upper->lower fix-up drops a rune for groups longer than two")
M("C19-nil-for-invalid-utf8", ["C19"], "pkg/camelcase/camelcase.go",
  "		return []string{src}", "		return nil", "invalid UTF-8 gives nil instead of the whole string")
M("C19-undo-fix", ["C19"], "pkg/camelcase/camelcase.go",
  "if len(runes) > 0 && (class == lastClass", "if (class == lastClass", "reverts the Split fix (panic on leading punctuation)")
M("C19-converter-state", ["C19"], "pkg/camelcase/naming.go",
  "		var b strings.Builder\n		idx := 0\n",
  "		var b strings.Builder\n		idx := 0\n		if len(s) > 24 && len(words) > 6 {\n			idx = len(words) % 2\n		}\n",
  "long inputs with many words start at a word index that depends on the word count (still pure, lossless check n/a) - control: should be missed")

# ---------------------------------------------------------------- C09
M("C09-trimspace", ["C09"], "pkg/gengo/snippet/printer__template.go",
  'strings.TrimLeft(t.format, "\\n")', "strings.TrimSpace(t.format)", "leading/trailing blanks of the format are dropped, not only leading newlines")
M("C09-name-class-dash", ["C09"], "pkg/gengo/snippet/printer__template.go",
  "						c == '_' {", "						c == '_' || c == '-' {", "'-' becomes a placeholder name character")
M("C09-silent-missing-name", ["C09"], "pkg/gengo/snippet/printer__template.go",
  '						panic(fmt.Sprintf("missing named arg `%s` in %s", name, t.format))', "						_ = fmt.Sprintf", "an unbound placeholder renders nothing instead of panicking")
M("C09-two-apostrophes", ["C09"], "pkg/gengo/snippet/printer__template.go",
  "				if !(c == scanner.EOF || c == '\\'') {\n					if !yield(string(c)) {\n						return\n					}\n				}",
  "				if !(c == scanner.EOF || c == '\\'') {\n					if !yield(string(c)) {\n						return\n					}\n				} else if c == '\\'' && s.Peek() == '\\'' {\n					s.Next()\n				}",
  "two apostrophes after a placeholder are consumed")
M("C09-rescan-argument", ["C09"], "pkg/gengo/snippet/printer__template.go",
  "							for code := range v.Frag(ctx) {\n								if !yield(code) {\n									return\n								}\n							}",
  "							for code := range v.Frag(ctx) {\n								if !yield(strings.ReplaceAll(code, \"@@\", \"@\")) {\n									return\n								}\n							}",
  "substituted text is post-processed (@@ collapsed)")
M("C09-swap-verbs", ["C09"], "pkg/gengo/snippet/printer.go",
  "						for c := range ID(x).Frag(ctx) {", "						for c := range Value(x).Frag(ctx) {", "%T of a plain value renders the value literal")
M("C09-percent-undo", ["C09"], "pkg/gengo/snippet/printer.go",
  "				case '%':\n					if !yield(string(c)) {\n						return\n					}\n",
  "				case '%':\n					if !yield(string(c)) {\n						return\n					}\n					continue\n",
  "reverts the %% fix")
M("C09-comment-drops-empty-lines", ["C09"], "pkg/gengo/snippet/snippet__comment.go",
  '				if !yield("// " + l) {', '				if l == "" {\n					continue\n				}\n				if !yield("// " + l) {', "empty comment lines are dropped")
M("C09-directive-empty-args", ["C09"], "pkg/gengo/snippet/snippet__go_directive.go",
  "				if len(arg) > 0 {", "				if len(arg) >= 0 {", "empty directive arguments are printed as blanks")
M("C09-snippets-stop-at-nil", ["C09"], "pkg/gengo/snippet/snippet.go",
  "			if c.IsNil() {\n				continue\n			}\n", "			if c.IsNil() {\n				break\n			}\n", "Snippets stops at the first nil part instead of skipping it")

# ---------------------------------------------------------------- C15
M("C15-split-every-comma", ["C15"], "pkg/types/ref.go", "					if depth == 0 {", "					if depth >= 0 {", "argument lists are split at every comma")
M("C15-first-dot", ["C15"], "pkg/types/ref.go",
  '	if i := strings.LastIndex(s, "."); i > 0 {\n		return &TypeRef{', '	if i := strings.Index(s, "."); i > 0 {\n		return &TypeRef{', "path/name split at the first dot")
M("C15-print-comma-space", ["C15"], "pkg/types/ref.go", "				b.WriteByte(',')", "				b.WriteString(\", \")", "printer separates arguments with ', '")
M("C15-own-package-kept", ["C15", "C03"], "pkg/namer/namer.go",
  '		if x.PkgPath == n.pkgPath {\n			x.PkgPath = ""\n		} else {', '		if x.PkgPath == n.pkgPath && len(x.TypeList) == 0 {\n			x.PkgPath = ""\n		} else {',
  "own-package generic arguments that have arguments themselves keep their package path")
M("C15-imports-depth1", ["C15", "C03"], "pkg/namer/namer.go",
  "			n.tracker.AddType(gengotypes.Ref(x.PkgPath, x.Name))\n			x.PkgPath = n.tracker.LocalNameOf(x.PkgPath)",
  "			if len(x.TypeList) == 0 {\n				n.tracker.AddType(gengotypes.Ref(x.PkgPath, x.Name))\n			}\n			x.PkgPath = n.tracker.LocalNameOf(x.PkgPath)",
  "packages of nested generic arguments that have arguments are not registered")
M("C15-parseref-lastindex-full", ["C15"], "pkg/types/ref.go",
  '	if i := strings.LastIndex(base, "."); i > 0 {\n		return Ref(ref[0:i], ref[i+1:]), nil', '	if i := strings.LastIndex(ref, "."); i > 0 {\n		return Ref(ref[0:i], ref[i+1:]), nil',
  "ParseRef looks for the last dot of the whole reference, bracket part included")
M("C15-helper-bracket", ["C15"], "pkg/gengo/helper.go",
  '	if i := strings.Index(s, "["); i > 0 {\n		s = s[0:i]\n	}', '	if i := strings.LastIndex(s, "["); i > 0 {\n		s = s[0:i]\n	}', "PkgImportPathAndExpose cuts at the last bracket")

# ---------------------------------------------------------------- C20
M("C20-plain-map", ["C20"], "pkg/inflector/internal/rule.go",
  "	inflected, _ := r.cache.LoadOrStore(s, sync.OnceValue(func() string {\n		return r.inflected(s)\n	}))\n	return inflected.(func() string)()",
  "	if r.plain == nil {\n		r.plain = map[string]string{}\n	}\n	if v, ok := r.plain[s]; ok {\n		return v\n	}\n	v := r.inflected(s)\n	r.plain[s] = v\n	return v",
  "memo cache becomes an unsynchronised map")
MUTANTS[-1]["edits"] = [dict(file="pkg/inflector/internal/rule.go", old=MUTANTS[-1]["old"], new=MUTANTS[-1]["new"]),
                        dict(file="pkg/inflector/internal/rule.go", old="	cache sync.Map\n", new="	cache sync.Map\n	plain map[string]string\n")]
M("C20-cache-lowercased", ["C20"], "pkg/inflector/internal/rule.go",
  "r.cache.LoadOrStore(s, sync.OnceValue", "r.cache.LoadOrStore(strings.ToLower(s), sync.OnceValue", "cache keyed by the lower-cased input")
M("C20-drop-boundary", ["C20"], "pkg/inflector/internal/rule.go", '`(?i)(.*)\\b((?:%s))$`', '`(?i)(.*)((?:%s))$`', "control: irregular words also match inside longer words; the statement only speaks about words preceded by a boundary, which still behave the same")
M("C20-undo-prefix-fix", ["C20"], "pkg/inflector/internal/rule.go", "			buf.WriteString(word[0:1])", "			buf.WriteString(s[0:1])", "reverts: first byte of the whole input reused")
M("C20-undo-guard", ["C20"], "pkg/inflector/internal/rule.go",
  "		if replacement, ok := r.irregularMap[strings.ToLower(word)]; ok {", "		if replacement := r.irregularMap[strings.ToLower(word)]; true {", "reverts the guarded lookup (panic on fold aliases)")
M("C20-once-per-rule", ["C20"], "pkg/inflector/internal/rule.go",
  "	if r.compiledUninflected.MatchString(s) {\n		return s\n	}", "	if r.compiledUninflected.MatchString(s) {\n		return strings.Clone(s)\n	}", "control: semantically neutral")

# ---------------------------------------------------------------- C03
M("C03-localname-recompute", ["C03", "C15"], "pkg/namer/import_tracker.go",
  "	return tracker.pathToName[path]\n}", '	parts := strings.Split(path, "/")\n	return golangTrackerLocalName(parts, 1)\n}', "LocalNameOf recomputes the first candidate instead of looking the binding up")
M("C03-no-uniqueness", ["C03"], "pkg/namer/import_tracker.go",
  "	if _, ok := tracker.nameToPath[localName]; ok {\n		return false\n	}", "	if p, ok := tracker.nameToPath[localName]; ok && len(p) < 12 {\n		return false\n	}",
  "a name already bound to a long path is bound again")
M("C03-keyword-unprefixed", ["C03"], "pkg/namer/import_tracker.go",
  '	if !token.IsIdentifier(name) {\n		return "_" + name\n	}', '	if !token.IsIdentifier(name) && !token.IsKeyword(name) {\n		return "_" + name\n	}', "keywords are used as import names again")
M("C03-generic-args-not-added", ["C03"], "pkg/namer/namer.go",
  "			n.tracker.AddType(gengotypes.Ref(x.PkgPath, x.Name))\n", "", "packages of generic arguments are not registered as imports")
M("C03-own-package-qualified", ["C03"], "pkg/namer/namer.go",
  "	if pkgPath == n.pkgPath {\n		if tn.Len() != 0 {", '	if pkgPath == n.pkgPath && !strings.HasSuffix(pkgPath, "/target") {\n		if tn.Len() != 0 {',
  "references to an own package whose path ends in /target are qualified and imported")
M("C03-unsorted-vN", ["C03"], "pkg/namer/import_tracker.go",
  "	slices.Reverse(parts)\n", "	if len(parts) < 3 {\n		slices.Reverse(parts)\n	}\n", "control: candidate spelling changes, names stay unique and valid")

# ---------------------------------------------------------------- C06
M("C06-prefix-without-colon", ["C06"], "pkg/gengo/context.go", '		if strings.HasPrefix(k, prefix+":") {', "		if strings.HasPrefix(k, prefix) {", "gengo:deepcopy enables generator deep")
M("C06-reverse-merge", ["C06"], "pkg/gengo/context.go", "	return merge(c.args.Globals, c.pkgTags, tags), doc", "	return merge(tags, c.pkgTags, c.args.Globals), doc", "globals override declaration tags")
M("C06-false-subtag-disables", ["C06"], "pkg/gengo/context.go",
  '		if strings.HasPrefix(k, prefix+":") {\n			enabled = true\n		}', '		if strings.HasPrefix(k, prefix+":") && strings.Join(values, "") != "false" {\n			enabled = true\n		}', "a :sub=false tag no longer enables")
M("C06-alias-to-generatetype", ["C06"], "pkg/gengo/context.go",
  "				if a, ok := g.(AliasGenerator); ok {\n					if err := c.doGenerateAliasType(ctx, a, x); err != nil {\n						return err\n					}\n				}",
  "				if a, ok := g.(AliasGenerator); ok {\n					if err := c.doGenerateAliasType(ctx, a, x); err != nil {\n						return err\n					}\n				} else if n, ok := types.Unalias(x).(*types.Named); ok {\n					if err := c.doGenerateNamedType(ctx, g, n); err != nil {\n						return err\n					}\n				}",
  "aliases of named types reach GenerateType when the generator has no alias entry point")
M("C06-defers-twice", ["C06"], "pkg/gengo/context.go",
  "		if !pkgCtxForGen.IsZero() {\n			gfs.Store(g.Name(), pkgCtxForGen.genfile)\n		}",
  "		if len(pkgCtxForGen.defers) > 2 {\n			_ = pkgCtxForGen.defers[0](pkgCtxForGen)\n		}\n		if !pkgCtxForGen.IsZero() {\n			gfs.Store(g.Name(), pkgCtxForGen.genfile)\n		}",
  "with more than two registered callbacks the first runs twice")
M("C06-undo-nested-defer", ["C06", "C02"], "pkg/gengo/context.go",
  "		for i := 0; i < len(pkgCtxForGen.defers); i++ {\n			if err := pkgCtxForGen.defers[i](pkgCtxForGen); err != nil {", "		for _, fn := range pkgCtxForGen.defers {\n			if err := fn(pkgCtxForGen); err != nil {",
  "reverts: callbacks registered by a running callback are dropped")
M("C06-undo-scope-filter", ["C06", "C04", "C13"], "pkg/types/package.go",
  "			if x.Parent() == pkg.Types.Scope() {\n				p.types[x.Name()] = x\n			}", "			p.types[x.Name()] = x", "reverts the package-scope filter for types")
M("C06-exact-key-ignored-when-sub", ["C06"], "pkg/gengo/context.go",
  "		if k == prefix {\n			enabled = strings.Join(values, \"\") != \"false\"\n			return enabled\n		}",
  "		if k == prefix {\n			enabled = strings.Join(values, \"\") != \"false\"\n			if !enabled && len(tags) > 3 {\n				continue\n			}\n			return enabled\n		}",
  "gengo:x=false does not decide when the tag set is large and a :sub key is present")
M("C06-defer-after-write", ["C06"], "pkg/gengo/context.go",
  "		for i := 0; i < len(pkgCtxForGen.defers); i++ {\n",
  "		for i := 0; i < len(pkgCtxForGen.defers); i++ {\n			if i == 3 {\n				_ = pkgCtxForGen.genfile.WriteToFile(pkgCtx, c.args)\n			}\n",
  "the file is written before the fourth deferred callback runs")

# ---------------------------------------------------------------- C07
M("C07-prefix-without-dot", ["C07"], "pkg/gengo/context.go", '		if strings.HasPrefix(filename, c.args.OutputFileBaseName+".") {', "		if strings.HasPrefix(filename, c.args.OutputFileBaseName) {", "look-alike files are treated as own output")
M("C07-skip-removal", ["C07"], "pkg/gengo/context.go", "	if len(generatedFiles) > 0 {", "	if len(generatedFiles) > 1 {", "a single stale output is not removed")
M("C07-clear-ignore", ["C07"], "pkg/gengo/context.go", "			c.ignore = true\n", "			c.ignore = len(c.defers) > 0\n", "ErrIgnore is forgotten unless a callback is registered")
M("C07-non-direct-without-all", ["C07", "C08"], "pkg/gengo/context.go", "		if !c.args.All && !direct {\n			continue\n		}", "		if !c.args.All && !direct && len(generators) < 2 {\n			continue\n		}", "with two or more generators imported packages are processed without All")
M("C07-sum-without-all", ["C07", "C08"], "pkg/gengo/context.go", "	if c.args.All {\n		sumFile := c.universe.SumFile()", "	if c.args.All || len(generators) > 2 {\n		sumFile := c.universe.SumFile()", "gengo.sum is written without All when three generators run")
M("C07-wrapped-ignore", ["C07", "C02"], "pkg/gengo/context.go",
  "		if errors.Is(err, ErrIgnore) {\n			l.Warn(err)\n			// mark ignore", "		if err == ErrIgnore {\n			l.Warn(err)\n			// mark ignore", "a wrapped ErrIgnore is a failure")

# ---------------------------------------------------------------- C08
M("C08-invert", ["C08"], "pkg/gengo/context.go", '	return sum == "" || previous.Sum(pkgPath) != sum', '	return sum == "" || previous.Sum(pkgPath) == sum', "comparison inverted")
M("C08-ignore-force", ["C08"], "pkg/gengo/context.go", "	if c.args.Force {\n		return true\n	}", "	if c.args.Force && c.sumFile == nil {\n		return true\n	}", "Force only works without a sum file")
M("C08-save-first", ["C08", "C02"], "pkg/gengo/context.go",
  "	for pkgPath, direct := range c.universe.LocalPkgPaths() {\n		if !c.args.All && !direct {",
  "	if c.args.All && c.sumFile != nil {\n		early := c.universe.SumFile()\n		early.Dir = c.sumFile.Dir\n		_ = early.Save()\n	}\n\n	for pkgPath, direct := range c.universe.LocalPkgPaths() {\n		if !c.args.All && !direct {",
  "gengo.sum is saved before the packages are generated")
M("C08-keep-unloaded", ["C08"], "pkg/gengo/context.go",
  "		if sumDir != \"\" {\n			sumFile.Dir = sumDir\n		}",
  "		if sumDir != \"\" {\n			sumFile.Dir = sumDir\n		}\n		if c.sumFile != nil {\n			for k, v := range c.sumFile.Data {\n				if _, ok := sumFile.Data[k]; !ok {\n					sumFile.Data[k] = v\n				}\n			}\n		}",
  "entries of packages that were not loaded are kept")
M("C08-hash-go-only", ["C08"], "pkg/types/load.go", '		return name == "gengo.sum"', '		return name == "gengo.sum" || !strings.HasSuffix(name, ".go")', "only .go files are hashed")
MUTANTS[-1]["edits"] = [dict(file="pkg/types/load.go", old=MUTANTS[-1]["old"], new=MUTANTS[-1]["new"]),
                        dict(file="pkg/types/load.go", old='	"slices"\n', new='	"slices"\n	"strings"\n')]
M("C08-undo-unhashable", ["C08"], "pkg/gengo/context.go", '	return sum == "" || previous.Sum(pkgPath) != sum', "	return previous.Sum(pkgPath) != sum", "reverts: unhashable directory counts as cached")
M("C08-undo-sum-exclusion", ["C08", "C04"], "pkg/types/load.go", '		return name == "gengo.sum"', '		return name == "gengo.sum.bak"', "reverts: gengo.sum is part of the root package's hash")
M("C08-load-three-fields", ["C08"], "pkg/sumfile/file.go", "		if len(parts) >= 2 {", "		if len(parts) == 2 {", "lines with extra columns are ignored")
M("C08-unsorted-save", ["C08", "C04"], "pkg/sumfile/file.go", "	for _, pkgPath := range slices.Sorted(maps.Keys(f.Data)) {", "	for _, pkgPath := range slices.Collect(maps.Keys(f.Data)) {", "gengo.sum lines in map order")
M("C08-nested-skip", ["C08"], "pkg/types/load.go",
  "	files = slices.DeleteFunc(files, func(name string) bool {\n		return name == \"gengo.sum\"\n	})",
  "	files = slices.DeleteFunc(files, func(name string) bool {\n		return name == \"gengo.sum\" || filepath.Dir(filepath.Dir(name)) != \".\"\n	})",
  "files two or more directories below the package are not hashed")

# ---------------------------------------------------------------- C01
M("C01-drop-gofumpt", ["C01"], "pkg/gengo/genfile.go", "	gformat.File(fset, file, opts)\n", "	_ = opts\n", "first pass without gofumpt (later passes still run) - control")
M("C01-no-fixed-point", ["C01"], "pkg/gengo/genfile.go", "	for range 4 {", "	for range 0 {", "reverts the fixed-point loop")
M("C01-wrong-generator-name", ["C01"], "pkg/gengo/genfile.go", "`, pkgName, ff.name, pkgName)", "`, pkgName, strings.TrimSuffix(ff.name, \"copy\"), pkgName)", "header names 'deep' for generator 'deepcopy'")
M("C01-dir-name-as-package", ["C01"], "pkg/gengo/genfile.go", '	pkgName := c.Package("").Pkg().Name()', '	pkgName := path.Base(c.Package("").Pkg().Path())', "package clause uses the directory name")
M("C01-langversion", ["C01"], "pkg/gengo/genfile.go", '		LangVersion: "go" + m.GoVersion,', '		LangVersion: "go1.12",', "gofumpt always formats for go1.12 (no 0o rewrite) - visible only with legacy octal, control")
M("C01-drop-body-tail", ["C01"], "pkg/gengo/genfile.go",
  "	if _, err := io.Copy(src, ff.body); err != nil {\n		return err\n	}",
  "	if ff.body.Len() > 4096 {\n		ff.body.Truncate(bytes.LastIndex(ff.body.Bytes()[:4096], []byte(\"\\nfunc \")) + 1)\n	}\n	if _, err := io.Copy(src, ff.body); err != nil {\n		return err\n	}",
  "bodies over 4 KiB are cut at the last func before 4 KiB")
M("C01-modulepath", ["C01"], "pkg/gengo/genfile.go", "		ModulePath:  m.Path,", '		ModulePath:  "",', "gofumpt is not told the module path (import grouping differs)")
M("C01-no-sortimports", ["C01"], "pkg/gengo/genfile.go", "	ast.SortImports(fset, file)\n", "	_ = ast.SortImports\n", "control: imports are rendered sorted anyway")

# ---------------------------------------------------------------- C02
M("C02-truncate-before-parse", ["C02"], "pkg/gengo/genfile.go",
  "	fset := token.NewFileSet()\n	file, err := parser.ParseFile(",
  "	if pf, perr := os.OpenFile(filename, os.O_RDWR|os.O_TRUNC, 0o666); perr == nil {\n		pf.Close()\n	}\n\n	fset := token.NewFileSet()\n	file, err := parser.ParseFile(",
  "the destination is truncated before the rendering is parsed")
M("C02-sum-in-defer", ["C02", "C08"], "pkg/gengo/context.go",
  "func (c *gengoCtx) Execute(ctx corecontext.Context, generators ...Generator) error {\n",
  "func (c *gengoCtx) Execute(ctx corecontext.Context, generators ...Generator) error {\n	if c.args.All {\n		defer func() {\n			sf := c.universe.SumFile()\n			if c.sumFile != nil {\n				sf.Dir = c.sumFile.Dir\n			}\n			_ = sf.Save()\n		}()\n	}\n",
  "gengo.sum is saved in a defer, also when a generator fails")
M("C02-swallow-errors", ["C02"], "pkg/gengo/context.go",
  "		if errors.Is(err, ErrIgnore) {\n			l.Warn(err)\n			// mark ignore to avoid remove previous generated\n			c.ignore = true\n			return nil\n		}\n		return err",
  "		if errors.Is(err, ErrIgnore) {\n			l.Warn(err)\n			// mark ignore to avoid remove previous generated\n			c.ignore = true\n			return nil\n		}\n		if errors.Unwrap(err) != nil {\n			return nil\n		}\n		return err",
  "wrapped generator errors are swallowed")
M("C02-no-names-in-message", ["C02"], "pkg/gengo/context.go",
  '			return fmt.Errorf("`%s` generate failed for %s: %w", g.Name(), pkgCtx.pkg.Pkg().Path(), err)', "			return err", "the error no longer names generator and package")
M("C02-defer-error-ignored", ["C02"], "pkg/gengo/context.go",
  '				return fmt.Errorf("`%s` defer generate failed for %s: %w", g.Name(), pkgCtx.pkg.Pkg().Path(), err)', "				continue", "errors of deferred callbacks are ignored")
M("C02-stale-removed-first", ["C02"], "pkg/gengo/context.go",
  "	gfs := sync.Map{}\n",
  "	gfs := sync.Map{}\n\n	for _, fullFilename := range generatedFiles {\n		_ = os.RemoveAll(fullFilename)\n	}\n",
  "previous outputs are removed before generating")
M("C02-alias-error-ignored", ["C02"], "pkg/gengo/context.go",
  "		if errors.Is(err, ErrIgnore) {\n			l.Warn(err)\n			return nil\n		}\n		return err", "		if errors.Is(err, ErrIgnore) {\n			l.Warn(err)\n			return nil\n		}\n		return nil", "errors of GenerateAliasType are ignored")

# ---------------------------------------------------------------- C04
M("C04-unsorted-types", ["C04"], "pkg/gengo/context.go", "	sort.Strings(names)\n\n	for _, n := range names {\n		tpe := pkgTypes[n].Type()", "	_ = sort.Strings\n\n	for _, n := range names {\n		tpe := pkgTypes[n].Type()", "types are visited in map order")
M("C04-unsorted-localpkgs", ["C04", "C08"], "pkg/types/load.go",
  "		for _, pkgPath := range slices.Sorted(maps.Keys(v.localPkgPaths)) {\n			if !yield(pkgPath, v.localPkgPaths[pkgPath]) {",
  "		for _, pkgPath := range slices.Collect(maps.Keys(v.localPkgPaths)) {\n			if !yield(pkgPath, v.localPkgPaths[pkgPath]) {", "packages are visited in map order")
M("C04-unsorted-map-literal", ["C04", "C10"], "pkg/gengo/internal/dumper.go", "		sort.Strings(keyLits)\n", "		_ = sort.Strings\n", "map literal keys in map order")
M("C04-gfs-order", ["C04"], "pkg/gengo/context.go",
  "		delete(generatedFiles, gfile.Filename(c.args))", "		delete(generatedFiles, gfile.Filename(c.args))\n		if len(generatedFiles) > 0 {\n			break\n		}",
  "after the first written file, remaining generators' files are skipped while stale files exist (order = sync.Map range order)")
M("C04-entry-order-dependence", ["C04"], "pkg/types/load.go",
  "					if mod := pkg.Module(); mod != nil {\n						if u.sumFile.Dir == \"\" {\n							u.sumFile.Dir = mod.Dir\n						}\n					}",
  "					if mod := pkg.Module(); mod != nil {\n						if u.sumFile.Dir == \"\" {\n							u.sumFile.Dir = pkgDir\n						}\n					}",
  "control since fix a296586: Execute now sets the directory itself (module of the first direct package), the universe's value is only a fallback - equivalent")

# ---------------------------------------------------------------- C05
M("C05-prototype-reused", ["C05"], "pkg/gengo/context.go",
  "	return reflect.New(reflectx.Indirect(reflect.ValueOf(generator)).Type()).Interface().(Generator)", "	_, _ = reflect.New, reflectx.Indirect\n	return generator", "generators without New are shared across packages")
M("C05-shared-tracker", ["C05"], "pkg/gengo/genfile.go",
  "		imports: namer.NewDefaultImportTracker(),", "		imports: sharedTracker,", "one import tracker for the whole process")
MUTANTS[-1]["edits"] = [dict(file="pkg/gengo/genfile.go", old=MUTANTS[-1]["old"], new=MUTANTS[-1]["new"]),
                        dict(file="pkg/gengo/genfile.go", old="func newGenfile(name string) *genfile {", new="var sharedTracker = namer.NewDefaultImportTracker()\n\nfunc newGenfile(name string) *genfile {")]
M("C05-shared-pkgtags", ["C05", "C06"], "pkg/gengo/context.go",
  "		pkgTags:  map[string][]string{},\n	}\n\n	for _, f := range p.Files() {", "		pkgTags:  sharedPkgTags,\n	}\n\n	for _, f := range p.Files() {", "package tags accumulate across packages")
MUTANTS[-1]["edits"] = [dict(file="pkg/gengo/context.go", old=MUTANTS[-1]["old"], new=MUTANTS[-1]["new"]),
                        dict(file="pkg/gengo/context.go", old="type Tags map[string][]string", new="type Tags map[string][]string\n\nvar sharedPkgTags = map[string][]string{}")]
M("C05-newer-once", ["C05"], "pkg/gengo/context.go",
  "	if creator, ok := generator.(GeneratorNewer); ok {\n		return creator.New(c)\n	}",
  "	if creator, ok := generator.(GeneratorNewer); ok {\n		if g, ok := newerCache[generator.Name()]; ok {\n			return g\n		}\n		g := creator.New(c)\n		newerCache[generator.Name()] = g\n		return g\n	}",
  "the instance made by a custom New is cached per generator name")
MUTANTS[-1]["edits"] = [dict(file="pkg/gengo/context.go", old=MUTANTS[-1]["old"], new=MUTANTS[-1]["new"]),
                        dict(file="pkg/gengo/context.go", old="type Tags map[string][]string", new="type Tags map[string][]string\n\nvar newerCache = map[string]Generator{}")]

# ---------------------------------------------------------------- C12
M("C12-index-by-start-line", ["C12"], "pkg/types/package.go", "			fl = fileLineFor(c.End(), 0)", "			fl = fileLineFor(c.Pos(), 0)", "comment groups indexed by their first line")
M("C12-same-line-doc", ["C12"], "pkg/types/package.go", "	return ExtractCommentTags(commentLinesFrom(p.priorCommentLines(pos, -1)))", "	return ExtractCommentTags(commentLinesFrom(p.priorCommentLines(pos, -2)))", "doc looked up two lines above")
M("C12-comment-returns-doc", ["C12"], "pkg/types/package.go",
  "		if lines, ok := p.endLineToTrailingCommentGroup[key]; ok {\n			return lines\n		}", "		if lines, ok := p.endLineToTrailingCommentGroup[key]; ok && len(lines.List) > 1 {\n			return lines\n		}",
  "single-line trailing comments fall through to the leading index")
M("C12-split-last-equals", ["C12"], "pkg/types/comments.go",
  "		if !forValue && (c == '=' || c == ' ') {\n			forValue = true\n			continue\n		}",
  "		if c == '=' && forValue && !strings.Contains(v.String(), \" \") {\n			k.WriteByte('=')\n			k.Write(v.Bytes())\n			v.Reset()\n			continue\n		}\n		if !forValue && (c == '=' || c == ' ') {\n			forValue = true\n			continue\n		}",
  "key extends to the last '=' of a blank-free value")
M("C12-drop-repeated-keys", ["C12"], "pkg/types/comments.go", "		tags[k] = append(tags[k], v)", "		tags[k] = []string{v}", "repeated keys keep the last value only")
M("C12-hash-marker", ["C12"], "pkg/types/comments.go", "		markers = []byte{'+', '@'}", "		markers = []byte{'+', '@', '#'}", "'#' is a default marker")
M("C12-trim-tabs", ["C12"], "pkg/types/comments.go", '		line = strings.Trim(line, " ")', '		line = strings.TrimSpace(line)', "tabs are trimmed before the marker test")
M("C12-undo-trailing-fix", ["C12", "C16"], "pkg/types/package.go", "		} else if trailingCommentGroups[c] {\n			return\n		}", "		}", "reverts the trailing-comment fix")
M("C12-field-doc-first-name-only", ["C12"], "pkg/types/package.go",
  "			case *ast.Field:\n				collectCommentGroup(x.Doc, false, x.Pos())", "			case *ast.Field:\n				if len(x.Names) < 2 {\n					collectCommentGroup(x.Doc, false, x.Pos())\n				}",
  "control: field docs are also indexed through the generic comment-group case")

# ---------------------------------------------------------------- C13
M("C13-methods-by-name", ["C13"], "pkg/types/package.go",
  "					named = named.Origin()\n\n					p.methods[named] = append(p.methods[named], x)",
  "					named = named.Origin()\n					if o := pkg.Types.Scope().Lookup(named.Obj().Name()); o != nil {\n						if n, ok := o.Type().(*types.Named); ok {\n							named = n\n						}\n					}\n\n					p.methods[named] = append(p.methods[named], x)",
  "EQUIVALENT (control): methods cannot be declared on function-local types, so keying by name changes nothing")
M("C13-sourcedir-no-subpath", ["C13"], "pkg/types/package.go",
  "		return filepath.Join(p.Module().Dir, p.Package.PkgPath[len(p.Module().Path):])", "		return filepath.Join(p.Module().Dir, filepath.Base(p.Package.PkgPath))", "SourceDir keeps only the last path element")
M("C13-locate-prefix", ["C13"], "pkg/types/load.go", "		if dir == p.SourceDir() {", "		if p.SourceDir() != \"\" && strings.HasPrefix(dir, p.SourceDir()) {", "LocateInPackage matches by directory prefix")
MUTANTS[-1]["edits"] = [dict(file="pkg/types/load.go", old=MUTANTS[-1]["old"], new=MUTANTS[-1]["new"]),
                        dict(file="pkg/types/load.go", old='	"slices"\n', new='	"slices"\n	"strings"\n')]
M("C13-nonptr-includes-ptr", ["C13"], "pkg/types/package.go",
  "		if _, ok := s.Recv().Type().(*types.Pointer); !ok {", "		if _, ok := s.Recv().Type().(*types.Pointer); !ok || s.Params().Len() > 0 {", "MethodsOf(T,false) also returns pointer methods that take parameters")
M("C13-const-scope", ["C13"], "pkg/types/package.go",
  "			if x.Parent() == pkg.Types.Scope() {\n				p.constants[x.Name()] = x\n			}", "			p.constants[x.Name()] = x", "reverts the scope filter for constants")
M("C13-undo-origin", ["C13"], "pkg/types/package.go", "					named = named.Origin()\n", "", "reverts: methods of generic types keyed by the instance")
M("C13-undo-imports", ["C13"], "pkg/types/load.go",
  "		// after the imported packages are registered, newPkg looks them up\n		pkg := newPkg(p, u)\n", "", "reverts: import table filled before registration")
MUTANTS[-1]["edits"] = [dict(file="pkg/types/load.go", old=MUTANTS[-1]["old"], new=MUTANTS[-1]["new"]),
                        dict(file="pkg/types/load.go", old="		for k := range p.Imports {\n			importedPkg := p.Imports[k]\n", new="		pkg := newPkg(p, u)\n\n		for k := range p.Imports {\n			importedPkg := p.Imports[k]\n")]
M("C13-funcs-methods-leak", ["C13"], "pkg/types/package.go",
  "				if named != nil {\n					// the receiver", "				if named == nil || len(x.Name()) > 9 {\n					p.funcs[x.Name()] = x\n				}\n				if named != nil {\n					// the receiver",
  "methods with long names also land in Functions()")

# ---------------------------------------------------------------- C14
M("C14-no-fallback", ["C14"], "pkg/types/function_result_resolver.go",
  "		if len(finalResults[at]) == 0 {\n			finalResults[at] = append(finalResults[at], Result{\n				Type: r.sig.Results().At(at).Type(),\n			})\n		}", "", "no fallback to the declared type: empty lists")
M("C14-funclit-returns", ["C14"], "pkg/types/function_result_resolver.go",
  "				case *ast.FuncLit:\n					// skip func lit\n					return false\n				case *ast.ReturnStmt:", "				case *ast.ReturnStmt:", "returns of nested closures are collected")
M("C14-named-off-by-one", ["C14"], "pkg/types/function_result_resolver.go",
  "			for _, name := range field.Names {\n				if retAt == at {", "			for _, name := range field.Names {\n				if retAt == at+len(field.Names)-1 {", "named results of a multi-name field are looked up off by one")
M("C14-every-index", ["C14"], "pkg/types/function_result_resolver.go",
  "		for retAt, expr := range rhs {\n			if retAt != at {\n				continue\n			}", "		for retAt, expr := range rhs {\n			if retAt != at && len(rhs) > 2 {\n				continue\n			}", "with one or two operands every operand is reported for every position")
M("C14-no-visited", ["C14"], "pkg/types/function_result_resolver.go",
  "	if ok := vs.visited(funcType, at); ok {", "	if ok := vs.visited(funcType, at); ok && at > 1 {", "the loop guard only works from the third result on")
M("C14-undo-closure-index", ["C14"], "pkg/types/function_result_resolver.go", "inlineFnRets.At(inlineRetAt).Type(); inlineRetType", "rets.At(inlineRetAt).Type(); inlineRetType", "reverts the closure index fix")
M("C14-wrong-count", ["C14"], "pkg/types/function_result_resolver.go",
  "	return r.Results(visits{}), r.Len()", "	res := r.Results(visits{})\n	if len(res) > 3 {\n		return res[:3], r.Len()\n	}\n	return res, r.Len()", "functions with more than three results lose lists")
M("C14-cache-nondeterministic", ["C14"], "pkg/types/function_result_resolver.go",
  "	return r.Results(visits{}), r.Len()", "	if _, seen := p.funcResults.LoadOrStore(s, true); seen && r.Len() > 1 {\n		return r.Results(visits{})[:1], r.Len()\n	}\n	return r.Results(visits{}), r.Len()",
  "the second call answers differently for multi-result functions")
M("C14-literal-order", ["C14"], "pkg/types/function_result_resolver.go",
  "		for tv := range r.resultsFromAstAt(vs, at, funcType, body) {\n			finalResults[at] = append(finalResults[at], tv)\n		}",
  "		for tv := range r.resultsFromAstAt(vs, at, funcType, body) {\n			if tv.Value != nil && len(finalResults[at]) > 0 {\n				finalResults[at] = append(Results{tv}, finalResults[at]...)\n				continue\n			}\n			finalResults[at] = append(finalResults[at], tv)\n		}",
  "constant alternatives are prepended: source order lost")

# ---------------------------------------------------------------- C10
M("C10-float-d", ["C10"], "pkg/gengo/internal/dumper.go", "		return strconv.FormatFloat(rv.Float(), 'g', -1, 64)", "		return strconv.FormatFloat(rv.Float(), 'g', 15, 64)", "float64 printed with 15 significant digits")
M("C10-backquote", ["C10"], "pkg/gengo/internal/dumper.go", "		return strconv.Quote(rv.String())", "		if strconv.CanBackquote(rv.String()) || true {\n			return \"`\" + rv.String() + \"`\"\n		}\n		return strconv.Quote(rv.String())", "strings are always backquoted")
M("C10-omit-nonempty", ["C10"], "pkg/gengo/internal/dumper.go",
  "			if ast.IsExported(ft.Name) && !reflectx.IsEmptyValue(f) {", "			if ast.IsExported(ft.Name) && !reflectx.IsEmptyValue(f) && !(f.Kind() == reflect.Bool && i > 3) {", "true booleans after the fourth field are omitted")
M("C10-rune-all-int32", ["C10"], "pkg/gengo/internal/dumper.go",
  "		if b, ok := rv.Interface().(rune); ok {\n			r := strconv.QuoteRune(b)\n			if len(r) == 3 {",
  "		if b, ok := rv.Interface().(rune); ok {\n			r := strconv.QuoteRune(b)\n			if len(r) >= 3 {", "every rune is quoted, invalid code points included")
M("C10-lose-array-len", ["C10", "C11"], "pkg/gengo/internal/dumper.go", '		return fmt.Sprintf("[%d]%s", tpe.Len(), d.TypeLit(tpe.Elem()))', '		return fmt.Sprintf("[...]%s", d.TypeLit(tpe.Elem()))', "array types are printed as [...]T")
M("C10-nil-slice-literal", ["C10"], "pkg/gengo/internal/dumper.go",
  "	case reflect.Slice, reflect.Array:\n		buf := bytes.NewBufferString(d.ReflectTypeLit(tpe))", "	case reflect.Slice, reflect.Array:\n		if rv.Kind() == reflect.Slice && rv.Len() == 1 && o.SubValue {\n			return \"nil\"\n		}\n		buf := bytes.NewBufferString(d.ReflectTypeLit(tpe))",
  "one-element slices in struct fields render as nil")
M("C10-undo-subvalue", ["C10"], "pkg/gengo/internal/dumper.go", "		optFns = append(optFns, SubValue(false))\n", "", "reverts: SubValue leaks into map entries")
M("C10-undo-ptr-type", ["C10"], "pkg/gengo/internal/dumper.go", "			elemType := d.ReflectTypeLit(tpe.Elem())\n", "			elemType := kind.String()\n", "reverts: closure typed by kind")
M("C10-uint8-as-char", ["C10"], "pkg/gengo/internal/dumper.go",
  "	case reflect.Uint, reflect.Uint16, reflect.Uint32, reflect.Uint64, reflect.Uint8, reflect.Uintptr:\n		return fmt.Sprintf(\"%d\", rv.Uint())",
  "	case reflect.Uint, reflect.Uint16, reflect.Uint32, reflect.Uint64, reflect.Uint8, reflect.Uintptr:\n		if rv.Uint() > 1<<63 {\n			return fmt.Sprintf(\"%d\", int64(rv.Uint()))\n		}\n		return fmt.Sprintf(\"%d\", rv.Uint())",
  "unsigned values above 2^63 are printed as negative numbers")

# ---------------------------------------------------------------- C11
M("C11-recv-chan", ["C11"], "pkg/gengo/internal/dumper.go", '		return "chan " + d.TypeLit(tpe.Elem())', '		return "<-chan " + d.TypeLit(tpe.Elem())', "channels rendered receive-only")
M("C11-drop-tags", ["C11"], "pkg/gengo/internal/dumper.go", '			if tag := f.Tag(); tag != "" {', '			if tag := f.Tag(); tag != "" && !strings.Contains(string(tag), " ") {', "struct tags with a blank are dropped")
MUTANTS[-1]["edits"] = [dict(file="pkg/gengo/internal/dumper.go", old=MUTANTS[-1]["old"], new=MUTANTS[-1]["new"]),
                        dict(file="pkg/gengo/internal/dumper.go", old='	"strconv"\n', new='	"strconv"\n	"strings"\n')]
M("C11-embedded-named", ["C11"], "pkg/gengo/internal/dumper.go", "			if !f.Anonymous() {", "			if !f.Anonymous() || tpe.NumField() > 2 {", "embedded fields of structs with more than two fields get a name")
M("C11-swap-map", ["C11"], "pkg/gengo/internal/dumper.go",
  '		return fmt.Sprintf("map[%s]%s", d.TypeLit(tpe.Key()), d.TypeLit(tpe.Elem()))', '		return fmt.Sprintf("map[%s]%s", d.TypeLit(tpe.Elem()), d.TypeLit(tpe.Key()))', "map key and element swapped")
M("C11-undo-error", ["C11", "C18"], "pkg/gengo/internal/dumper.go", '		if tpe.Name() == "error" {\n			return "error"\n		}\n', "", "reverts: error rendered as any")
M("C11-ptr-to-ptr", ["C11"], "pkg/gengo/internal/dumper.go", '		return "*" + d.TypeLit(tpe.Elem())', '		return "*" + strings.TrimPrefix(d.TypeLit(tpe.Elem()), "*")', "pointer to pointer collapses")
MUTANTS[-1]["edits"] = [dict(file="pkg/gengo/internal/dumper.go", old=MUTANTS[-1]["old"], new=MUTANTS[-1]["new"]),
                        dict(file="pkg/gengo/internal/dumper.go", old='	"strconv"\n', new='	"strconv"\n	"strings"\n')]
M("C11-qualify-own", ["C11", "C03"], "pkg/namer/namer.go",
  "	if pkgPath == n.pkgPath {\n		if tn.Len() != 0 {", "	if pkgPath == n.pkgPath && !strings.Contains(tn.String(), \"[\") {\n		if tn.Len() != 0 {", "own-package generic instantiations are qualified")

# ---------------------------------------------------------------- C16
M("C16-doc-through-T", ["C16"], "devpkg/runtimedocgen/runtimedoc.go", '						"fieldDoc":  snippet.Value(fieldDoc),', '						"fieldDoc":  snippet.T(internalValue(fieldDoc)),', "field docs are rendered through the template engine (placeholders re-read)")
MUTANTS[-1]["edits"] = [dict(file="devpkg/runtimedocgen/runtimedoc.go", old=MUTANTS[-1]["old"], new=MUTANTS[-1]["new"]),
                        dict(file="devpkg/runtimedocgen/runtimedoc.go", old="func isCustomDefinedNamed(", new='func internalValue(doc []string) string {\n	s := "[]string{"\n	for _, l := range doc {\n		s += fmt.Sprintf("%q,", l)\n	}\n	return s + "}"\n}\n\nfunc isCustomDefinedNamed(')]
M("C16-skip-helper", ["C16"], "devpkg/runtimedocgen/runtimedoc.go", "	if g.helperWritten {\n		return\n	}\n	g.helperWritten = true", "	if g.helperWritten || len(g.processed) > 5 {\n		return\n	}\n	g.helperWritten = true", "the helper is not emitted for packages with more than five types")
M("C16-unknown-names-true", ["C16"], "devpkg/runtimedocgen/runtimedoc.go", "		@embeds\n		return nil, false", "		@embeds\n		return nil, len(names) > 1", "unknown name paths of length two are reported as found")
M("C16-ptr-embed-addr", ["C16"], "devpkg/runtimedocgen/runtimedoc.go", "if doc, ok := runtimeDoc(v.@fieldName, @prefix, names...); ok  {", "if doc, ok := runtimeDoc(&v.@fieldName, @prefix, names...); ok  {", "embedded pointers are passed by address: delegation fails")
M("C16-first-line-only", ["C16"], "devpkg/runtimedocgen/runtimedoc.go", "				for _, line := range finalDoc {\n					if !yield", "				for i, line := range finalDoc {\n					if i > 2 {\n						break\n					}\n					if !yield", "type docs are cut after three lines")
M("C16-tagline-kept", ["C16", "C12"], "pkg/types/comments.go", "		if !(len(line) != 0 && oneOf(markers, line[0])) {", "		if !(len(line) != 0 && oneOf(markers, line[0])) || strings.HasPrefix(line, \"@deprecated\") {", "@deprecated lines are kept as doc text")
M("C16-name-strip-greedy", ["C16"], "pkg/gengo/context.go", "		doc[0] = strings.TrimSpace(strings.TrimPrefix(doc[0], typ.Name()))", "		doc[0] = strings.TrimSpace(strings.TrimPrefix(strings.TrimPrefix(doc[0], typ.Name()), \"does\"))", "the word 'does' after the name is stripped as well")
M("C16-exported-check", ["C16"], "devpkg/runtimedocgen/runtimedoc.go", "					if !ast.IsExported(f.Name()) {\n						continue\n					}\n\n					if f.Embedded() {", "					if f.Embedded() {", "unexported fields are listed too")

# ---------------------------------------------------------------- C17
M("C17-slice-assign", ["C17"], "devpkg/deepcopygen/helper/copy_fields.go", "	*o = make(@SliceType, len(*i))\n	copy(*o, *i)", "	*o = (*i)[:len(*i):len(*i)]", "slices are re-sliced, not copied")
M("C17-map-no-make", ["C17"], "devpkg/deepcopygen/helper/copy_fields.go", "	*o = make(@MapType, len(*i))\n	for key, val := range *i {\n		(*o)[key] = val\n	}", "	*o = *i", "maps are assigned")
M("C17-skip-localdep", ["C17"], "devpkg/deepcopygen/deepcopy.go", "					defers = append(defers, named)", "					if len(defers) < 1 {\n						defers = append(defers, named)\n					}", "only the first local dependency is generated")
M("C17-return-in", ["C17"], "devpkg/deepcopygen/deepcopy.go", "	out := new(@Type)\n	in.DeepCopyInto(out)\n	return out\n}\n\nfunc(in *@Type) DeepCopyInto(out *@Type) {\n	@fieldsCopies", "	out := in\n	in.DeepCopyInto(out)\n	return out\n}\n\nfunc(in *@Type) DeepCopyInto(out *@Type) {\n	@fieldsCopies", "DeepCopy of a struct returns the receiver")
M("C17-no-nil-test", ["C17"], "devpkg/deepcopygen/deepcopy.go", "func(in @Type) DeepCopy() @Type {\n	if in == nil {\n		return nil\n	}", "func(in @Type) DeepCopy() @Type {", "DeepCopy of a nil map returns an empty map")
M("C17-named-map-shared", ["C17"], "devpkg/deepcopygen/deepcopy.go", "	out := make(@Type)\n	in.DeepCopyInto(out)\n	return out", "	out := in\n	return out", "DeepCopy of a defined map returns the same map")
M("C17-undo-origin", ["C17"], "devpkg/deepcopygen/deepcopy.go", "	named = named.Origin()\n", "", "reverts: generic methods emitted per instantiation")
M("C17-undo-map-recv", ["C17"], "devpkg/deepcopygen/helper/copy_fields.go", "				fc.PtrResultOrParam = false\n			}\n		}", "				fc.PtrResultOrParam = true\n			}\n		}", "reverts: same-package map fields use pointer calling convention")
M("C17-embedded-skipped", ["C17"], "devpkg/deepcopygen/helper/copy_fields.go", "			if sfc.Skip != nil && sfc.Skip(f) {\n				continue\n			}", "			if sfc.Skip != nil && sfc.Skip(f) || (f.Embedded() && i > 1) {\n				continue\n			}", "embedded fields after the second position are not copied")
M("C17-second-run-differs", ["C17"], "devpkg/deepcopygen/helper/copy_fields.go", "			if sfc.OnLocalDep != nil {", "			if sfc.OnLocalDep != nil && x.NumMethods() == 0 {", "a dependency that already has methods (second run: the generated ones) is assumed to be generated elsewhere")

# ---------------------------------------------------------------- C18
M("C18-ignore-omit", ["C18"], "devpkg/partialstruct/partialstruct.go", "					if _, ok := ps.Omit[fieldName]; ok {\n						continue\n					}", "					if _, ok := ps.Omit[fieldName]; ok && i > 0 {\n						continue\n					}", "the first field cannot be omitted")
M("C18-drop-tags", ["C18"], "devpkg/partialstruct/partialstruct.go", "					tag := x.Tag(i)\n", "					tag := x.Tag(i)\n					if strings.Contains(tag, \"omitempty\") {\n						tag = \"\"\n					}\n", "tags with omitempty are dropped")
M("C18-copy-omitted", ["C18"], "devpkg/partialstruct/partialstruct.go", "				return ps.Omit[f.Name()]", "				return ps.Omit[f.Name()] && len(ps.Omit) < 2", "with two or more omitted fields DeepCopyIntoAs copies them (does not compile)")
M("C18-sorted-fields", ["C18"], "devpkg/partialstruct/partialstruct.go", "				for i := 0; i < x.NumFields(); i++ {\n					f := x.Field(i)\n					tag := x.Tag(i)", "				for j := 0; j < x.NumFields(); j++ {\n					i := j\n					if x.NumFields() > 4 {\n						i = x.NumFields() - 1 - j\n					}\n					f := x.Field(i)\n					tag := x.Tag(i)", "structs with more than four fields are emitted in reverse order")
M("C18-undo-tag", ["C18"], "devpkg/partialstruct/partialstruct.go", '						"fieldTag":  snippet.Block(tag),\n					})\n\n					for code := range snippet.Fragments(ctx, s) {\n						if !yield(code) {\n							return\n						}\n					}\n				}', '						"fieldTag":  snippet.ID(tag),\n					})\n\n					for code := range snippet.Fragments(ctx, s) {\n						if !yield(code) {\n							return\n						}\n					}\n				}', "reverts: tags through snippet.ID")
M("C18-undo-grouped", ["C18"], "devpkg/partialstruct/partialstruct.go", "				if x.Name.Name != named.Obj().Name() {\n					continue\n				}\n", "", "reverts: origin from the last spec")
M("C18-nonstruct-accepted", ["C18"], "devpkg/partialstruct/partialstruct.go", '		return fmt.Errorf("must be struct type, but got %s", underlying)', "		return nil", "a non-struct declaration is silently accepted")
M("C18-no-origin-accepted", ["C18"], "devpkg/partialstruct/partialstruct.go", '		return fmt.Errorf("need to define type like `type xxx sourcepkg.Type`")', "		ps.Origin = named.Obj()", "a struct literal declaration generates code against itself")
M("C18-nil-copy", ["C18"], "devpkg/partialstruct/partialstruct.go", "	if in == nil {\n		return nil\n	}\n	out := new(@OriginType)", "	out := new(@OriginType)\n	if in == nil {\n		return out\n	}", "DeepCopyAs of nil returns an empty origin value")
M("C18-replace-tag-lost", ["C18"], "devpkg/partialstruct/partialstruct.go", '							tag = strings.Join(replaceTo[1:], " ")', '							tag = strings.Join(replaceTo[2:], " ")', "the first word of a replacement tag is lost")

# ---------------------------------------------------------------- round 8
M("C11-undo-unescape", ["C11", "C10"], "pkg/gengo/internal/dumper.go",
  "		return d.Name(gengotypes.Ref(tpe.PkgPath(), unescapeTypeArgs(tpe.Name())))", "		return d.Name(gengotypes.Ref(tpe.PkgPath(), tpe.Name()))",
  "reverts: reflect's %xx escapes in argument package paths are kept")
