#!/usr/bin/env python3
"""Creates scratch worktrees /tmp/seed9/<ID> and prompt files for a further round of independently seeded changes (each sub-agent gets the property text, its worktree and the list of triggers earlier rounds already used)."""
import json,glob,os,subprocess
props={json.loads(l)['id']:json.loads(l) for l in open('/verif/properties.jsonl')}
covered={}
for mf in sorted(glob.glob('/verif/seeded/*/meta.json')):
    m=json.load(open(mf))
    covered.setdefault(m['property'],[]).append(m['needs'])
T='''You are helping to evaluate a verification framework by seeding realistic defects into a Go library (octohelm/gengo, a Go code-generation framework). You work ONLY inside your own scratch git worktree: {wt} (a checkout of the library). Do not read or touch /verif or /repo, and do not look for any existing verification machinery — your work must be independent of it.

The property the library is supposed to satisfy:

Property {id}: {title}

Statement: {statement}

Quantifier: {quant}

Relevant files: {files}


YOUR TASK: produce TWO different small source changes (call them A and B) to the library, each of which BREAKS this property, while
  1. the library still compiles (`go build ./...`),
  2. the existing test suite still passes completely and reliably (`go test ./... -count=1` in the worktree, run it at least 3 times; all of it must pass every time with your change applied),
  3. the breakage needs something SPECIFIC to manifest — a particular unusual input, a multi-step sequence of operations, a particular combination of options, a crash/fault at a particular point, two cooperating code sites that each look fine alone, a particular interleaving — NOT something ordinary use would expose at once. Think of the kind of bug a careful code reviewer could miss. Do not special-case magic strings like `if name == "xyzzy"`; the change must look like plausible production code (a refactor, an optimisation, a cache, a "tidy-up", a new small feature).
  4. A and B must break the property through different mechanisms, and — IMPORTANT — eight earlier rounds already covered the targets listed below. Pick DIFFERENT clauses of the statement, different functions, or different triggering conditions than any of these; prefer parts of the statement and of the quantifier that none of them touches, and code paths away from the centre (error paths, rarely used options, interactions between features, boundary sizes, state that survives between calls):
{covered}

For EACH change also write a DEMONSTRATION: a Go test file (or small Go program) that PASSES on the unmodified library and FAILS with the change applied, and that shows the property being violated (not merely a changed internal detail).

Environment (the sandbox is offline; these exports are needed in every shell call):
  export PATH=/root/go/pkg/mod/golang.org/toolchain@v0.0.1-go1.24.2.linux-amd64/bin:$PATH GOTOOLCHAIN=local GOFLAGS=-mod=mod GOPROXY=off; unset GOSUMDB
No network, no new modules. The test suite writes a git-ignored gengo.sum and regenerates testdata; that is fine. A demonstration that needs a synthetic Go module should create it in a temp directory (modules without external dependencies load fine offline; `go 1.21` in their go.mod).

How to work: read the relevant code in the worktree, decide on change A, apply it, run `go build ./... && go test ./... -count=1` (three times), write and run the demonstration (it must fail), then `git diff > file` + `git checkout -- .` and confirm the demonstration passes on the clean tree. Repeat for B.

DELIVERABLES — create the directory {wt}/SEED with:
  go.mod            containing the single line `module seeddemo` (so that the library's own `go test ./...` ignores the directory)
  A.patch.diff      (output of `git diff` for change A only, applicable with `git apply` on the clean checkout)
  A_demo_test.go    (the demonstration; say in a comment at its top in which package directory of the library it must be placed and the exact `go test` command to run it)
  B.patch.diff, B_demo_test.go   likewise
  NOTES.md          for each change: what it breaks (which clause of the property), what exactly is needed for it to manifest, and the exact commands you ran with their outcome.
Leave the worktree itself clean (git status shows only the untracked SEED directory) when you finish.

Report briefly what A and B are when done, including for each the package directory for the demo and the -run pattern.
'''
for pid,p in props.items():
    wt=f'/tmp/seed9/{pid}'
    if not os.path.exists(wt):
        subprocess.check_call(['git','-C','/repo','worktree','add','-q','--detach',wt,'HEAD'])
    cov='\n'.join('     - '+c for c in covered.get(pid,[]))
    q=p['quantifier']
    open(f'/tmp/seed9/{pid}.prompt.txt','w').write(T.format(wt=wt,id=pid,title=p['title'],statement=p['statement'],quant=q['text'],files=', '.join(p['anchors']['files']),covered=cov))
print('ok')
