#!/bin/bash
# Validates MANIFEST.json and every evidence file against the schemas.
cd "$(dirname "$0")/.."
python3-vt - <<'PY'
import json, glob, jsonschema, sys
ok = True
m = json.load(open('MANIFEST.json'))
jsonschema.validate(m, json.load(open('/root/.vp/MANIFEST.schema.json')))
print("MANIFEST ok:", len(m['checks']), "checks")
es = json.load(open('/root/.vp/EVIDENCE.schema.json'))
for f in sorted(glob.glob('evidence/*.json')):
    try:
        jsonschema.validate(json.load(open(f)), es)
        d = json.load(open(f))
        print(f, "ok", d['tier'], d['coverage']['evaluations'], d['coverage']['distinct_nontrivial'], "viol", d.get('violations'))
    except Exception as e:
        ok = False
        print(f, "INVALID", str(e)[:300])
sys.exit(0 if ok else 1)
PY
