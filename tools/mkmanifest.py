#!/usr/bin/env python3
"""Writes /verif/MANIFEST.json from the table below (run after adding a check)."""
import json, os, sys

ROOT = os.path.dirname(os.path.dirname(os.path.abspath(__file__)))

ENGINES = [
    {"name": "pure", "path": "harness/pure", "kind_free_text": "rapid property tests (+ native go fuzz targets) on pure functions called in-process"},
    {"name": "pipe", "path": "harness/pipe", "kind_free_text": "synthetic module on disk + gengo.NewContext/Execute with scripted recording generators; tree snapshots, fault enumeration, model-based histories"},
    {"name": "univ", "path": "harness/univ", "kind_free_text": "types.Load on generated packages and on /repo's closure, differential against go/types; supervised child for ResultsOf"},
    {"name": "lit", "path": "harness/lit", "kind_free_text": "value/type literals rendered by the dumper, re-checked with go/types and an AST evaluator over fixture packages"},
    {"name": "gen", "path": "harness/gen", "kind_free_text": "batches of generated packages through the real generators, compiled and run with go test"},
]

# id -> (engine, level category, technique, level text, level note, design ref)
CHECKS = {}

def add(pid, engine, cat, technique, text, note, ref):
    CHECKS[pid] = dict(engine=engine, cat=cat, technique=technique, text=text, note=note, ref=ref)

add("C19", "pure", "exploration",
    "property-based testing (rapid) with a lossless-concatenation oracle; native go fuzz target in thorough",
    "Generated strings (ASCII words, separators at any position, Unicode case classes, invalid UTF-8) are split and converted; "
    "the oracle checks no panic, non-empty words, concatenation == input, invalid UTF-8 => single word, converter purity "
    "(repeated calls; the same inputs converted in two fresh processes in opposite orders; 2-16 goroutines converting simultaneously against the sequential answers). "
    "Exploration is the right level: the domain is all strings and the oracle is exact.",
    "Trusts unicode/utf8 of the Go standard library for the validity and class predicates; purity judged by repeated calls.",
    "DESIGN.md section 3, C19")

add("C09", "pure", "exploration",
    "property-based testing (rapid) against an independent reference interpreter of the template/Sprintf language; exhaustive small-scope enumeration; native go fuzz targets in thorough",
    "Generated trees of snippet constructors are rendered through the real SnippetWriter and through a reference interpreter written from the statement; "
    "output must match (with three stated leniencies) and panic/no-panic must agree; a rendering that is still recursing more than 5000 frames deep is reported as runaway recursion. All formats up to a length bound over a 6-symbol alphabet are enumerated exhaustively.",
    "Trusts the harness reference interpreter (about 120 lines); Go-nil snippets, surplus Sprintf arguments and invalid UTF-8 formats are not generated.",
    "DESIGN.md section 3, C09")

add("C15", "pure", "exploration",
    "property-based testing (rapid) with a print/parse round trip and a reference parser for rendered text; exhaustive enumeration of all small trees",
    "Reference trees (depth <= 4, a fifth wrapped into chains of up to 12 further bracket levels) are generated from the grammar, printed by the harness and parsed back by ParseTypeRef (tree equality and String round trip); ParseRef, Ref and "
    "PkgImportPathAndExpose must split at the harness-known point; rendering through snippet.ID/PkgExpose is parsed by a harness parser and every qualifier is resolved "
    "through the tracker. Every tree up to 5 (quick) / 6 (thorough) nodes over 6 labels is enumerated.",
    "Trusts the harness tree printer and rendered-text parser; paths without /vendor/.",
    "DESIGN.md section 3, C15")

add("C03", "pipe", "exploration",
    "property-based testing (rapid): selector/import-table invariants over generated colliding import paths; generated files compiled by the Go toolchain",
    "Ordered lists of colliding import paths are referenced through every reference kind; the oracle resolves each rendered qualifier through the tracker, "
    "requires Imports() to equal the referenced foreign set under distinct valid identifiers, own-package references unqualified, and re-rendering to be stable. "
    "The file-level sub lays such packages out in a temp module, runs Execute and lets go build confirm none missing / none unused.",
    "Trusts go/token.IsIdentifier for identifier validity and the Go compiler for the file-level confirmation.",
    "DESIGN.md section 3, C03")

add("C20", "pure", "exploration",
    "property-based testing (rapid) with a metamorphic prefix relation, under the race detector, concurrent scenarios in fresh child processes; native go fuzz target in thorough",
    "Every irregular and uninflected word (lists parsed from the source at run time) in four letter cases, alone and behind generated prefixes, plus free strings with "
    "case-fold aliases: no panic, f(s)==f(s), f(prefix+word)==prefix+f(word). Concurrent scenarios (2-32 goroutines on cold keys) run in a child process of the "
    "-race binary; any race report, fatal error or result differing from the sequential one is a violation.",
    "Trusts the Go race detector and regexp word-boundary semantics; schedules are sampled, not enumerated.",
    "DESIGN.md section 3, C20")

add("C06", "pipe", "exploration",
    "property-based testing (rapid): recording generators on generated modules, call log compared with a reference enablement lattice computed from the harness's own module description",
    "Synthetic modules with every declaration kind and tags at global/package/declaration level are run through gengo with recording Generator/AliasGenerator "
    "implementations (prefix-related names, with/without New, Defer registrations). The multiset of (generator, package, type) calls must equal the set derived "
    "from the spec by a reference lattice; locals, type parameters, aliases-through-GenerateType, foreign types are rejected; Defer callbacks run once, after the last "
    "GenerateType of their (package, generator) and while the output file still has its pre-run content.",
    "Trusts the harness module renderer and reference lattice; repeated keys within one comment and conflicting package tags across files are not generated.",
    "DESIGN.md section 3, C06")

add("C07", "pipe", "exploration",
    "property-based testing (rapid): byte snapshots of the whole module tree before/after each run of generated run histories",
    "Modules with user files, look-alike names, stale and previous outputs, README and old gengo.sum (some with a nested module or a second go.work workspace module) are run 1-3 times with varying generator sets/behaviours, "
    "entrypoint subsets and All/Force; every changed path must be <base>.* directly inside a processed package or gengo.sum (only with All); per generator the "
    "file exists iff it rendered, ErrIgnore-and-nothing keeps the previous bytes, stale <base>.*.go files are gone. A sameexecutor sub makes 2-4 Execute calls with changing generator sets on one Executor.",
    "Cache skips in All-without-Force runs are observed (no generator call), not modelled here (C08 models them).",
    "DESIGN.md section 3, C07")

add("C01", "pipe", "exploration",
    "property-based testing (rapid): grammar-generated declarations with odd whitespace rendered through recording generators; differential against go/parser, go/scanner, go/format and gofumpt",
    "Generators render declarations drawn from a Go grammar (funcs, methods, var/const/type, literals, comments, directives, imports through snippet.ID) with "
    "hostile whitespace; after Execute each written file must parse, open with a comment naming its generator (whole word), declare the spec's package name, "
    "hold exactly the recorded rendered tokens and comments in order, and be a fixed point of go/format.Source and of gofumpt for the module's go version and path. "
    "A writefault sub lowers RLIMIT_FSIZE around Execute in a child process: Execute must fail or the file must be complete.",
    "Trusts go/scanner, go/parser, go/format and mvdan.cc/gofumpt as reference; token equality is asserted only for the grammar, which avoids gofmt -s / gofumpt token rewrites.",
    "DESIGN.md section 3, C01")

add("C04", "pipe", "exploration",
    "property-based testing (rapid): repeated runs, fresh-process runs and permuted entrypoints from one initial tree must agree byte for byte; re-run on the result must be a fixed point",
    "From the same initial tree 3 in-process runs, a run in a fresh child process and runs with permuted entrypoint lists must produce byte-identical generated files, "
    "gengo.sum and GenerateType call sequences (also with the generators listed in reverse order, and the second run made by a fresh process); a further run on the result must change no generated file and, with All, a third run nothing at all; a source edited in place with its modification time kept must give what a fresh checkout of the same contents gives. "
    "Generators echo everything order-sensitive gengo hands them (type order, doc lines, tags, map literal, imports).",
    "Map-iteration orders are sampled by repetition (a 2-way order dependence escapes one case with p<=2^-4, and there are hundreds of cases).",
    "DESIGN.md section 3, C04")

add("C05", "pipe", "exploration",
    "property-based testing (rapid), metamorphic: a package's output bytes compared across selections (alone / with others / any order / through All)",
    "Stateful recording generators (per-instance counter, helper-once flag, clashing import references; zero-value and custom-New construction) and the real "
    "runtimedoc/defaulter generators are run from the same initial tree under 2-5 selections; every package's <base>.* files must be byte-identical in all selections that process it.",
    "All runs use Force so that the cache does not decide what is processed.",
    "DESIGN.md section 3, C05")

add("C08", "pipe", "exploration",
    "model-based property testing (rapid): generated histories of file edits, gengo.sum corruptions and runs against a reference cache model that hashes directories itself",
    "Histories of edits (incl. bytes past 64 KiB of big files, in-place edits keeping size and mtime) / sum-file corruptions / runs (All, Force, failing, subset, non-All) are replayed against the real tree; before each run the model hashes "
    "every loaded package directory with x/mod dirhash (cross-checked by an own h1 implementation) and parses gengo.sum with its own reader; the set of packages the "
    "recording generator is invoked for, the bytes of gengo.sum and the read-back mapping must equal the model after every step, and three unchanged runs must converge.",
    "Trusts x/mod/sumdb/dirhash (cross-checked) and the harness sum-file reader; no filesystem semantics beyond create/edit/delete/symlink/chtimes.",
    "DESIGN.md section 3, C08")

add("C02", "pipe", "fault_enumeration",
    "systematic fault injection over generated layouts: every (generator, package, type) position gets error / unparseable-rendering / Defer-error / alias-error / skip / ignore / process-death faults; tree snapshots as oracle",
    "For each generated layout (previous outputs and a gengo.sum from a successful run, sources then edited) every generator-visible position in processing order is "
    "enumerated and injected with fault kinds round-robin (17 in-process kinds, os.Exit and SIGKILL in a child process). Error kinds: Execute returns non-nil without "
    "panicking, the message names generator+package or a file:line:col position, the generator's previous file is byte-identical (or still absent), gengo.sum untouched. "
    "Death kinds: non-zero exit, gengo.sum untouched, a clean re-run reaches the never-crashed state. ErrSkip/ErrIgnore (plain, wrapped) must not fail.",
    "Faults are injected at generator-visible points only (write faults are covered by C01's writefault sub); every third error point also retries Execute on the same Executor.",
    "DESIGN.md section 3, C02")

add("C13", "univ", "exploration",
    "property-based testing (rapid) and a corpus sweep: differential of every Package accessor against go/types on generated modules and on /repo's whole dependency closure",
    "Generated modules (local types/consts reusing package-level names, shadowing type parameters, generic receivers, grouped declarations, init/blank functions, "
    "named/blank imports, a replaced sibling module) are loaded with types.Load and every package of the closure is compared with go/types: table keys and object "
    "identity against Pkg().Scope(), MethodsOf against Named.Method(i), Imports() against Package.Imports and Universe.Package, SourceDir/LocateInPackage against the file "
    "directories. The same comparison sweeps all ~195 packages of /repo's own closure (std included).",
    "go/types is the reference; blank-named functions and init are ignored, interfaces skipped for MethodsOf; a cgo package and a net/http importer are swept too.",
    "DESIGN.md section 3, C13")

add("C12", "univ", "exploration",
    "property-based testing (rapid): generated source layouts with known comment placement compared with Doc/Comment after types.Load; ExtractCommentTags against a reference splitter; native go fuzz target in thorough",
    "Source files are generated from a layout description that records, per declared name, which doc lines / detached comment / trailing comment the harness wrote; after "
    "types.Load, Doc(pos) must return exactly those doc lines (tags split off by the reference splitter) and Comment(pos) exactly the trailing comment, for types, struct "
    "fields (multi-name too), consts and vars, grouped and ungrouped. ExtractCommentTags is compared with a splitter written from the statement on arbitrary line lists and marker sets.",
    "Trusts go/types positions and the harness's layout renderer; comment lines are non-empty and blank-trimmed; function-local declarations are not covered.",
    "DESIGN.md section 3, C12")

add("C14", "univ", "exploration",
    "property-based testing (rapid) over a grammar of functions plus a corpus sweep of /repo's closure, each function checked by ResultsOf in a supervised child process; literal-only functions against a table of known constant values",
    "Generated two-package modules exercise recursion through every result index, named results, bare returns, multi-value forwarding, method/interface/cross-package "
    "calls and closure arguments with fewer/equal/more results; every function of the module, and every one of the ~11,600 functions, methods and interface methods of "
    "/repo's dependency closure, is checked in a child process (crash or stack overflow = violation, timeout = inconclusive): declared count, n non-empty lists, each "
    "alternative a constant or a type assignable to the declared result, same answer twice, again after all other functions were asked, and from a second universe asked in the opposite order; literal-only functions must yield exactly the harness's values in source order.",
    "Trusts go/types.AssignableTo and go/constant; one hand-built known finding (unnamed intermediate slice) is replayed and reported as KNOWN-FINDING.",
    "DESIGN.md section 3, C14")

add("C11", "lit", "exploration",
    "property-based testing (rapid): generated type expressions built twice (go/types over loaded fixtures, reflect over compiled fixtures), rendered, re-type-checked with go/types and compared by identity",
    "Closed type expressions over predeclared types, error, any, 43 fixture types in three packages (clashing package names and simple names), nested generic "
    "instantiations, pointers, slices, arrays, maps, channels and structs with tags/embedded fields are rendered by snippet.ID / %T for the type's own package, another "
    "package, or a tracker pre-seeded with clashing names; `var X <text>` is type-checked in the target package with exactly the registered imports and X's type must be "
    "identical to the original (types.Identical; own package: fully qualified TypeString of the re-checked package); local names unqualified, foreign ones under the tracker's name.",
    "go/types is the reference; fixture packages are loaded from source once per process.",
    "DESIGN.md section 3, C11")

add("C10", "lit", "exploration",
    "property-based testing (rapid): generated reflect values rendered by the dumper, the literal type-checked with go/types against the harness-spelled type and evaluated back by an AST evaluator (round trip)",
    "Edge-biased values of grammar-generated types (all scalar kinds, named scalars, fixture structs/slices/maps/arrays, pre-instantiated generics, single-level pointers, "
    "maps with non-string keys, anonymous structs) are rendered by snippet.Value / %v into another package, the type's own package or a clashing tracker; the literal must "
    "type-check as `var V <T> = <literal>` with exactly the registered imports, evaluate (go/constant + AST evaluator) to a deeply equal value (nil == empty, -0 == 0) and render identically twice.",
    "The literal is evaluated by a harness evaluator over go/types information rather than compiled and run; go/types and go/constant are trusted.",
    "DESIGN.md section 3, C10")

add("C16", "gen", "exploration",
    "property-based testing (rapid): batches of generated packages through the real runtimedoc generator, compiled and run by go test against a harness-written expectation table",
    "Generated packages (plain/generic structs, value/pointer embedding of exported and unexported structs, structs without exported fields, anonymous/empty struct fields, "
    "defined non-struct types, interfaces; hostile doc text) are processed by the real generator; each package then compiles with a harness-written _test.go that "
    "calls RuntimeDoc for the type, every listed field, every delegated field, unlisted and unknown names and compares with expectations derived from the harness's own spec "
    "(strings via strconv.Quote, independent of gengo); uncovered types must not have the method (unless Go promotes one).",
    "Trusts the Go toolchain; names passed to non-struct types and nil embedded pointers are not asserted.",
    "DESIGN.md section 3, C16")

add("C17", "gen", "exploration",
    "property-based testing (rapid): batches of generated type graphs through the real deepcopy generator, first-run output compiled and run by go test (mutate-the-copy oracle), second run compared byte for byte",
    "Generated packages (package tag or per-type tags with untagged dependencies; nested by-value structs, embedded structs, defined scalar/map types, error/any/"
    "same-package/foreign interface fields, generic structs and fields instantiating them, gengo:deepcopy:interfaces) are processed by the real generator; the first "
    "run's output must compile with a harness-written test: nil copy is nil, the copy of a fully populated literal is DeepEqual, and after overwriting/appending/"
    "inserting/deleting in every slice and map reachable through by-value nesting of the copy the original still equals an independently built snapshot; a second run must emit the same bytes.",
    "Trusts the Go toolchain and reflect.DeepEqual; pointer/func/chan fields, containers of non-scalars, defined slice types and struct-typed generic arguments are outside the domain.",
    "DESIGN.md section 3, C17")

add("C18", "gen", "exploration",
    "property-based testing (rapid): generated origin structs and omit/replace tag combinations through the real partialstruct generator, output compiled and inspected with reflect by go test; enumerated negative declarations",
    "Generated modules (origin structs with scalar/slice/map/array/pointer/foreign/error/interface/nested-origin fields and hostile backquote-free tags; declaring "
    "package with `type x origin.T`, omit and replace tags, grouped and ungrouped) are processed by the real generator; a harness-written test compares reflect.TypeOf(X) "
    "with the origin (fields minus omitted, order, type identity, tags, replacements), checks DeepCopyAs(nil) == nil and, for a reflect-filled source, equality of "
    "every retained field and zero for every omitted one. Sixteen declarations that are not structs defined from a named type must fail without writing a file; a samepackage sub covers origins declared in the declaring package.",
    "Trusts the Go toolchain and reflect; embedded origin fields and tags with backquotes are outside the domain.",
    "DESIGN.md section 3, C18")

ALL = ["C%02d" % i for i in range(1, 21)]

def main():
    checks = []
    for pid in ALL:
        if pid not in CHECKS:
            continue
        c = CHECKS[pid]
        checks.append({
            "property_id": pid,
            "quick_cmd": "./check %s quick" % pid,
            "thorough_cmd": "./check %s thorough" % pid,
            "evidence_file": "evidence/%s.json" % pid,
            "replay_cmd_template": "./check %s --replay {path}" % pid,
            "engine": c["engine"],
            "level_claimed": {"category": c["cat"], "text": c["text"], "design_ref": c["ref"]},
            "level_note": c["note"],
            "technique": c["technique"],
        })
    na = [{"property_id": pid, "reason": "check not built yet in this session (planned in DESIGN.md section 3; generated-input search applies)"}
          for pid in ALL if pid not in CHECKS]
    m = {
        "version": 1,
        "setup_cmd": "./check setup",
        "hooks": {
            "guard": "verif",
            "enable": "no hooks: every observation point is reachable through gengo's public API, so checks build /repo as it is (the build tag 'verif' is reserved and unused)",
            "baseline_off_cmd": "./tools/baseline.sh",
            "source_commits": [],
            "add_only": True,
        },
        "engines": [dict(e, serves_properties=[p for p in ALL if p in CHECKS and CHECKS[p]["engine"] == e["name"]]) for e in ENGINES],
        "checks": checks,
        "notes": "Driver: ./check <ID> quick|thorough|--replay <file>; exit 0 held / 1 violation / 2 inconclusive. "
                 "VERIF_SEED selects the rapid seed. Known findings: KNOWN_FINDINGS.txt (known:/fixed: lines), inputs in known/ and regress/.",
        "not_applicable": na,
    }
    with open(os.path.join(ROOT, "MANIFEST.json"), "w") as f:
        json.dump(m, f, indent=1)
        f.write("\n")
    print("wrote MANIFEST.json with %d checks, %d not claimed" % (len(checks), len(na)))

if __name__ == "__main__":
    main()
